//! Utils.tla / LegacySort.tla: the crate-internal helpers the decoder and the converters lean on
//! (C06 / C19 / C05).  Replays every scenario TLC printed on the real `TandemSorter`, `LimitedQueue`
//! and `sort::osu_legacy` (re-exported by the `rosu_pp::verif` hook module).

#![cfg_attr(verif_degraded, allow(dead_code, unused_imports))]
use crate::util::*;
use rosu_pp::model::hit_object::HitObject;
#[cfg(not(verif_degraded))]
use rosu_pp::verif::{sort_csharp, sort_osu_legacy, LimitedQueue, TandemSorter};
use rosu_pp::Beatmap;
use serde_json::{json, Value};
use std::collections::BTreeMap;

fn proto() -> HitObject {
    let text = "osu file format v14\n\n[General]\nMode: 0\n\n[HitObjects]\n10,10,0,1,0\n";
    Beatmap::from_bytes(text.as_bytes()).expect("decode").hit_objects[0].clone()
}

fn ints(v: &Value) -> Vec<i64> {
    v.as_array().map(|a| a.iter().map(|x| x.as_i64().unwrap_or(0)).collect()).unwrap_or_default()
}

#[cfg(not(verif_degraded))]
fn queue_case<const N: usize>(hist: &[i64]) -> (Vec<i64>, usize, Vec<i64>) {
    let mut q = LimitedQueue::<i64, N>::new();
    for h in hist {
        q.push(*h);
    }
    let (a, b) = q.as_slices();
    let mut all = a.to_vec();
    all.extend_from_slice(b);
    let idx: Vec<i64> = (0..q.len()).map(|i| q[i]).collect();
    (all, q.len(), idx)
}

#[cfg(verif_degraded)]
pub fn main(args: &[String]) -> i32 {
    std::fs::write(&args[1], r#"{"scenarios": 0, "degraded": true, "by_kind": {}, "mismatches": 0, "benign": 0, "by_class": {}, "records": []}"#).unwrap();
    println!("utils-replay: DEGRADED build, internal helper API changed - nothing replayed");
    0
}

/// `utils-replay <scenarios.ndjson> <out.json>`
#[cfg(not(verif_degraded))]
pub fn main(args: &[String]) -> i32 {
    silence_panics();
    let scenarios = read_ndjson(&args[0]);
    let n = scenarios.len();
    let proto = proto();
    let res = par_map(n, n_threads(), |i| {
        let sc = &scenarios[i];
        let mut out: Vec<Value> = Vec::new();
        let aspect = sc["aspect"].as_str().unwrap_or("");
        let kind = sc["kind"].as_str().unwrap_or(aspect);
        let keys = ints(&sc["keys"]);
        let mut bad = |what: &str, benign: bool, exp: String, obs: String| {
            out.push(json!({"what": what, "benign": benign, "scenario_index": i, "kind": kind, "aspect": aspect, "keys": keys, "hist": sc["hist"], "expected": exp, "observed": obs}));
        };
        match kind {
            "legacysort" => {
                let mut v: Vec<HitObject> = keys.iter().enumerate().map(|(p, k)| {
                    let mut h = proto.clone();
                    h.start_time = *k as f64;
                    h.pos.x = (p + 1) as f32;
                    h
                }).collect();
                let r = guarded(|| {
                    sort_osu_legacy(&mut v);
                    v.iter().map(|h| (h.start_time as i64, h.pos.x as i64)).collect::<Vec<_>>()
                });
                let model_ids = ints(&sc["rust"]);
                let model_err = sc["rust_err"].as_str().unwrap_or("");
                match r {
                    Err(p) => {
                        // a panic is a property violation on the inputs the library produces (sorted), and a
                        // conformance fact elsewhere (the model must have predicted it)
                        if aspect == "sorted" {
                            bad("legacysort:panic", false, "no panic".into(), p);
                        } else if model_err.is_empty() {
                            bad("legacysort:conformance", true, format!("{model_ids:?}"), format!("panic {p}"));
                        }
                    }
                    Ok(got) => {
                        let ids: Vec<i64> = got.iter().map(|g| g.1).collect();
                        let sorted = got.windows(2).all(|w| w[0].0 <= w[1].0);
                        let mut perm = ids.clone();
                        perm.sort_unstable();
                        let is_perm = perm == (1..=keys.len() as i64).collect::<Vec<_>>() && got.iter().all(|g| keys[(g.1 - 1) as usize] == g.0);
                        if aspect == "sorted" && !(sorted && is_perm) {
                            bad("legacysort:not_a_sorted_permutation", false, "sorted permutation".into(), format!("{got:?}"));
                        }
                        if !model_err.is_empty() || ids != model_ids {
                            // the code differs from its transcription: benign for the property when it still sorts
                            bad("legacysort:conformance", sorted && is_perm, format!("{model_ids:?} err '{model_err}'"), format!("{ids:?}"));
                        }
                    }
                }
            }
            "csharpsort" => {
                let mut v: Vec<(i64, i64)> = keys.iter().enumerate().map(|(p, k)| (*k, p as i64 + 1)).collect();
                let r = guarded(|| {
                    sort_csharp(&mut v, |a, b| a.0.cmp(&b.0));
                    v.clone()
                });
                let model_ids = ints(&sc["out"]);
                match r {
                    Err(p) => bad("csharpsort:panic", false, "no panic".into(), p),
                    Ok(got) => {
                        let ids: Vec<i64> = got.iter().map(|g| g.1).collect();
                        let sorted = got.windows(2).all(|w| w[0].0 <= w[1].0);
                        let mut perm = ids.clone();
                        perm.sort_unstable();
                        let is_perm = perm == (1..=keys.len() as i64).collect::<Vec<_>>();
                        if !(sorted && is_perm) {
                            bad("csharpsort:not_a_sorted_permutation", false, "sorted permutation".into(), format!("{got:?}"));
                        } else if ids != model_ids {
                            // another order among equal keys than the transcription: still what the property needs
                            bad("csharpsort:conformance", true, format!("{model_ids:?}"), format!("{ids:?}"));
                        }
                    }
                }
            }
            "tandem" => {
                let perm = ints(&sc["perm"]);
                let pairs: Vec<(i64, i64)> = keys.iter().enumerate().map(|(p, k)| (*k, p as i64 + 1)).collect();
                let r = guarded(|| {
                    let mut sorter = TandemSorter::new_stable(&pairs, |a, b| a.0.cmp(&b.0));
                    let mut a = pairs.clone();
                    let mut b: Vec<i64> = (1..=keys.len() as i64).map(|k| 100 + k).collect();
                    let mut c: Vec<i64> = (1..=keys.len() as i64).map(|k| 200 + k).collect();
                    sorter.sort(&mut a);
                    sorter.sort(&mut b);
                    sorter.sort(&mut c);
                    // a fourth application after two resets
                    let mut d: Vec<i64> = (1..=keys.len() as i64).collect();
                    sorter.sort(&mut d);
                    (a, b, c, d)
                });
                match r {
                    Err(p) => bad("tandem:panic", false, "no panic".into(), p),
                    Ok((a, b, c, d)) => {
                        let want_a: Vec<(i64, i64)> = perm.iter().map(|p| pairs[(*p - 1) as usize]).collect();
                        let want_b: Vec<i64> = perm.iter().map(|p| 100 + p).collect();
                        let want_c: Vec<i64> = perm.iter().map(|p| 200 + p).collect();
                        if a != want_a {
                            bad("tandem:first_slice", false, format!("{want_a:?}"), format!("{a:?}"));
                        }
                        if b != want_b {
                            bad("tandem:second_slice", false, format!("{want_b:?}"), format!("{b:?}"));
                        }
                        if c != want_c {
                            bad("tandem:third_slice", false, format!("{want_c:?}"), format!("{c:?}"));
                        }
                        if d != perm {
                            bad("tandem:fourth_slice", false, format!("{perm:?}"), format!("{d:?}"));
                        }
                    }
                }
            }
            _ => {
                let hist = ints(&sc["hist"]);
                for (slot, nq) in [1usize, 2, 3, 7].iter().enumerate() {
                    let want = ints(&sc["queue"][slot]);
                    let r = guarded(|| match nq {
                        1 => queue_case::<1>(&hist),
                        2 => queue_case::<2>(&hist),
                        3 => queue_case::<3>(&hist),
                        _ => queue_case::<7>(&hist),
                    });
                    match r {
                        Err(p) => bad("queue:panic", false, "no panic".into(), p),
                        Ok((all, len, idx)) => {
                            if all != want {
                                bad("queue:as_slices", false, format!("N={nq} {want:?}"), format!("{all:?}"));
                            }
                            if len != want.len() {
                                bad("queue:len", false, format!("N={nq} {}", want.len()), len.to_string());
                            }
                            if idx != want {
                                bad("queue:index", false, format!("N={nq} {want:?}"), format!("{idx:?}"));
                            }
                        }
                    }
                }
            }
        }
        out
    });
    let mism: Vec<Value> = res.into_iter().flatten().collect();
    let hard: Vec<&Value> = mism.iter().filter(|m| !m["benign"].as_bool().unwrap_or(false)).collect();
    let mut by: BTreeMap<String, u64> = BTreeMap::new();
    for m in &mism {
        *by.entry(format!("{}{}", m["what"].as_str().unwrap_or("?"), if m["benign"].as_bool().unwrap_or(false) { " (benign)" } else { "" })).or_default() += 1;
    }
    let mut kinds: BTreeMap<String, u64> = BTreeMap::new();
    for s in &scenarios {
        *kinds.entry(format!("{}/{}", s["kind"].as_str().unwrap_or("utils"), s["aspect"].as_str().unwrap_or(""))).or_default() += 1;
    }
    let out = json!({"scenarios": n, "by_kind": kinds, "mismatches": hard.len(), "benign": mism.len() - hard.len(), "by_class": by, "records": hard.iter().take(24).collect::<Vec<_>>()});
    std::fs::write(&args[1], serde_json::to_string_pretty(&out).unwrap()).unwrap();
    println!("utils-replay: scenarios={} mismatches={} benign={}", n, hard.len(), mism.len() - hard.len());
    0
}

/// `ctrlpoints-replay <scenarios.ndjson> <out.json>`: every strictly ordered time list TLC enumerated (MC_ControlPoints) with
/// every query time: the three lookups of src/model/control_point must return the point the model names (0 = none).
#[cfg(not(verif_degraded))]
pub fn ctrlpoints_main(args: &[String]) -> i32 {
    use rosu_pp::model::control_point::{DifficultyPoint, EffectPoint, TimingPoint};
    silence_panics();
    let scenarios = read_ndjson(&args[0]);
    let mut mism: Vec<Value> = Vec::new();
    let mut checks = 0u64;
    for (i, sc) in scenarios.iter().enumerate() {
        let ts: Vec<f64> = sc["ts"].as_array().map(|a| a.iter().map(|v| v.as_f64().unwrap_or(f64::NAN)).collect()).unwrap_or_default();
        let tps: Vec<TimingPoint> = ts.iter().enumerate().map(|(k, t)| TimingPoint { time: *t, beat_len: 100.0 + k as f64 }).collect();
        let dps: Vec<DifficultyPoint> = ts.iter().enumerate().map(|(k, t)| DifficultyPoint { time: *t, slider_velocity: 1.0 + k as f64, bpm_multiplier: 1.0, generate_ticks: true }).collect();
        let eps: Vec<EffectPoint> = ts.iter().enumerate().map(|(k, t)| EffectPoint { time: *t, kiai: k % 2 == 0, scroll_speed: 1.0 + k as f64 }).collect();
        for q in sc["q"].as_array().map(|a| a.as_slice()).unwrap_or(&[]) {
            let (t, want_t, want_d) = (q[0].as_f64().unwrap_or(f64::NAN), q[1].as_i64().unwrap_or(-1), q[2].as_i64().unwrap_or(-1));
            let r = guarded(|| {
                let a = rosu_pp::verif::timing_point_at(&tps, t).map_or(0, |p| (p.beat_len - 99.0) as i64);
                let b = rosu_pp::verif::difficulty_point_at(&dps, t).map_or(0, |p| p.slider_velocity as i64);
                let c = rosu_pp::verif::effect_point_at(&eps, t).map_or(0, |p| p.scroll_speed as i64);
                (a, b, c)
            });
            checks += 3;
            match r {
                Ok(got) if got == (want_t, want_d, want_d) => {}
                Ok(got) => mism.push(json!({"what": "active_control_point", "scenario_index": i, "times": ts, "query": t, "expected": format!("timing {want_t} difficulty {want_d} effect {want_d}"), "observed": format!("timing {} difficulty {} effect {}", got.0, got.1, got.2)})),
                Err(p) => mism.push(json!({"what": "panic", "scenario_index": i, "times": ts, "query": t, "expected": "no panic", "observed": p})),
            }
        }
    }
    std::fs::write(&args[1], serde_json::to_string_pretty(&json!({"scenarios": scenarios.len(), "checks": checks, "mismatches": mism.len(), "degraded": false, "records": mism.iter().take(12).collect::<Vec<_>>()})).unwrap()).unwrap();
    println!("ctrlpoints-replay: scenarios={} checks={} mismatches={}", scenarios.len(), checks, mism.len());
    0
}

#[cfg(verif_degraded)]
pub fn ctrlpoints_main(args: &[String]) -> i32 {
    std::fs::write(&args[1], serde_json::to_string_pretty(&json!({"scenarios": 0, "checks": 0, "mismatches": 0, "degraded": true, "records": []})).unwrap()).unwrap();
    println!("ctrlpoints-replay: degraded build, skipped");
    0
}
