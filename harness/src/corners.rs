//! C05 (no panic / hang) and C09 (finite, non-negative results): replay of the corner
//! maps TLC enumerated (MC_Corners).  Every public calculation runs inside
//! `catch_unwind`; progress is written to a file so that the driver can detect a
//! stalled call, kill this process and resume after the offending map.

use crate::util::*;
use rosu_pp::any::{DifficultyAttributes, PerformanceAttributes, ScoreState, Strains};
use rosu_pp::model::mode::GameMode;
use rosu_pp::{Beatmap, Difficulty, GradualDifficulty, GradualPerformance, Performance};
use serde::{Deserialize, Serialize};
use serde_json::{json, Value};
use std::fmt::Write;
use std::io::Write as IoWrite;

#[derive(Clone, Debug, Deserialize, Serialize)]
pub struct CObj {
    pub k: String,
    pub t: String,
    pub p: String,
    pub z: String,
}
#[derive(Clone, Debug, Deserialize, Serialize)]
pub struct Glob {
    pub bl: String,
    pub sv: String,
    pub tr: String,
    pub ver: String,
    pub diff: String,
}
#[derive(Clone, Debug, Deserialize, Serialize)]
pub struct Scenario {
    pub domain: String,
    pub mode: String,
    pub glob: Glob,
    pub objs: Vec<CObj>,
}

fn time_of(c: &str) -> f64 {
    match c {
        "t0" => 0.0,
        "neg" => -1000.0,
        "p24" => 16_777_216.0,
        "p30" => 1_073_741_824.0,
        "p31" => 2_147_483_000.0,
        "s1" => 1000.0,
        "m1" => 60_000.0,
        "h3" => 10_800_000.0,
        _ => 0.0,
    }
}
fn delta_of(c: &str) -> f64 {
    match c {
        "d0" => 0.0,
        "d1" => 1.0,
        "d125" => 125.0,
        "d500" => 500.0,
        "d3000" => 3000.0,
        "d20000" => 20_000.0,
        "dbig" => 50_000_000.0,
        _ => 250.0,
    }
}

fn render_maniaconv(sc: &Scenario) -> String {
    let g = &sc.glob;
    let (dv, dense) = (g.diff[1..2].parse::<u32>().unwrap_or(5), g.diff.ends_with("dense"));
    let mut s = String::new();
    let _ = writeln!(s, "osu file format v14\n\n[General]\nMode: 0\n\n[Difficulty]\nHPDrainRate:{dv}\nCircleSize:4\nOverallDifficulty:{dv}\nApproachRate:{}\nSliderMultiplier:1\nSliderTickRate:1\n", dv + 1);
    let _ = writeln!(s, "[TimingPoints]\n0,500,4,2,0,100,1,0\n\n[HitObjects]");
    let mut t = 0.0;
    if dense {
        for i in 0..30 {
            let _ = writeln!(s, "{},192,{},1,0", 40 + (i * 97) % 430, i * 50);
        }
        t = 2000.0;
    }
    let mut end = t;
    for (i, o) in sc.objs.iter().enumerate() {
        if i > 0 {
            t = end + match o.t.as_str() {
                "d60" => 60.0,
                "d115" => 115.0,
                "d130" => 130.0,
                "d200" => 200.0,
                _ => 600.0,
            };
        }
        let snd = if o.z == "n12" { 12 } else { 0 };
        let x = 100 + 90 * (i % 4);
        if o.k == "S" {
            let spans: u32 = if i == 0 { o.t[2..].parse().unwrap_or(1) } else { 2 };
            let span_ms = match o.p.as_str() {
                "s80" => 80.0,
                "s500" => 500.0,
                _ => 300.0,
            };
            // velocity = 100 px per 500 ms beat (SliderMultiplier 1): length = span_ms / 5
            let len = span_ms / 5.0;
            let _ = writeln!(s, "{x},192,{t},2,{snd},L|{}:192,{spans},{len}", x as f64 + len);
            end = t + spans as f64 * span_ms;
        } else {
            let _ = writeln!(s, "{x},100,{t},1,{snd}");
            end = t;
        }
    }
    s
}

pub fn render(sc: &Scenario) -> String {
    if sc.domain == "maniaconv" {
        return render_maniaconv(sc);
    }
    let g = &sc.glob;
    let m = crate::absmap::mode_num(&sc.mode);
    let ver = if g.ver == "v5" { 5 } else { 14 };
    let dv = match g.diff.as_str() {
        "d0" => 0,
        "d10" => 10,
        _ => 5,
    };
    let bl = match g.bl.as_str() {
        "b6" => 6.0,
        "b60000" => 60000.0,
        "b300" => 300.0,
        "b1000" => 1000.0,
        _ => 500.0,
    };
    let tr = match g.tr.as_str() {
        "tr05" => 0.5,
        "tr8" => 8.0,
        "tr4" => 4.0,
        _ => 1.0,
    };
    let mut s = String::new();
    let _ = writeln!(s, "osu file format v{ver}\n\n[General]\nMode: {m}\n\n[Difficulty]\nHPDrainRate:{dv}\nCircleSize:{}\nOverallDifficulty:{dv}\nApproachRate:{dv}\nSliderMultiplier:1.4\nSliderTickRate:{tr}\n",
        if sc.mode == "mania" { dv.clamp(1, 9) } else { dv });
    let t0 = sc.objs.first().map_or(0.0, |o| time_of(&o.t));
    let _ = writeln!(s, "[TimingPoints]\n{},{bl},4,2,0,100,1,0", t0.min(0.0));
    match g.sv.as_str() {
        "sv01" => {
            let _ = writeln!(s, "{},-1000,4,2,0,100,0,0", t0);
        }
        "sv10" => {
            let _ = writeln!(s, "{},-10,4,2,0,100,0,0", t0);
        }
        "sv2" => {
            let _ = writeln!(s, "{},-50,4,2,0,100,0,1", t0);
        }
        _ => {}
    }
    let _ = writeln!(s, "\n[HitObjects]");
    let adversarial = sc.domain == "adversarial";
    let mut t = t0;
    let mut prev = (256.0f64, 192.0f64);
    for (i, o) in sc.objs.iter().enumerate() {
        if i > 0 {
            t += delta_of(&o.t);
        }
        let (x, y) = match o.p.as_str() {
            "o" => (0.0, 0.0),
            "far" => (131_072.0, 131_072.0),
            "negfar" => (-131_072.0, -131_072.0),
            "edge" => (512.0, 384.0),
            "same" => prev,
            _ => (256.0 - 40.0 * (i % 3) as f64, 192.0 + 30.0 * (i % 2) as f64),
        };
        prev = (x, y);
        match o.k.as_str() {
            "C" => {
                let _ = writeln!(s, "{x},{y},{t},1,{}", [0, 8, 4, 2][i % 4]);
            }
            "S" => {
                let (len, slides): (String, u32) = match (o.z.as_str(), adversarial) {
                    ("min", _) => (String::new(), 1),  // length omitted
                    ("edge", _) => ("0.0001".into(), 1),
                    ("stat", _) => ("0".into(), 20),
                    ("max", true) => ("20000".into(), 100),
                    ("max", false) => ("600".into(), 4),
                    _ => ("150".into(), 2),
                };
                if o.z == "stat" {
                    // the only control point is the start position: a path of length zero
                    let _ = writeln!(s, "{x},{y},{t},2,0,L|{x}:{y},{slides},{len}");
                } else {
                    let _ = writeln!(s, "{x},{y},{t},2,0,B|{}:{}|{}:{},{slides}{}{len}", x + 80.0, y + 40.0, x + 160.0, y, if len.is_empty() { "" } else { "," });
                }
            }
            "P" | "H" => {
                let dur = match (o.z.as_str(), adversarial) {
                    ("min", _) => 0.0,
                    ("edge", _) => 101.0,
                    ("max", true) => 600_000.0,
                    ("max", false) => 30_000.0,
                    _ => 3000.0,
                };
                if o.k == "P" {
                    let _ = writeln!(s, "256,192,{t},12,0,{}", t + dur);
                } else {
                    let _ = writeln!(s, "{x},{y},{t},128,0,{}:0:0:0:0:", t + dur);
                }
            }
            _ => {}
        }
    }
    s
}

/// "Slider work is bounded": <= 100 repeats, <= 20000 px, and no slider / spinner / hold lasts longer than
/// 10 minutes (the number of nested objects some modes generate grows with the duration, not the length).
fn bounded_work(map: &Beatmap) -> bool {
    use rosu_pp::model::hit_object::HitObjectKind;
    const MAX_MS: f64 = 600_000.0;
    for h in &map.hit_objects {
        match &h.kind {
            HitObjectKind::Slider(s) => {
                if s.repeats > 100 || s.expected_dist.unwrap_or(0.0) > 20_000.0 {
                    return false;
                }
                let bl = map.timing_points.iter().rev().find(|p| p.time <= h.start_time).or(map.timing_points.first()).map_or(500.0, |p| p.beat_len);
                let sv = map.difficulty_points.iter().rev().find(|p| p.time <= h.start_time).map_or(1.0, |p| p.slider_velocity);
                let velocity = 100.0 * map.slider_multiplier * sv / bl; // px per ms
                let dur = (s.repeats as f64 + 1.0) * s.expected_dist.unwrap_or(0.0) / velocity;
                if !(dur <= MAX_MS) {
                    return false;
                }
            }
            HitObjectKind::Spinner(s) if s.duration > MAX_MS => return false,
            HitObjectKind::Hold(s) if s.duration > MAX_MS => return false,
            _ => {}
        }
    }
    true
}

// heartbeat: the driver's watchdog budget is per CALL, not per map (one map is several hundred calls); while a map is being
// processed, the current index is written again whenever a call finishes and the last write is more than a second old
static HEART: std::sync::Mutex<Option<(std::fs::File, std::time::Instant, usize)>> = std::sync::Mutex::new(None);
fn beat_start(file: std::fs::File) {
    *HEART.lock().unwrap() = Some((file, std::time::Instant::now(), 0));
}
fn beat_map(i: usize) {
    if let Some((f, at, idx)) = HEART.lock().unwrap().as_mut() {
        *idx = i;
        *at = std::time::Instant::now();
        let _ = writeln!(f, "{i}");
        let _ = f.flush();
    }
}
fn beat() {
    if let Some((f, at, idx)) = HEART.lock().unwrap().as_mut() {
        if at.elapsed().as_millis() >= 1000 {
            *at = std::time::Instant::now();
            let _ = writeln!(f, "{idx}");
            let _ = f.flush();
        }
    }
}
fn beat_done() {
    if let Some((f, _, _)) = HEART.lock().unwrap().as_mut() {
        let _ = writeln!(f, "done");
        let _ = f.flush();
    }
}

#[derive(Default)]
struct Obs {
    skipped: u64,
    calls: u64,
    problems: Vec<Value>,
}

fn class_of(x: f64) -> &'static str {
    if x.is_nan() {
        "NaN"
    } else if x.is_infinite() {
        "Inf"
    } else if x < 0.0 {
        "Neg"
    } else if x == 0.0 {
        "Zero"
    } else {
        "Pos"
    }
}

/// every f64 of difficulty attributes (name, value)
fn diff_floats(a: &DifficultyAttributes) -> Vec<(&'static str, f64)> {
    match a {
        DifficultyAttributes::Osu(a) => vec![
            ("aim", a.aim), ("aim_difficult_slider_count", a.aim_difficult_slider_count), ("speed", a.speed), ("flashlight", a.flashlight),
            ("slider_factor", a.slider_factor), ("speed_note_count", a.speed_note_count), ("aim_difficult_strain_count", a.aim_difficult_strain_count),
            ("speed_difficult_strain_count", a.speed_difficult_strain_count), ("great_hit_window", a.great_hit_window), ("ok_hit_window", a.ok_hit_window),
            ("meh_hit_window", a.meh_hit_window), ("hp", a.hp), ("stars", a.stars),
        ],
        DifficultyAttributes::Taiko(a) => vec![
            ("stamina", a.stamina), ("rhythm", a.rhythm), ("color", a.color), ("reading", a.reading), ("great_hit_window", a.great_hit_window),
            ("ok_hit_window", a.ok_hit_window), ("mono_stamina_factor", a.mono_stamina_factor), ("stars", a.stars),
        ],
        DifficultyAttributes::Catch(a) => vec![("stars", a.stars)],
        DifficultyAttributes::Mania(a) => vec![("stars", a.stars)],
    }
}

fn perf_floats(p: &PerformanceAttributes) -> Vec<(&'static str, f64)> {
    match p {
        PerformanceAttributes::Osu(p) => vec![("pp", p.pp), ("pp_acc", p.pp_acc), ("pp_aim", p.pp_aim), ("pp_flashlight", p.pp_flashlight), ("pp_speed", p.pp_speed), ("effective_miss_count", p.effective_miss_count)],
        PerformanceAttributes::Taiko(p) => vec![("pp", p.pp), ("pp_acc", p.pp_acc), ("pp_difficulty", p.pp_difficulty), ("effective_miss_count", p.effective_miss_count)],
        PerformanceAttributes::Catch(p) => vec![("pp", p.pp)],
        PerformanceAttributes::Mania(p) => vec![("pp", p.pp), ("pp_difficulty", p.pp_difficulty)],
    }
}

fn strain_vecs(s: &Strains) -> Vec<&Vec<f64>> {
    match s {
        Strains::Osu(o) => vec![&o.aim, &o.aim_no_sliders, &o.speed, &o.flashlight],
        Strains::Taiko(t) => vec![&t.color, &t.reading, &t.rhythm, &t.stamina, &t.single_color_stamina],
        Strains::Catch(c) => vec![&c.movement],
        Strains::Mania(m) => vec![&m.strains],
    }
}

fn states_for(attrs: &DifficultyAttributes, adversarial: bool) -> Vec<(String, ScoreState)> {
    let mc = attrs.max_combo();
    let n = match attrs {
        DifficultyAttributes::Osu(a) => a.n_objects(),
        DifficultyAttributes::Taiko(a) => a.max_combo,
        DifficultyAttributes::Catch(a) => a.n_fruits + a.n_droplets,
        DifficultyAttributes::Mania(a) => a.n_objects,
    };
    let mut v = vec![("zero".to_string(), ScoreState::new())];
    let mut full = ScoreState::new();
    full.n300 = n;
    full.max_combo = mc;
    full.n_geki = 0;
    v.push(("full".into(), full));
    let mut miss = ScoreState::new();
    miss.misses = n;
    v.push(("all-miss".into(), miss));
    if adversarial {
        let mut big = ScoreState::new();
        big.n300 = n * 3 + 5;
        big.n100 = n * 3;
        big.n50 = n * 3;
        big.n_geki = n * 3;
        big.n_katu = n * 3;
        big.misses = n * 3;
        big.max_combo = mc * 3 + 7;
        big.slider_end_hits = n * 3;
        big.osu_large_tick_hits = n * 3;
        big.osu_small_tick_hits = n * 3;
        v.push(("3x".into(), big));
    }
    v
}

/// Run every public calculation on the map; report panics (C05) and value classes (C09).
fn run_map(sc: &Scenario, idx: usize, c09: bool, obs: &mut Obs) {
    let text = render(sc);
    let adversarial = sc.domain == "adversarial";
    let mut report = |what: &str, detail: String| {
        obs.problems.push(json!({"what": what, "detail": detail, "scenario_index": idx, "scenario": sc, "osu_text": text}));
    };
    obs.calls += 1;
    beat();
    let map = match guarded(|| Beatmap::from_bytes(text.as_bytes())) {
        Ok(Ok(m)) => m,
        Ok(Err(e)) => {
            report("decode_error", e.to_string());
            return;
        }
        Err(p) => {
            report("panic:decode", p);
            return;
        }
    };
    // preconditions of the property: not suspicious, bounded slider work
    if map.check_suspicion().is_err() {
        obs.skipped += 1;
        return;
    }
    if !bounded_work(&map) {
        obs.skipped += 1;
        return;
    }
    let _ = guarded(|| map.bpm()).map_err(|p| report("panic:bpm", p));
    let targets: Vec<GameMode> = if sc.mode == "osu" { vec![GameMode::Osu, GameMode::Taiko, GameMode::Catch, GameMode::Mania] } else { vec![map.mode] };
    let maniaconv = sc.domain == "maniaconv";
    let rates: &[f64] = if maniaconv { &[1.0] } else if adversarial { &[1.0, 0.01, 100.0] } else if c09 { &[1.0, 0.5, 2.0] } else { &[1.0, 1.5] };
    let mods_list: &[u32] = if maniaconv { &[0] } else if c09 { &[0, 16 | 8, 2 | 1024, 64, 256, 128] } else { &[0, 16 | 64] };
    // C05: settings at the ends of the documented ranges ([-20, 20]); C09: the range reachable in the game
    let overrides: &[Option<f32>] = if maniaconv { &[None] } else if c09 { &[None, Some(0.0), Some(11.0)] } else { &[None, Some(-20.0), Some(20.0)] };
    // mania conversions also under key mods (the pattern generator depends on the key count)
    let mut conversions: Vec<(GameMode, rosu_pp::GameMods)> = Vec::new();
    if sc.domain == "maniaconv" {
        for k in 0u32..=10 {
            let cfg = if k == 0 { crate::settings::Cfg::default() } else { crate::settings::Cfg::default().with_acronyms(&format!("{k}K")) };
            conversions.push((GameMode::Mania, cfg.game_mods()));
        }
    }
    for t in &targets {
        if sc.domain == "maniaconv" {
            break;
        }
        conversions.push((*t, 0u32.into()));
        if *t == GameMode::Mania && sc.mode == "osu" && !c09 {
            for k in [1u32, 4, 8, 10] {
                conversions.push((*t, crate::settings::Cfg::default().with_acronyms(&format!("{k}K")).game_mods()));
            }
        }
    }
    for (ti, (t, conv_mods)) in conversions.iter().enumerate() {
        obs.calls += 1;
    beat();
        let conv = match guarded(|| map.convert_ref(*t, conv_mods).map(|c| c.into_owned())) {
            Ok(Ok(c)) => c,
            Ok(Err(_)) => continue,
            Err(p) => {
                report(&format!("panic:convert:{t:?}"), p);
                continue;
            }
        };
        // mod selections: legacy bit sets, plus the lazer-only mods that transform the map or the formula of this mode
        // (mania Invert / HoldOff, taiko Random, osu!/catch Mirror, osu! Blinds / Traceable / Classic)
        let mut sels: Vec<(String, rosu_pp::GameMods)> = mods_list.iter().map(|b| (b.to_string(), rosu_pp::GameMods::from(*b))).collect();
        let lazer_sels: &[&str] = match t {
            GameMode::Mania => &["IN", "HO", "IN,HO"],
            GameMode::Taiko => &["RD"],
            GameMode::Osu => &["MR", "BL", "TC,CL"],
            GameMode::Catch => &["MR"],
        };
        for a in lazer_sels {
            let cfg = if *a == "RD" {
                crate::settings::Cfg { random_seed: Some(7 + idx as i32 % 5), da_scroll: Some(1.0), ..Default::default() }
            } else {
                crate::settings::Cfg::default().with_acronyms(a)
            };
            sels.push((a.to_string(), cfg.game_mods()));
        }
        for (ri, &rate) in rates.iter().enumerate() {
            for (mi, (mods, game_mods)) in sels.iter().enumerate() {
                // keep the product small: every rate with the first mods, every mods with the first rate
                if ri > 0 && mi > 0 {
                    continue;
                }
                for (oi, ov) in overrides.iter().enumerate() {
                    if oi > 0 && mi >= mods_list.len() {
                        continue;
                    }
                    let mut d = Difficulty::new().mods(game_mods.clone()).clock_rate(rate);
                    if let Some(x) = ov {
                        let wm = !c09 && (idx + ri + mi) % 2 == 1;
                        d = d.ar(*x, wm).cs(*x, wm).od(*x, wm).hp(*x, wm);
                    }
                    let label = format!("{t:?} rate {rate} mods {mods} override {ov:?}");
                    obs.calls += 4;
                    let attrs = match guarded(|| d.calculate(&conv)) {
                        Ok(a) => a,
                        Err(p) => {
                            report("panic:difficulty", format!("{label}: {p}"));
                            continue;
                        }
                    };
                    let strains = guarded(|| d.strains(&conv));
                    if let Err(p) = &strains {
                        report("panic:strains", format!("{label}: {p}"));
                    }
                    let _ = guarded(|| conv.attributes().difficulty(&d).build()).map_err(|p| report("panic:attributes", format!("{label}: {p}")));
                    // gradual difficulty: whole iteration (bounded), len() after every step
                    let g = guarded(|| {
                        let mut g = GradualDifficulty::new(d.clone(), &conv);
                        let mut n = 0usize;
                        let mut last = None;
                        while let Some(a) = g.next() {
                            let _ = g.len();
                            last = Some(a);
                            n += 1;
                            if n > 3000 {
                                break;
                            }
                        }
                        let _ = g.next();
                        let _ = g.len();
                        last
                    });
                    if let Err(p) = &g {
                        report("panic:gradual_difficulty", format!("{label}: {p}"));
                    }
                    if c09 {
                        for (name, x) in diff_floats(&attrs) {
                            let c = class_of(x);
                            if c != "Zero" && c != "Pos" {
                                report("class:difficulty", format!("{label}: {name} = {x} ({c})"));
                            }
                        }
                        if let Ok(s) = &strains {
                            for v in strain_vecs(s) {
                                if let Some(x) = v.iter().find(|x| class_of(**x) != "Zero" && class_of(**x) != "Pos") {
                                    report("class:strains", format!("{label}: {x}"));
                                }
                            }
                        }
                    }
                    // performance with several states (only once per target to keep it bounded)
                    if ri == 0 && (mi == 0 || c09) {
                        for (sname, st) in states_for(&attrs, adversarial) {
                            obs.calls += 2;
                            let lazer = (idx + ti) % 2 == 0;
                            // the state that is actually evaluated (the builder completes / clamps the supplied one)
                            let used = guarded(|| Performance::new(attrs.clone()).difficulty(d.clone()).lazer(lazer).state(st.clone()).generate_state());
                            let p = guarded(|| Performance::new(attrs.clone()).difficulty(d.clone()).lazer(lazer).state(st.clone()).calculate());
                            match &p {
                                Err(e) => report("panic:performance", format!("{label} state {sname}: {e}")),
                                Ok(pa) if c09 => {
                                    for (name, x) in perf_floats(pa) {
                                        let c = class_of(x);
                                        if c != "Zero" && c != "Pos" {
                                            report("class:performance", format!("{label} state {sname}: {name} = {x} ({c})"));
                                        }
                                    }
                                    let hits = used.as_ref().map_or(1, |u| u.n300 + u.n100 + u.n50 + u.n_geki + u.n_katu + u.slider_end_hits + u.osu_large_tick_hits + u.osu_small_tick_hits);
                                    if hits == 0 && pa.pp() != 0.0 {
                                        report("class:zero_hits_pp", format!("{label} state {sname}: pp = {}", pa.pp()));
                                    }
                                }
                                _ => {}
                            }
                            // accuracy based builder
                            let p2 = guarded(|| Performance::new(attrs.clone()).difficulty(d.clone()).accuracy(if sname == "zero" { 0.0 } else { 97.5 }).misses(st.misses).calculate());
                            match &p2 {
                                Err(e) => report("panic:performance_accuracy", format!("{label} state {sname}: {e}")),
                                Ok(pa) if c09 => {
                                    for (name, x) in perf_floats(pa) {
                                        let c = class_of(x);
                                        if c != "Zero" && c != "Pos" {
                                            report("class:performance_accuracy", format!("{label}: {name} = {x} ({c})"));
                                        }
                                    }
                                }
                                _ => {}
                            }
                        }
                        obs.calls += 1;
    beat();
                        let gp = guarded(|| {
                            let mut g = GradualPerformance::new(d.clone(), &conv);
                            let a = g.next(ScoreState::new());
                            let b = g.last(ScoreState::new());
                            let c = g.next(ScoreState::new());
                            let _ = g.len();
                            (a.is_some(), b.is_some(), c.is_some())
                        });
                        if let Err(p) = gp {
                            report("panic:gradual_performance", format!("{label}: {p}"));
                        }
                    }
                }
            }
        }
    }
}

/// `corner-replay <scenarios.ndjson> <out.json> <progress-file> --from I [--c09]`
pub fn main(args: &[String]) -> i32 {
    silence_panics();
    let from: usize = args.iter().position(|a| a == "--from").map(|i| args[i + 1].parse().unwrap()).unwrap_or(0);
    let c09 = args.iter().any(|a| a == "--c09");
    let to: usize = args.iter().position(|a| a == "--to").map(|i| args[i + 1].parse().unwrap()).unwrap_or(usize::MAX);
    // streamed: only the lines of this slice are parsed (the thorough files have hundreds of thousands of lines and every
    // slice runs in its own process)
    use std::io::BufRead;
    let file = std::io::BufReader::new(std::fs::File::open(&args[0]).expect("scenario file"));
    let mut obs = Obs::default();
    beat_start(std::fs::OpenOptions::new().create(true).append(true).open(&args[2]).expect("progress file"));
    // slices are interleaved (index % modulus == remainder): expensive maps sit next to each other in the enumeration order
    let modulus: usize = args.iter().position(|a| a == "--mod").map(|i| args[i + 1].parse().unwrap()).unwrap_or(1);
    let rem: usize = args.iter().position(|a| a == "--rem").map(|i| args[i + 1].parse().unwrap()).unwrap_or(0);
    let mut total = 0usize;
    for (i, line) in file.lines().enumerate() {
        total = i + 1;
        if i < from || i >= to || i % modulus != rem || obs.problems.len() > 4000 {
            continue;
        }
        let line = line.expect("readable line");
        let sc: Scenario = serde_json::from_str(&line).expect("scenario shape");
        // single-threaded on purpose: the progress file names the map being processed
        beat_map(i);
        run_map(&sc, i, c09, &mut obs);
    }
    beat_done();
    let out = json!({"scenarios": total, "from": from, "calls": obs.calls, "skipped": obs.skipped, "problems": obs.problems.len(),
        "records": obs.problems.iter().take(200).collect::<Vec<_>>()});
    std::fs::write(&args[1], serde_json::to_string(&out).unwrap()).unwrap();
    println!("corner-replay: maps={} from={} calls={} problems={}", total, from, obs.calls, obs.problems.len());
    0
}

// ---------------------------------------------------------------------------
// C05, second input family: structured-random maps and mutated fixtures (the property quantifies over
// "structured-random, mutated real maps, line/byte-level corruptions").  Same calls, same watchdog protocol.

use rand::{rngs::StdRng, Rng, SeedableRng};

fn random_text(rng: &mut StdRng) -> String {
    let mode = rng.gen_range(0..4);
    let ver = [5, 7, 8, 14][rng.gen_range(0..4)];
    let d = |rng: &mut StdRng| [0.0, 2.0, 4.0, 5.0, 6.5, 8.0, 9.0, 10.0][rng.gen_range(0..8)];
    let mut s = String::new();
    let _ = writeln!(s, "osu file format v{ver}\n\n[General]\nMode: {mode}\nStackLeniency: {}\n", [0.0, 0.7, 1.0][rng.gen_range(0..3)]);
    let _ = writeln!(s, "[Difficulty]\nHPDrainRate:{}\nCircleSize:{}\nOverallDifficulty:{}\nApproachRate:{}\nSliderMultiplier:{}\nSliderTickRate:{}\n",
        d(rng), d(rng), d(rng), d(rng), [0.4, 1.0, 1.4, 2.0, 3.6][rng.gen_range(0..5)], [0.5, 1.0, 2.0, 4.0][rng.gen_range(0..4)]);
    let n = rng.gen_range(1..60);
    let mut t = rng.gen_range(-2000..5000) as f64;
    let mut times = Vec::new();
    let mut objs = String::new();
    for i in 0..n {
        t += [0.0, 1.0, 50.0, 100.0, 115.0, 125.0, 150.0, 250.0, 500.0, 1000.0, 5000.0][rng.gen_range(0..11)];
        times.push(t);
        let x = rng.gen_range(0..513);
        let y = rng.gen_range(0..385);
        let snd = rng.gen_range(0..16);
        match rng.gen_range(0..10) {
            0..=4 => {
                let _ = writeln!(objs, "{x},{y},{t},{},{snd}", if i % 7 == 0 { 5 } else { 1 });
            }
            5..=7 => {
                let slides = [1, 1, 2, 3, 5, 9][rng.gen_range(0..6)];
                let len = [10.0, 35.0, 70.0, 100.0, 140.0, 280.0, 600.0][rng.gen_range(0..7)];
                let kind = ["L", "B", "P", "C"][rng.gen_range(0..4)];
                let pts = (0..rng.gen_range(1..4)).map(|_| format!("{}:{}", rng.gen_range(0..513), rng.gen_range(0..385))).collect::<Vec<_>>().join("|");
                let _ = writeln!(objs, "{x},{y},{t},2,{snd},{kind}|{pts},{slides},{len}");
                t += rng.gen_range(0..3) as f64 * 250.0;
            }
            8 => {
                let dur = [0.0, 101.0, 500.0, 2000.0, 10000.0][rng.gen_range(0..5)];
                let _ = writeln!(objs, "256,192,{t},12,{snd},{}", t + dur);
                t += dur;
            }
            _ => {
                let dur = [0.0, 50.0, 300.0, 1900.0][rng.gen_range(0..4)];
                let _ = writeln!(objs, "{x},{y},{t},128,{snd},{}:0:0:0:0:", t + dur);
            }
        }
    }
    let _ = writeln!(s, "[TimingPoints]\n{},{},4,2,0,100,1,0", times[0].min(0.0) - 100.0, [200.0, 300.0, 500.0, 1000.0][rng.gen_range(0..4)]);
    for _ in 0..rng.gen_range(0..5) {
        let tt = times[rng.gen_range(0..times.len())];
        if rng.gen_bool(0.6) {
            let _ = writeln!(s, "{tt},{},4,2,0,100,0,{}", [-25.0, -50.0, -100.0, -200.0, -1000.0][rng.gen_range(0..5)], rng.gen_range(0..2));
        } else {
            let _ = writeln!(s, "{tt},{},4,2,0,100,1,{}", [150.0, 400.0, 750.0][rng.gen_range(0..3)], rng.gen_range(0..2));
        }
    }
    let _ = writeln!(s, "\n[HitObjects]\n{objs}");
    s
}

fn run_text(text: &str, idx: usize, rng: &mut StdRng, obs: &mut Obs) {
    let mut report = |what: &str, detail: String| {
        obs.problems.push(json!({"what": what, "detail": detail, "scenario_index": idx, "scenario": {"family": "random"}, "osu_text": text}));
    };
    obs.calls += 1;
    beat();
    let map = match guarded(|| Beatmap::from_bytes(text.as_bytes())) {
        Ok(Ok(m)) => m,
        Ok(Err(_)) => return,
        Err(p) => {
            report("panic:decode", p);
            return;
        }
    };
    if map.check_suspicion().is_err() || !bounded_work(&map) {
        obs.skipped += 1;
        return;
    }
    let _ = guarded(|| map.bpm()).map_err(|p| report("panic:bpm", p));
    let native_osu = map.mode == GameMode::Osu;
    let targets: Vec<GameMode> = if native_osu { vec![GameMode::Osu, GameMode::Taiko, GameMode::Catch, GameMode::Mania] } else { vec![map.mode] };
    for t in targets {
        let keys: Vec<u32> = if t == GameMode::Mania && native_osu { vec![0, 1, 2, 3, 4, 5, 6, 7, 8, 9, 10] } else { vec![0] };
        for k in keys {
            let cfg = if k == 0 { crate::settings::Cfg::default() } else { crate::settings::Cfg::default().with_acronyms(&format!("{k}K")) };
            let mods = cfg.game_mods();
            obs.calls += 1;
    beat();
            let conv = match guarded(|| map.convert_ref(t, &mods).map(|c| c.into_owned())) {
                Ok(Ok(c)) => c,
                Ok(Err(_)) => continue,
                Err(p) => {
                    report(&format!("panic:convert:{t:?}:{k}K"), p);
                    continue;
                }
            };
            // settings inside the documented ranges, drawn per map
            let rate = [0.01, 0.5, 0.75, 1.0, 1.5, 2.0, 100.0][rng.gen_range(0..7)];
            let bits = [0u32, 16, 2, 64, 256, 8 | 1024, 128, 4, 8192, 16 | 64 | 8][rng.gen_range(0..10)];
            let mut d = Difficulty::new().mods(bits).clock_rate(rate);
            if k != 0 {
                d = Difficulty::new().mods(mods.clone()).clock_rate(rate);
            }
            if rng.gen_bool(0.4) {
                let x = [-20.0f32, -5.0, 0.0, 5.5, 11.0, 12.5, 20.0][rng.gen_range(0..7)];
                let wm = rng.gen_bool(0.5);
                d = match rng.gen_range(0..5) {
                    0 => d.ar(x, wm),
                    1 => d.cs(x, wm),
                    2 => d.od(x, wm),
                    3 => d.hp(x, wm),
                    _ => d.ar(x, wm).cs(x, !wm).od(-x, wm).hp(x, wm),
                };
            }
            if rng.gen_bool(0.3) {
                d = d.passed_objects(rng.gen_range(0..(conv.hit_objects.len() as u32 + 3)));
            }
            let label = format!("{t:?} {k}K rate {rate} mods {bits}");
            obs.calls += 4;
            let attrs = match guarded(|| d.calculate(&conv)) {
                Ok(a) => a,
                Err(p) => {
                    report("panic:difficulty", format!("{label}: {p}"));
                    continue;
                }
            };
            let _ = guarded(|| d.strains(&conv)).map_err(|p| report("panic:strains", format!("{label}: {p}")));
            let _ = guarded(|| conv.attributes().difficulty(&d).build()).map_err(|p| report("panic:attributes", format!("{label}: {p}")));
            let g = guarded(|| {
                let mut g = GradualDifficulty::new(d.clone(), &conv);
                let mut n = 0;
                while g.nth(n % 3).is_some() {
                    let _ = g.len();
                    n += 1;
                    if n > 3000 {
                        break;
                    }
                }
                let _ = g.len();
            });
            if let Err(p) = g {
                report("panic:gradual_difficulty", format!("{label}: {p}"));
            }
            for (sname, st) in states_for(&attrs, true) {
                obs.calls += 1;
    beat();
                if let Err(p) = guarded(|| Performance::new(attrs.clone()).difficulty(d.clone()).lazer(idx % 2 == 0).state(st.clone()).calculate()) {
                    report("panic:performance", format!("{label} state {sname}: {p}"));
                }
            }
            obs.calls += 2;
            if let Err(p) = guarded(|| Performance::new(&conv).difficulty(d.clone()).accuracy(rng.gen_range(0..101) as f64).misses(rng.gen_range(0..5)).calculate()) {
                report("panic:performance_accuracy", format!("{label}: {p}"));
            }
            if let Err(p) = guarded(|| {
                let mut g = GradualPerformance::new(d.clone(), &conv);
                let _ = g.nth(ScoreState::new(), 2);
                let _ = g.last(ScoreState::new());
                let _ = g.next(ScoreState::new());
                g.len()
            }) {
                report("panic:gradual_performance", format!("{label}: {p}"));
            }
        }
    }
}

/// `random-replay <n> <out.json> <progress-file> --from I --to J`  (map i is a function of VERIF_SEED and i)
pub fn random_main(args: &[String]) -> i32 {
    silence_panics();
    let n: usize = args[0].parse().unwrap();
    let from: usize = args.iter().position(|a| a == "--from").map(|i| args[i + 1].parse().unwrap()).unwrap_or(0);
    let to: usize = args.iter().position(|a| a == "--to").map(|i| args[i + 1].parse().unwrap()).unwrap_or(n);
    let seed: u64 = std::env::var("VERIF_SEED").ok().and_then(|s| s.parse().ok()).unwrap_or(0);
    let fixtures: Vec<String> = ["2785319", "1028484", "2118524", "1638954"].iter().filter_map(|id| std::fs::read_to_string(format!("/repo/resources/{id}.osu")).ok()).collect();
    let mut obs = Obs::default();
    beat_start(std::fs::OpenOptions::new().create(true).append(true).open(&args[2]).expect("progress file"));
    let modulus: usize = args.iter().position(|a| a == "--mod").map(|i| args[i + 1].parse().unwrap()).unwrap_or(1);
    let rem: usize = args.iter().position(|a| a == "--rem").map(|i| args[i + 1].parse().unwrap()).unwrap_or(0);
    for i in from..to.min(n) {
        if i % modulus != rem {
            continue;
        }
        beat_map(i);
        let mut rng = StdRng::seed_from_u64(seed.wrapping_mul(1_000_003).wrapping_add(i as u64));
        let text = if i % 5 == 4 && !fixtures.is_empty() {
            // a mutated window of a fixture: header + up to 150 object lines, a few numeric fields replaced
            let f = &fixtures[i % fixtures.len()];
            let ls: Vec<&str> = f.lines().collect();
            let ho = ls.iter().position(|l| l.trim() == "[HitObjects]").unwrap_or(ls.len() - 1);
            let start = ho + 1 + rng.gen_range(0..(ls.len() - ho - 1).max(1));
            let mut keep: Vec<String> = ls[..=ho].iter().map(|s| s.to_string()).collect();
            keep.extend(ls[start..(start + 150).min(ls.len())].iter().map(|s| s.to_string()));
            for _ in 0..rng.gen_range(0..12) {
                let a = rng.gen_range(0..keep.len());
                let mut parts: Vec<String> = keep[a].split(',').map(String::from).collect();
                if parts.len() > 3 {
                    let k = rng.gen_range(0..parts.len());
                    parts[k] = ["0", "1", "-1", "100", "512", "9", "1e5", "0.0001", "3"][rng.gen_range(0..9)].to_string();
                    keep[a] = parts.join(",");
                }
            }
            keep.join("\n")
        } else {
            random_text(&mut rng)
        };
        run_text(&text, i, &mut rng, &mut obs);
        if obs.problems.len() > 2000 {
            break;
        }
    }
    beat_done();
    let out = json!({"scenarios": n, "from": from, "calls": obs.calls, "skipped": obs.skipped, "problems": obs.problems.len(),
        "records": obs.problems.iter().take(200).collect::<Vec<_>>()});
    std::fs::write(&args[1], serde_json::to_string(&out).unwrap()).unwrap();
    println!("random-replay: maps={}..{} calls={} problems={}", from, to.min(n), obs.calls, obs.problems.len());
    0
}
