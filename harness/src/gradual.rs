//! Spec -> implementation replay for the gradual calculators (C02, C03, C14, C15).
//!
//! Every scenario line printed by TLC (one per distinct abstract state of
//! MC_Gradual) carries: the abstract map, the shortest call path into the state
//! with the model's observation and the property's expectation after every
//! call, and every outgoing edge.  The replay executes path and edges on the
//! real calculators, on every numeric profile and settings profile of the tier.
//!
//! Checked after every call:
//!   conformance  real (some, len, counts) == model's prediction         (always)
//!   property     real some/len == what the property demands, and the real
//!                attributes == the real one-shot calculation with
//!                passed_objects(position), compared through Debug text
//!                (bitwise for floats)            (skipped inside known classes)

use crate::absmap::{concretize, profile, AbsObj};
use crate::settings::{cfgs, Cfg};
use crate::util::*;
use rosu_pp::any::{DifficultyAttributes, ScoreState};
use rosu_pp::{Beatmap, Difficulty, GradualDifficulty, GradualPerformance, Performance};
use serde::{Deserialize, Serialize};
use serde_json::{json, Value};
use std::collections::{BTreeMap, HashMap};

const MAXN: u64 = 1_000_000;

#[derive(Clone, Debug, Deserialize, Serialize)]
pub struct MObs {
    pub some: bool,
    pub len: i64,
    pub cnt: [u32; 5],
    pub idx: u32,
    pub proc: u32,
}

#[derive(Clone, Debug, Deserialize, Serialize)]
pub struct XObs {
    pub some: bool,
    pub len: i64,
    pub cnt: [u32; 5],
    pub virt: u64,
    pub pv: u64,
}

#[derive(Clone, Debug, Deserialize, Serialize)]
pub struct Entry {
    pub a: (String, u64),
    pub o: MObs,
    pub x: XObs,
}

#[derive(Clone, Debug, Deserialize, Serialize)]
pub struct Scenario {
    pub api: String,
    pub mode: String,
    pub objs: Vec<AbsObj>,
    pub units: Vec<[u32; 5]>,
    pub path: Vec<Entry>,
    pub succ: Vec<Entry>,
    pub total: u64,
    pub len0: i64,
}

#[derive(Clone, Debug, Serialize)]
pub struct Mismatch {
    pub kind: String,  // "conformance" | "property"
    pub what: String,  // some | len | cnt | value | final | announce | panic | concretizer
    pub class: Option<String>, // known-finding class, if the input is inside one
    pub scenario: usize,
    pub profile: u32,
    pub cfg: usize,
    pub step: usize, // index into path (or path.len() for a successor edge)
    pub call: (String, u64),
    pub expected: String,
    pub observed: String,
    /// conformance mismatch where the real behaviour equals what the property demands
    /// (the model of a known defect is stale, the code is not wrong)
    pub benign: bool,
}

/// One real observation after a call.
struct RObs {
    some: bool,
    len: i64,
    cnt: [u32; 5],
    dbg: String,
    panic: Option<String>,
}

enum Session {
    Diff(GradualDifficulty),
    Perf(GradualPerformance),
}

fn real_len(s: &Session) -> i64 {
    let r = guarded(|| match s {
        Session::Diff(g) => g.len(),
        Session::Perf(g) => g.len(),
    });
    match r {
        Ok(l) if l > (1usize << 40) => -1, // wrapped usize underflow (release)
        Ok(l) => l as i64,
        Err(_) => -1, // overflow check (debug)
    }
}

pub fn score_state(variant: usize) -> ScoreState {
    let mut s = ScoreState::new();
    match variant % 3 {
        0 => {}
        1 => {
            s.max_combo = 2;
            s.n300 = 1;
            s.n100 = 1;
            s.misses = 1;
            s.slider_end_hits = 1;
            s.osu_large_tick_hits = 1;
            s.n_geki = 1;
        }
        _ => {
            // inconsistent with any small prefix
            s.max_combo = 50;
            s.n300 = 7;
            s.n100 = 3;
            s.n50 = 2;
            s.n_katu = 4;
            s.n_geki = 9;
            s.misses = 5;
            s.slider_end_hits = 9;
            s.osu_large_tick_hits = 9;
            s.osu_small_tick_hits = 9;
        }
    }
    s
}

fn do_call(s: &mut Session, call: &(String, u64), state: &ScoreState) -> RObs {
    let n = if call.1 >= MAXN { usize::MAX } else { call.1 as usize };
    let r = guarded(|| match s {
        Session::Diff(g) => {
            let v = if call.0 == "next" { g.next() } else { g.nth(n) };
            v.map(|a| (counts(&a), dbg_attrs(&a)))
        }
        Session::Perf(g) => {
            let v = if call.0 == "next" {
                g.next(state.clone())
            } else if call.1 >= MAXN {
                g.last(state.clone())
            } else {
                g.nth(state.clone(), n)
            };
            v.map(|p| (counts(&p.difficulty_attributes()), dbg_perf(&p)))
        }
    });
    match r {
        Ok(Some((cnt, dbg))) => RObs { some: true, len: real_len(s), cnt, dbg, panic: None },
        Ok(None) => RObs { some: false, len: real_len(s), cnt: [0; 5], dbg: String::new(), panic: None },
        Err(p) => RObs { some: false, len: -1, cnt: [0; 5], dbg: String::new(), panic: Some(p) },
    }
}

pub struct Known {
    pub on: Vec<String>,
}

impl Known {
    fn has(&self, id: &str) -> bool {
        self.on.iter().any(|k| k == id)
    }
    /// Map-level classes (mirrors MC_Gradual.tla: TaikoFirstTwoBad, TaikoTrailingNonHit, EmptyLenOne).
    fn map_class(&self, sc: &Scenario, what: &str) -> Option<String> {
        let u = &sc.units;
        if sc.mode == "taiko" {
            if self.has("F2") && (u.len() < 3 || u[0][0] == 0 || u[1][0] == 0) {
                return Some("F2".into());
            }
            if self.has("F9") && !u.is_empty() && u[u.len() - 1][0] == 0 {
                return Some("F9".into());
            }
        } else if self.has("F8") && u.is_empty() && (what == "len" || what == "announce") {
            return Some("F8".into());
        }
        None
    }
    /// Step-level class NthPastEnd.
    fn step_class(&self, sc: &Scenario, e: &Entry) -> Option<String> {
        if self.has("F11") && sc.api == "diff" && e.x.pv < sc.total && e.x.virt > sc.total {
            return Some("F11".into());
        }
        None
    }
}

struct Ctx<'a> {
    sc: &'a Scenario,
    sci: usize,
    map: &'a Beatmap,
    diff: Difficulty,
    prof: u32,
    cfgi: usize,
    state: ScoreState,
    oneshot: HashMap<u64, String>,
    known: &'a Known,
    out: Vec<Mismatch>,
    steps: u64,
    oneshots: u64,
}

impl<'a> Ctx<'a> {
    fn new_session(&self) -> Session {
        if self.sc.api == "diff" {
            Session::Diff(GradualDifficulty::new(self.diff.clone(), self.map))
        } else {
            Session::Perf(GradualPerformance::new(self.diff.clone(), self.map))
        }
    }

    /// The declarative side computed by the real one-shot code path.
    fn one_shot(&mut self, i: u64) -> String {
        if let Some(s) = self.oneshot.get(&i) {
            return s.clone();
        }
        self.oneshots += 1;
        let d = self.diff.clone().passed_objects(i as u32);
        let s = if self.sc.api == "diff" {
            guarded(|| dbg_attrs(&d.calculate(self.map)))
        } else {
            guarded(|| {
                dbg_perf(
                    &Performance::new(self.map)
                        .difficulty(d)
                        .state(self.state.clone())
                        .calculate(),
                )
            })
        }
        .unwrap_or_else(|p| format!("PANIC {p}"));
        self.oneshot.insert(i, s.clone());
        s
    }

    fn mism(&mut self, kind: &str, what: &str, class: Option<String>, step: usize, e: &Entry, exp: String, obs: String) {
        self.mism_b(kind, what, class, step, e, exp, obs, false)
    }

    #[allow(clippy::too_many_arguments)]
    fn mism_b(&mut self, kind: &str, what: &str, class: Option<String>, step: usize, e: &Entry, exp: String, obs: String, benign: bool) {
        self.out.push(Mismatch {
            benign,
            kind: kind.into(),
            what: what.into(),
            class,
            scenario: self.sci,
            profile: self.prof,
            cfg: self.cfgi,
            step,
            call: e.a.clone(),
            expected: exp,
            observed: obs,
        });
    }

    fn check_step(&mut self, step: usize, e: &Entry, r: &RObs) {
        self.steps += 1;
        let sc = self.sc;
        // ---- conformance with the implementation-shaped model
        if let Some(p) = &r.panic {
            // the model predicts a panic as len = -1 *before* the call (nth on an underflowed len)
            if e.o.len != -1 {
                self.mism("conformance", "panic", None, step, e, "no panic".into(), p.clone());
            }
            return;
        }
        if r.some != e.o.some {
            self.mism_b("conformance", "some", None, step, e, e.o.some.to_string(), r.some.to_string(), r.some == e.x.some);
        }
        if r.len != e.o.len {
            self.mism_b("conformance", "len", None, step, e, e.o.len.to_string(), r.len.to_string(), r.len == e.x.len);
        }
        if r.some && e.o.some {
            let mut a = r.cnt;
            let mut b = e.o.cnt;
            if sc.mode == "catch" {
                a[2] = 0; // tiny droplets are numeric: logged, not predicted
                b[2] = 0;
            }
            if a != b {
                let mut x = e.x.cnt;
                if sc.mode == "catch" {
                    x[2] = 0;
                }
                self.mism_b("conformance", "cnt", None, step, e, format!("{b:?}"), format!("{a:?}"), e.x.some && a == x);
            }
        }
        // ---- the property itself, on the real code
        let class = |what: &str, me: &Self| me.known.map_class(sc, what).or_else(|| me.known.step_class(sc, e));
        if r.some != e.x.some {
            let c = class("some", self);
            self.mism("property", "some", c, step, e, e.x.some.to_string(), r.some.to_string());
        }
        if r.len != e.x.len {
            let c = class("len", self);
            self.mism("property", "len", c, step, e, e.x.len.to_string(), r.len.to_string());
        }
        if r.some && e.x.some {
            // C14: the counts follow the count algebra
            let mut a = r.cnt;
            let mut x = e.x.cnt;
            if sc.mode == "catch" {
                a[2] = 0;
                x[2] = 0;
            }
            if a != x {
                let c = class("cnt", self);
                self.mism("property", "cnt", c, step, e, format!("{x:?}"), format!("{a:?}"));
            }
            let want = self.one_shot(e.x.virt);
            if want != r.dbg {
                let c = class("value", self);
                self.mism("property", "value", c, step, e, want, r.dbg.clone());
            }
        }
    }

    fn run(&mut self) {
        let sc = self.sc;
        // creation: announced length
        let mut s = self.new_session();
        let l0 = real_len(&s);
        let e0 = Entry {
            a: ("new".into(), 0),
            o: MObs { some: true, len: sc.len0, cnt: [0; 5], idx: 0, proc: 0 },
            x: XObs { some: true, len: sc.total as i64, cnt: [0; 5], virt: 0, pv: 0 },
        };
        if sc.path.is_empty() {
            if l0 != sc.len0 {
                self.mism("conformance", "len", None, 0, &e0, sc.len0.to_string(), l0.to_string());
            }
            if l0 != sc.total as i64 {
                let c = self.known.map_class(sc, "announce");
                self.mism("property", "announce", c, 0, &e0, sc.total.to_string(), l0.to_string());
            }
            // C02: final value = full calculation (declarative side, both one-shot)
            if sc.total > 0 {
                let a = self.one_shot(sc.total);
                let b = self.one_shot(u32::MAX as u64);
                if a != b {
                    let c = self.known.map_class(sc, "final");
                    self.mism("property", "final", c, 0, &e0, b, a);
                }
            }
            // C14: any n above the total equals not limiting at all
            let a = self.one_shot(sc.total + 1);
            let b = self.one_shot(u32::MAX as u64);
            if a != b {
                self.mism("property", "above_total", None, 0, &e0, b, a);
            }
        }
        // path: only the last step is new (every prefix is another scenario's path),
        // but all are executed; check the last.
        let mut dead = false;
        for (i, e) in sc.path.iter().enumerate() {
            let r = do_call(&mut s, &e.a, &self.state.clone());
            if i + 1 == sc.path.len() {
                self.check_step(i, e, &r);
            }
            if r.panic.is_some() {
                dead = true;
                break;
            }
        }
        if dead {
            return;
        }
        // every outgoing edge
        for e in sc.succ.iter() {
            let mut s = self.new_session();
            let mut ok = true;
            for p in sc.path.iter() {
                if do_call(&mut s, &p.a, &self.state.clone()).panic.is_some() {
                    ok = false;
                    break;
                }
            }
            if !ok {
                continue;
            }
            let r = do_call(&mut s, &e.a, &self.state.clone());
            self.check_step(sc.path.len(), e, &r);
        }
    }
}

#[derive(Default)]
struct Acc {
    sessions: u64,
    steps: u64,
    oneshots: u64,
    mism: Vec<Mismatch>,
}

fn run_scenario(sci: usize, sc: &Scenario, profiles: &[u32], cfg_list: &[(usize, Cfg)], known: &Known) -> Acc {
    let mut acc = Acc::default();
    for &pid in profiles {
        let prof = profile(pid);
        let text = concretize(&sc.mode, &sc.objs, &prof);
        let map = match Beatmap::from_bytes(text.as_bytes()) {
            Ok(m) => m,
            Err(e) => {
                acc.mism.push(Mismatch {
                    kind: "machinery".into(),
                    what: "concretizer".into(),
                    class: None,
                    scenario: sci,
                    profile: pid,
                    cfg: 0,
                    step: 0,
                    call: ("decode".into(), 0),
                    expected: "Ok".into(),
                    observed: e.to_string(),
                    benign: false,
                });
                continue;
            }
        };
        if map.hit_objects.len() != sc.objs.len() {
            acc.mism.push(Mismatch {
                kind: "machinery".into(),
                what: "concretizer".into(),
                class: None,
                scenario: sci,
                profile: pid,
                cfg: 0,
                step: 0,
                call: ("decode".into(), 0),
                expected: sc.objs.len().to_string(),
                observed: map.hit_objects.len().to_string(),
                benign: false,
            });
            continue;
        }
        for (ci, cfg) in cfg_list {
            let mut ctx = Ctx {
                sc,
                sci,
                map: &map,
                diff: cfg.difficulty(),
                prof: pid,
                cfgi: *ci,
                state: score_state(sci + *ci),
                oneshot: HashMap::new(),
                known,
                out: Vec::new(),
                steps: 0,
                oneshots: 0,
            };
            ctx.run();
            acc.sessions += 1 + sc.succ.len() as u64;
            acc.steps += ctx.steps;
            acc.oneshots += ctx.oneshots;
            acc.mism.extend(ctx.out);
        }
    }
    acc
}

/// `gradual-replay <scenarios.ndjson> <out.json> --tier T --known F2,F9 [--only-scenario i --only-profile p --only-cfg c]`
pub fn main(args: &[String]) -> i32 {
    let scen_path = &args[0];
    let out_path = &args[1];
    let mut tier = "quick".to_string();
    let mut known = Known { on: vec![] };
    let mut only_profile: Option<u32> = None;
    let mut only_cfg: Option<usize> = None;
    let mut i = 2;
    while i < args.len() {
        match args[i].as_str() {
            "--tier" => {
                tier = args[i + 1].clone();
                i += 1;
            }
            "--known" => {
                known.on = args[i + 1].split(',').filter(|s| !s.is_empty()).map(String::from).collect();
                i += 1;
            }
            "--only-profile" => {
                only_profile = Some(args[i + 1].parse().unwrap());
                i += 1;
            }
            "--only-cfg" => {
                only_cfg = Some(args[i + 1].parse().unwrap());
                i += 1;
            }
            _ => {}
        }
        i += 1;
    }
    silence_panics();
    let raw = read_ndjson(scen_path);
    let scenarios: Vec<Scenario> = raw
        .into_iter()
        .map(|v| serde_json::from_value(v).expect("scenario shape"))
        .collect();
    let seed: u64 = std::env::var("VERIF_SEED").ok().and_then(|s| s.parse().ok()).unwrap_or(0);
    let profiles: Vec<u32> = match only_profile {
        Some(p) => vec![p],
        None if tier == "thorough" => vec![0, 1, 2, 3],
        None => vec![(seed % 4) as u32, ((seed + 1) % 4) as u32],
    };
    let all_cfgs = cfgs(&tier);
    let cfg_list: Vec<(usize, Cfg)> = all_cfgs
        .iter()
        .cloned()
        .enumerate()
        .filter(|(i, _)| only_cfg.map_or(true, |c| c == *i))
        .collect();

    let results = par_map(scenarios.len(), n_threads(), |i| {
        run_scenario(i, &scenarios[i], &profiles, &cfg_list, &known)
    });

    let mut sessions = 0;
    let mut steps = 0;
    let mut oneshots = 0;
    let mut mism: Vec<Mismatch> = Vec::new();
    for r in results {
        sessions += r.sessions;
        steps += r.steps;
        oneshots += r.oneshots;
        mism.extend(r.mism);
    }
    let mut by: BTreeMap<String, u64> = BTreeMap::new();
    for m in &mism {
        let key = format!(
            "{}/{}/{}/{}/{}{}",
            m.kind,
            scenarios[m.scenario].api,
            scenarios[m.scenario].mode,
            m.what,
            m.class.clone().unwrap_or_else(|| "-".into()),
            if m.benign { "/benign" } else { "" }
        );
        *by.entry(key).or_default() += 1;
    }
    // keep a bounded, diverse set of mismatch records (first of each key, then more)
    let mut kept: Vec<Value> = Vec::new();
    let mut per_key: BTreeMap<String, u32> = BTreeMap::new();
    for m in &mism {
        let key = format!("{}/{}/{}/{}/{:?}/{}", m.kind, scenarios[m.scenario].api, scenarios[m.scenario].mode, m.what, m.class, m.benign);
        let c = per_key.entry(key).or_default();
        if *c < 3 {
            *c += 1;
            let sc = &scenarios[m.scenario];
            let text = concretize(&sc.mode, &sc.objs, &profile(m.profile));
            kept.push(json!({
                "mismatch": m,
                "scenario": sc,
                "cfg": all_cfgs[m.cfg],
                "osu_text": text,
            }));
        }
    }
    let unknown = mism
        .iter()
        .filter(|m| (m.kind == "property" && m.class.is_none()) || (m.kind != "property" && !m.benign))
        .count();
    let samples: Vec<Value> = scenarios
        .iter()
        .filter(|s| s.path.len() >= 2)
        .take(3)
        .map(|s| json!({"api": s.api, "mode": s.mode, "objs": s.objs, "calls": s.path.iter().map(|e| e.a.clone()).collect::<Vec<_>>(),
                        "model_obs_last": s.path.last().map(|e| &e.o), "expected_last": s.path.last().map(|e| &e.x)}))
        .collect();
    let out = json!({
        "scenarios": scenarios.len(),
        "profiles": profiles,
        "cfgs": cfg_list.len(),
        "sessions": sessions,
        "steps_checked": steps,
        "oneshot_calculations": oneshots,
        "mismatches_total": mism.len(),
        "mismatches_unknown": unknown,
        "by_class": by,
        "records": kept,
        "samples": samples,
    });
    std::fs::write(out_path, serde_json::to_string_pretty(&out).unwrap()).unwrap();
    println!(
        "gradual-replay: scenarios={} sessions={} steps={} oneshots={} mismatches={} unknown={}",
        scenarios.len(),
        sessions,
        steps,
        oneshots,
        mism.len(),
        unknown
    );
    0
}

#[allow(dead_code)]
pub fn attrs_kind(a: &DifficultyAttributes) -> &'static str {
    match a {
        DifficultyAttributes::Osu(_) => "osu",
        DifficultyAttributes::Taiko(_) => "taiko",
        DifficultyAttributes::Catch(_) => "catch",
        DifficultyAttributes::Mania(_) => "mania",
    }
}
