//! Spec -> implementation replay for the gradual calculators (C02, C03, C14, C15).
//!
//! Every scenario line printed by TLC (one per distinct abstract state of
//! MC_Gradual) carries: the abstract map, the shortest call path into the state
//! with the model's observation and the property's expectation after every
//! call, and every outgoing edge.  The replay executes path and edges on the
//! real calculators, on every numeric profile and settings profile of the tier.
//!
//! Checked after every call:
//!   conformance  real (some, len, counts) == model's prediction         (always)
//!   property     real some/len == what the property demands, and the real
//!                attributes == the real one-shot calculation with
//!                passed_objects(position), compared through Debug text
//!                (bitwise for floats)            (skipped inside known classes)

use std::fmt::Write as _;
use crate::absmap::{concretize, profile, AbsObj};
use crate::settings::{cfgs, Cfg};
use crate::util::*;
use rosu_pp::any::{DifficultyAttributes, ScoreState};
use rosu_pp::{Beatmap, Difficulty, GradualDifficulty, GradualPerformance, Performance};
use serde::{Deserialize, Serialize};
use serde_json::{json, Value};
use std::collections::{BTreeMap, HashMap};

const MAXN: u64 = 1_000_000;

#[derive(Clone, Debug, Deserialize, Serialize)]
pub struct MObs {
    pub some: bool,
    pub len: i64,
    pub cnt: [u32; 5],
    pub idx: u32,
    pub proc: u32,
}

#[derive(Clone, Debug, Deserialize, Serialize)]
pub struct XObs {
    pub some: bool,
    pub len: i64,
    pub cnt: [u32; 5],
    pub virt: u64,
    pub pv: u64,
}

#[derive(Clone, Debug, Deserialize, Serialize)]
pub struct Entry {
    pub a: (String, u64),
    pub o: MObs,
    pub x: XObs,
}

#[derive(Clone, Debug, Deserialize, Serialize)]
pub struct Scenario {
    pub api: String,
    pub mode: String,
    #[serde(default)]
    pub xf: String,
    #[serde(default)]
    pub algebra: Vec<[u32; 5]>,
    pub objs: Vec<AbsObj>,
    pub units: Vec<[u32; 5]>,
    pub path: Vec<Entry>,
    pub succ: Vec<Entry>,
    pub total: u64,
    pub len0: i64,
}

#[derive(Clone, Debug, Serialize)]
pub struct Mismatch {
    pub kind: String,  // "conformance" | "property"
    pub what: String,  // some | len | cnt | value | final | announce | panic | concretizer
    pub class: Option<String>, // known-finding class, if the input is inside one
    pub scenario: usize,
    pub profile: u32,
    pub cfg: usize,
    pub step: usize, // index into path (or path.len() for a successor edge)
    pub call: (String, u64),
    pub expected: String,
    pub observed: String,
    /// conformance mismatch where the real behaviour equals what the property demands
    /// (the model of a known defect is stale, the code is not wrong)
    pub benign: bool,
}

/// One real observation after a call.
struct RObs {
    some: bool,
    len: i64,
    cnt: [u32; 5],
    dbg: String,
    panic: Option<String>,
}

enum Session {
    Diff(GradualDifficulty),
    Perf(GradualPerformance),
}

fn real_len(s: &Session) -> i64 {
    let r = guarded(|| match s {
        Session::Diff(g) => g.len(),
        Session::Perf(g) => g.len(),
    });
    match r {
        Ok(l) if l > (1usize << 40) => -1, // wrapped usize underflow (release)
        Ok(l) => l as i64,
        Err(_) => -1, // overflow check (debug)
    }
}

pub fn score_state(variant: usize) -> ScoreState {
    let mut s = ScoreState::new();
    match variant % 3 {
        0 => {}
        1 => {
            s.max_combo = 2;
            s.n300 = 1;
            s.n100 = 1;
            s.misses = 1;
            s.slider_end_hits = 1;
            s.osu_large_tick_hits = 1;
            s.n_geki = 1;
        }
        _ => {
            // inconsistent with any small prefix
            s.max_combo = 50;
            s.n300 = 7;
            s.n100 = 3;
            s.n50 = 2;
            s.n_katu = 4;
            s.n_geki = 9;
            s.misses = 5;
            s.slider_end_hits = 9;
            s.osu_large_tick_hits = 9;
            s.osu_small_tick_hits = 9;
        }
    }
    s
}

fn do_call(s: &mut Session, call: &(String, u64), state: &ScoreState) -> RObs {
    let n = if call.1 >= MAXN { usize::MAX } else { call.1 as usize };
    let r = guarded(|| match s {
        Session::Diff(g) => {
            let v = if call.0 == "next" { g.next() } else { g.nth(n) };
            v.map(|a| (counts(&a), dbg_attrs(&a)))
        }
        Session::Perf(g) => {
            let v = if call.0 == "next" {
                g.next(state.clone())
            } else if call.1 >= MAXN {
                g.last(state.clone())
            } else {
                g.nth(state.clone(), n)
            };
            v.map(|p| (counts(&p.difficulty_attributes()), dbg_perf(&p)))
        }
    });
    match r {
        Ok(Some((cnt, dbg))) => RObs { some: true, len: real_len(s), cnt, dbg, panic: None },
        Ok(None) => RObs { some: false, len: real_len(s), cnt: [0; 5], dbg: String::new(), panic: None },
        Err(p) => RObs { some: false, len: -1, cnt: [0; 5], dbg: String::new(), panic: Some(p) },
    }
}

pub struct Known {
    pub on: Vec<String>,
}

impl Known {
    fn has(&self, id: &str) -> bool {
        self.on.iter().any(|k| k == id)
    }
    /// Map-level classes (mirrors MC_Gradual.tla: TaikoFirstTwoBad, TaikoTrailingNonHit, EmptyLenOne).
    fn map_class(&self, sc: &Scenario, what: &str) -> Option<String> {
        let u = &sc.units;
        if sc.mode == "taiko" {
            if self.has("F2") && (u.len() < 3 || u[0][0] == 0 || u[1][0] == 0) {
                return Some("F2".into());
            }
            if self.has("F9") && !u.is_empty() && u[u.len() - 1][0] == 0 {
                return Some("F9".into());
            }
        } else if self.has("F8") && u.is_empty() && (what == "len" || what == "announce") {
            return Some("F8".into());
        }
        None
    }
    /// Step-level class NthPastEnd.
    fn step_class(&self, sc: &Scenario, e: &Entry) -> Option<String> {
        if self.has("F11") && sc.api == "diff" && e.x.pv < sc.total && e.x.virt > sc.total {
            return Some("F11".into());
        }
        None
    }
}

struct Ctx<'a> {
    sc: &'a Scenario,
    sci: usize,
    map: &'a Beatmap,
    diff: Difficulty,
    prof: u32,
    cfgi: usize,
    state: ScoreState,
    oneshot: HashMap<u64, String>,
    known: &'a Known,
    out: Vec<Mismatch>,
    steps: u64,
    oneshots: u64,
}

impl<'a> Ctx<'a> {
    fn new_session(&self) -> Session {
        if self.sc.api == "diff" {
            Session::Diff(GradualDifficulty::new(self.diff.clone(), self.map))
        } else {
            Session::Perf(GradualPerformance::new(self.diff.clone(), self.map))
        }
    }

    /// The declarative side computed by the real one-shot code path.
    fn one_shot(&mut self, i: u64) -> String {
        if let Some(s) = self.oneshot.get(&i) {
            return s.clone();
        }
        self.oneshots += 1;
        let d = self.diff.clone().passed_objects(i as u32);
        let s = if self.sc.api == "diff" {
            guarded(|| dbg_attrs(&d.calculate(self.map)))
        } else {
            guarded(|| {
                dbg_perf(
                    &Performance::new(self.map)
                        .difficulty(d)
                        .state(self.state.clone())
                        .calculate(),
                )
            })
        }
        .unwrap_or_else(|p| format!("PANIC {p}"));
        self.oneshot.insert(i, s.clone());
        s
    }

    fn mism(&mut self, kind: &str, what: &str, class: Option<String>, step: usize, e: &Entry, exp: String, obs: String) {
        self.mism_b(kind, what, class, step, e, exp, obs, false)
    }

    #[allow(clippy::too_many_arguments)]
    fn mism_b(&mut self, kind: &str, what: &str, class: Option<String>, step: usize, e: &Entry, exp: String, obs: String, benign: bool) {
        self.out.push(Mismatch {
            benign,
            kind: kind.into(),
            what: what.into(),
            class,
            scenario: self.sci,
            profile: self.prof,
            cfg: self.cfgi,
            step,
            call: e.a.clone(),
            expected: exp,
            observed: obs,
        });
    }

    fn check_step(&mut self, step: usize, e: &Entry, r: &RObs) {
        self.steps += 1;
        let sc = self.sc;
        // ---- conformance with the implementation-shaped model
        if let Some(p) = &r.panic {
            // the model predicts a panic as len = -1 *before* the call (nth on an underflowed len)
            if e.o.len != -1 {
                self.mism("conformance", "panic", None, step, e, "no panic".into(), p.clone());
            }
            return;
        }
        if r.some != e.o.some {
            self.mism_b("conformance", "some", None, step, e, e.o.some.to_string(), r.some.to_string(), r.some == e.x.some);
        }
        if r.len != e.o.len {
            self.mism_b("conformance", "len", None, step, e, e.o.len.to_string(), r.len.to_string(), r.len == e.x.len);
        }
        if r.some && e.o.some {
            let mut a = r.cnt;
            let mut b = e.o.cnt;
            if sc.mode == "catch" {
                a[2] = 0; // tiny droplets are numeric: logged, not predicted
                b[2] = 0;
            }
            if a != b {
                let mut x = e.x.cnt;
                if sc.mode == "catch" {
                    x[2] = 0;
                }
                self.mism_b("conformance", "cnt", None, step, e, format!("{b:?}"), format!("{a:?}"), e.x.some && a == x);
            }
        }
        // ---- the property itself, on the real code
        let class = |what: &str, me: &Self| me.known.map_class(sc, what).or_else(|| me.known.step_class(sc, e));
        if r.some != e.x.some {
            let c = class("some", self);
            self.mism("property", "some", c, step, e, e.x.some.to_string(), r.some.to_string());
        }
        if r.len != e.x.len {
            let c = class("len", self);
            self.mism("property", "len", c, step, e, e.x.len.to_string(), r.len.to_string());
        }
        if r.some && e.x.some {
            // C14: the counts follow the count algebra
            let mut a = r.cnt;
            let mut x = e.x.cnt;
            if sc.mode == "catch" {
                a[2] = 0;
                x[2] = 0;
            }
            if a != x {
                let c = class("cnt", self);
                self.mism("property", "cnt", c, step, e, format!("{x:?}"), format!("{a:?}"));
            }
            let want = self.one_shot(e.x.virt);
            if want != r.dbg {
                let c = class("value", self);
                self.mism("property", "value", c, step, e, want, r.dbg.clone());
            }
        }
    }

    fn run(&mut self) {
        let sc = self.sc;
        // creation: announced length
        let mut s = self.new_session();
        let l0 = real_len(&s);
        let e0 = Entry {
            a: ("new".into(), 0),
            o: MObs { some: true, len: sc.len0, cnt: [0; 5], idx: 0, proc: 0 },
            x: XObs { some: true, len: sc.total as i64, cnt: [0; 5], virt: 0, pv: 0 },
        };
        if sc.path.is_empty() {
            if l0 != sc.len0 {
                self.mism("conformance", "len", None, 0, &e0, sc.len0.to_string(), l0.to_string());
            }
            if l0 != sc.total as i64 {
                let c = self.known.map_class(sc, "announce");
                self.mism("property", "announce", c, 0, &e0, sc.total.to_string(), l0.to_string());
            }
            // C02: final value = full calculation (declarative side, both one-shot)
            if sc.total > 0 {
                let a = self.one_shot(sc.total);
                let b = self.one_shot(u32::MAX as u64);
                if a != b {
                    let c = self.known.map_class(sc, "final");
                    self.mism("property", "final", c, 0, &e0, b, a);
                }
            }
            // C14: counts for every passed_objects(n), n = 0 .. total + 2, follow the count algebra
            if sc.api == "diff" {
                for (n, want) in sc.algebra.iter().enumerate() {
                    let d = self.diff.clone().passed_objects(n as u32);
                    let got = guarded(|| counts(&d.calculate(self.map)));
                    self.oneshots += 1;
                    let mut w = *want;
                    let ok = match got {
                        Ok(mut g) => {
                            if sc.mode == "catch" {
                                g[2] = 0;
                                w[2] = 0;
                            }
                            g == w
                        }
                        Err(_) => false,
                    };
                    if !ok {
                        let e = Entry { a: ("passed_objects".into(), n as u64), ..e0.clone() };
                        let c = self.known.map_class(sc, "cnt");
                        self.mism("property", "cnt", c, 0, &e, format!("{w:?}"), format!("{got:?}"));
                    }
                }
            }
            // C14: any n above the total equals not limiting at all
            let a = self.one_shot(sc.total + 1);
            let b = self.one_shot(u32::MAX as u64);
            if a != b {
                self.mism("property", "above_total", None, 0, &e0, b, a);
            }
        }
        // path: only the last step is new (every prefix is another scenario's path),
        // but all are executed; check the last.
        let mut dead = false;
        for (i, e) in sc.path.iter().enumerate() {
            let r = do_call(&mut s, &e.a, &self.state.clone());
            if i + 1 == sc.path.len() {
                self.check_step(i, e, &r);
            }
            if r.panic.is_some() {
                dead = true;
                break;
            }
        }
        if dead {
            return;
        }
        // every outgoing edge
        for e in sc.succ.iter() {
            let mut s = self.new_session();
            let mut ok = true;
            for p in sc.path.iter() {
                if do_call(&mut s, &p.a, &self.state.clone()).panic.is_some() {
                    ok = false;
                    break;
                }
            }
            if !ok {
                continue;
            }
            let r = do_call(&mut s, &e.a, &self.state.clone());
            self.check_step(sc.path.len(), e, &r);
        }
    }
}

#[derive(Default)]
struct Acc {
    sessions: u64,
    steps: u64,
    oneshots: u64,
    mism: Vec<Mismatch>,
}

fn run_scenario(sci: usize, sc: &Scenario, profiles: &[u32], cfg_list: &[(usize, Cfg)], known: &Known) -> Acc {
    let mut acc = Acc::default();
    for &pid in profiles {
        let prof = profile(pid);
        let text = concretize(&sc.mode, &sc.objs, &prof);
        let map = match Beatmap::from_bytes(text.as_bytes()) {
            Ok(m) => m,
            Err(e) => {
                acc.mism.push(Mismatch {
                    kind: "machinery".into(),
                    what: "concretizer".into(),
                    class: None,
                    scenario: sci,
                    profile: pid,
                    cfg: 0,
                    step: 0,
                    call: ("decode".into(), 0),
                    expected: "Ok".into(),
                    observed: e.to_string(),
                    benign: false,
                });
                continue;
            }
        };
        if map.hit_objects.len() != sc.objs.len() {
            acc.mism.push(Mismatch {
                kind: "machinery".into(),
                what: "concretizer".into(),
                class: None,
                scenario: sci,
                profile: pid,
                cfg: 0,
                step: 0,
                call: ("decode".into(), 0),
                expected: sc.objs.len().to_string(),
                observed: map.hit_objects.len().to_string(),
                benign: false,
            });
            continue;
        }
        for (ci, cfg) in cfg_list {
            let mut cfg = cfg.clone();
            if sc.xf == "HO" {
                cfg.acronyms = Some("HO".into());
                // HoldOff only exists for mania: a taiko DifficultyAdjust would put the lazer set in taiko mode and drop it
                cfg.da_scroll = None;
            }
            let mut ctx = Ctx {
                sc,
                sci,
                map: &map,
                diff: cfg.difficulty(),
                prof: pid,
                cfgi: *ci,
                state: score_state(sci + *ci),
                oneshot: HashMap::new(),
                known,
                out: Vec::new(),
                steps: 0,
                oneshots: 0,
            };
            ctx.run();
            acc.sessions += 1 + sc.succ.len() as u64;
            acc.steps += ctx.steps;
            acc.oneshots += ctx.oneshots;
            acc.mism.extend(ctx.out);
        }
    }
    acc
}

/// `gradual-replay <scenarios.ndjson> <out.json> --tier T --known F2,F9 [--only-scenario i --only-profile p --only-cfg c]`
pub fn main(args: &[String]) -> i32 {
    let scen_path = &args[0];
    let out_path = &args[1];
    let mut tier = "quick".to_string();
    let mut known = Known { on: vec![] };
    let mut only_profile: Option<u32> = None;
    let mut only_cfg: Option<usize> = None;
    let mut i = 2;
    while i < args.len() {
        match args[i].as_str() {
            "--tier" => {
                tier = args[i + 1].clone();
                i += 1;
            }
            "--known" => {
                known.on = args[i + 1].split(',').filter(|s| !s.is_empty()).map(String::from).collect();
                i += 1;
            }
            "--only-profile" => {
                only_profile = Some(args[i + 1].parse().unwrap());
                i += 1;
            }
            "--only-cfg" => {
                only_cfg = Some(args[i + 1].parse().unwrap());
                i += 1;
            }
            _ => {}
        }
        i += 1;
    }
    silence_panics();
    let raw = read_ndjson(scen_path);
    let scenarios: Vec<Scenario> = raw
        .into_iter()
        .map(|v| serde_json::from_value(v).expect("scenario shape"))
        .collect();
    let seed: u64 = std::env::var("VERIF_SEED").ok().and_then(|s| s.parse().ok()).unwrap_or(0);
    let profiles: Vec<u32> = match only_profile {
        Some(p) => vec![p],
        None if tier == "thorough" => vec![0, 1, 2, 3],
        None => vec![(seed % 4) as u32, ((seed + 1) % 4) as u32],
    };
    let all_cfgs = cfgs(&tier);
    let cfg_list: Vec<(usize, Cfg)> = all_cfgs
        .iter()
        .cloned()
        .enumerate()
        .filter(|(i, _)| only_cfg.map_or(true, |c| c == *i))
        .collect();

    let results = par_map(scenarios.len(), n_threads(), |i| {
        run_scenario(i, &scenarios[i], &profiles, &cfg_list, &known)
    });

    let mut sessions = 0;
    let mut steps = 0;
    let mut oneshots = 0;
    let mut mism: Vec<Mismatch> = Vec::new();
    for r in results {
        sessions += r.sessions;
        steps += r.steps;
        oneshots += r.oneshots;
        mism.extend(r.mism);
    }
    let mut by: BTreeMap<String, u64> = BTreeMap::new();
    for m in &mism {
        let key = format!(
            "{}/{}/{}/{}/{}{}",
            m.kind,
            scenarios[m.scenario].api,
            scenarios[m.scenario].mode,
            m.what,
            m.class.clone().unwrap_or_else(|| "-".into()),
            if m.benign { "/benign" } else { "" }
        );
        *by.entry(key).or_default() += 1;
    }
    // keep a bounded, diverse set of mismatch records (first of each key, then more)
    let mut kept: Vec<Value> = Vec::new();
    let mut per_key: BTreeMap<String, u32> = BTreeMap::new();
    for m in &mism {
        let key = format!("{}/{}/{}/{}/{:?}/{}", m.kind, scenarios[m.scenario].api, scenarios[m.scenario].mode, m.what, m.class, m.benign);
        let c = per_key.entry(key).or_default();
        if *c < 3 {
            *c += 1;
            let sc = &scenarios[m.scenario];
            let text = concretize(&sc.mode, &sc.objs, &profile(m.profile));
            kept.push(json!({
                "mismatch": m,
                "scenario": sc,
                "cfg": all_cfgs[m.cfg],
                "osu_text": text,
            }));
        }
    }
    let unknown = mism
        .iter()
        .filter(|m| (m.kind == "property" && m.class.is_none()) || (m.kind != "property" && !m.benign))
        .count();
    let samples: Vec<Value> = scenarios
        .iter()
        .filter(|s| s.path.len() >= 2)
        .take(3)
        .map(|s| json!({"api": s.api, "mode": s.mode, "objs": s.objs, "calls": s.path.iter().map(|e| e.a.clone()).collect::<Vec<_>>(),
                        "model_obs_last": s.path.last().map(|e| &e.o), "expected_last": s.path.last().map(|e| &e.x)}))
        .collect();
    let out = json!({
        "scenarios": scenarios.len(),
        "profiles": profiles,
        "cfgs": cfg_list.len(),
        "sessions": sessions,
        "steps_checked": steps,
        "oneshot_calculations": oneshots,
        "mismatches_total": mism.len(),
        "mismatches_unknown": unknown,
        "by_class": by,
        "records": kept,
        "samples": samples,
    });
    std::fs::write(out_path, serde_json::to_string_pretty(&out).unwrap()).unwrap();
    println!(
        "gradual-replay: scenarios={} sessions={} steps={} oneshots={} mismatches={} unknown={}",
        scenarios.len(),
        sessions,
        steps,
        oneshots,
        mism.len(),
        unknown
    );
    0
}

#[allow(dead_code)]
pub fn attrs_kind(a: &DifficultyAttributes) -> &'static str {
    match a {
        DifficultyAttributes::Osu(_) => "osu",
        DifficultyAttributes::Taiko(_) => "taiko",
        DifficultyAttributes::Catch(_) => "catch",
        DifficultyAttributes::Mania(_) => "mania",
    }
}

// ---------------------------------------------------------------------------
// impl -> spec: record traces of real sessions for TraceGradual.tla

use rand::{rngs::StdRng, Rng, SeedableRng};
use rosu_pp::model::mode::GameMode;

fn mode_of(name: &str) -> GameMode {
    match name {
        "osu" => GameMode::Osu,
        "taiko" => GameMode::Taiko,
        "catch" => GameMode::Catch,
        _ => GameMode::Mania,
    }
}

pub fn random_objs(rng: &mut StdRng, mode: &str, n: usize) -> Vec<AbsObj> {
    (0..n)
        .map(|_| {
            let r: u32 = rng.gen_range(0..10);
            let k = match (mode, r) {
                ("mania", 0..=5) => "C",
                ("mania", _) => "H",
                (_, 0..=5) => "C",
                (_, 6..=8) => "S",
                _ => "P",
            };
            AbsObj {
                k: k.into(),
                rep: rng.gen_range(0..3),
                ticks: rng.gen_range(0..3),
                dur: rng.gen_range(0..5),
                gap: if rng.gen_range(0..12) == 0 { rng.gen_range(1..5) } else { 0 },
                pos: rng.gen_range(0..3),
                snd: rng.gen_range(0..4),
            }
        })
        .collect()
}

/// Unit weights of a (converted) map under `diff`, measured on the one-shot path:
/// unit i = counts(passed_objects(i)) - counts(passed_objects(i-1)), for i = 1.. until the
/// one-shot result equals the unrestricted one. Taiko: per hit object (hit / not a hit).
struct Measured {
    units: Vec<[u32; 5]>,
    zero: [u32; 5],
    above_ok: bool,
}

fn measure_units(mode: &str, map: &Beatmap, diff: &Difficulty) -> Option<Measured> {
    let calc = |i: u32| guarded(|| diff.clone().passed_objects(i).calculate(map)).ok();
    let full = guarded(|| diff.clone().calculate(map)).ok()?;
    let full_dbg = dbg_attrs(&full);
    let zero = counts(&calc(0)?);
    let mut units = Vec::new();
    if mode == "taiko" {
        // passed_objects counts hits; objects are the map's hit objects (random seed mods are not used here)
        units = map
            .hit_objects
            .iter()
            .map(|h| [u32::from(h.is_circle()), 0, 0, 0, 0])
            .collect();
    } else {
        let mut prev = zero;
        let mut i = 0u32;
        loop {
            if i > 5000 {
                return None;
            }
            let cur = calc(i)?;
            if i > 0 {
                let c = counts(&cur);
                let mut d = [0u32; 5];
                for j in 0..5 {
                    d[j] = c[j].checked_sub(prev[j])?; // C14 monotone; a decrease ends the measurement
                }
                if d == [0; 5] {
                    // nothing counted any more although the result still differs from the full one
                    d = [9, 9, 9, 9, 9];
                }
                units.push(d);
                prev = c;
            }
            if dbg_attrs(&cur) == full_dbg {
                break;
            }
            i += 1;
        }
    }
    let total = if mode == "taiko" { units.iter().map(|u| u[0]).sum::<u32>() } else { units.len() as u32 };
    let above = calc(total + 1)?;
    Some(Measured { units, zero, above_ok: dbg_attrs(&above) == full_dbg })
}

struct Rec {
    lines: Vec<String>,
    sessions: u64,
    /// harness-side differential on the recorded maps: i-th gradual value vs one-shot on the prefix (C02), i-th gradual
    /// performance - created from a Difficulty that still carries a stale passed_objects - vs one-shot performance (C03)
    value_mism: Vec<Value>,
    value_checks: u64,
}

fn value_checks(rec: &mut Rec, map: &Beatmap, diff: &rosu_pp::Difficulty, label: &str) {
    // the map is in its final mode already (native, or converted beforehand): the flag of the attributes is the flag of the map
    if let Ok(full) = guarded(|| diff.calculate(map)) {
        rec.value_checks += 1;
        let flag = match &full {
            rosu_pp::any::DifficultyAttributes::Osu(_) => false,
            rosu_pp::any::DifficultyAttributes::Taiko(a) => a.is_convert,
            rosu_pp::any::DifficultyAttributes::Catch(a) => a.is_convert,
            rosu_pp::any::DifficultyAttributes::Mania(a) => a.is_convert,
        };
        if flag != (map.is_convert && map.mode != rosu_pp::model::mode::GameMode::Osu) {
            rec.value_mism.push(json!({"api": "count", "label": label, "what": "is_convert", "expected": map.is_convert, "observed": flag}));
        }
    }
    let total = GradualDifficulty::new(diff.clone(), map).len();
    if total == 0 {
        return;
    }
    // the MODE-SPECIFIC gradual performance calculators have entry points of their own (next / nth / last): stepping one with
    // next() must give what the generic wrapper gives with next() (which goes through nth), and last() must give the last value
    for origin in [None, Some(false), Some(true)] {
        // (under the settings as given, and with either score origin spelled out: the origin decides how hold notes / slider
        //  parts are judged and travels inside the Difficulty)
        let diff = &match origin {
            None => diff.clone(),
            Some(l) => diff.clone().lazer(l),
        };
        let st = score_state(2);
        let r = guarded(|| {
            let mut generic = GradualPerformance::new(diff.clone(), map);
            let n = total.min(40);
            let g: Vec<String> = (0..n).map(|_| format!("{:?}", generic.next(st.clone()))).collect();
            let glast = format!("{:?}", GradualPerformance::new(diff.clone(), map).last(st.clone()));
            macro_rules! own {
                ($ty:ty, $variant:ident) => {{
                    let mut c = <$ty>::new(diff.clone(), map).expect("mode of the map");
                    let v: Vec<String> = (0..n).map(|_| format!("{:?}", c.next(st.clone().into()).map(rosu_pp::any::PerformanceAttributes::$variant))).collect();
                    let l = format!("{:?}", <$ty>::new(diff.clone(), map).expect("mode of the map").last(st.clone().into()).map(rosu_pp::any::PerformanceAttributes::$variant));
                    (v, l)
                }};
            }
            let (own, olast) = match map.mode {
                rosu_pp::model::mode::GameMode::Osu => own!(rosu_pp::osu::OsuGradualPerformance, Osu),
                rosu_pp::model::mode::GameMode::Taiko => own!(rosu_pp::taiko::TaikoGradualPerformance, Taiko),
                rosu_pp::model::mode::GameMode::Catch => own!(rosu_pp::catch::CatchGradualPerformance, Catch),
                rosu_pp::model::mode::GameMode::Mania => own!(rosu_pp::mania::ManiaGradualPerformance, Mania),
            };
            (g, glast, own, olast)
        });
        rec.value_checks += 1;
        match r {
            Err(p) => rec.value_mism.push(json!({"api": "perf", "label": label, "what": "panic", "observed": p})),
            Ok((g, glast, own, olast)) => {
                if let Some(i) = (0..g.len()).find(|&i| g[i] != own[i]) {
                    rec.value_mism.push(json!({"api": "perf", "label": label, "what": "mode-specific next() vs generic next()", "i": i + 1, "expected": g[i].chars().take(400).collect::<String>(), "observed": own[i].chars().take(400).collect::<String>()}));
                }
                if glast != olast {
                    rec.value_mism.push(json!({"api": "perf", "label": label, "what": "mode-specific last() vs generic last()", "expected": glast.chars().take(400).collect::<String>(), "observed": olast.chars().take(400).collect::<String>()}));
                }
            }
        }
    }
    let mut idxs: Vec<usize> = if total <= 16 { (0..total).collect() } else { (0..12).map(|k| k * (total - 1) / 11).collect() };
    if total > 2 {
        idxs.push(total - 2);
    }
    idxs.sort_unstable();
    idxs.dedup();
    let want_len = idxs.len();
    let r = guarded(|| {
        let mut out = Vec::new();
        let mut g = GradualDifficulty::new(diff.clone(), map);
        // a score that claims more of everything than any prefix has: every step has to cut it down to its own prefix
        let mut state = score_state(2);
        state.max_combo = 100_000;
        state.n300 = 30_000;
        state.n100 = 5_000;
        state.n50 = 2_000;
        state.misses = 1_000;
        // the Difficulty handed to the gradual performance calculator still carries a passed_objects value from an earlier use
        // (half the number of steps): some calculators honour it (fewer steps), others ignore it (all steps)
        let stale = ((total / 2) as u32).max(1);
        let mut gp = GradualPerformance::new(diff.clone().passed_objects(stale), map);
        // ... a calculator that honours the stale value announces fewer steps; every step it DOES announce is a prefix of the play
        let announced = gp.len();
        let (mut at, mut pat) = (0usize, 0usize);
        for &i in &idxs {
            let gv = g.nth(i - at).map(|a| dbg_attrs(&a));
            at = i + 1;
            let ov = dbg_attrs(&diff.clone().passed_objects(i as u32 + 1).calculate(map));
            let (pv, opv) = if i < announced {
                let pv = gp.nth(state.clone(), i - pat).map(|a| dbg_perf(&a));
                pat = i + 1;
                (pv, dbg_perf(&Performance::new(map).difficulty(diff.clone().passed_objects(i as u32 + 1)).state(state.clone()).calculate()))
            } else {
                (Some(String::new()), String::new())
            };
            out.push((i, gv, ov, pv, opv));
        }
        out
    });
    match r {
        Err(p) => rec.value_mism.push(json!({"api": "diff", "label": label, "what": "panic", "observed": p})),
        Ok(rows) => {
            if rows.len() != want_len {
                rec.value_mism.push(json!({"api": "diff", "label": label, "what": "machinery", "observed": rows.len()}));
            }
            for (i, gv, ov, pv, opv) in rows {
                rec.value_checks += 2;
                if gv.as_deref() != Some(ov.as_str()) {
                    rec.value_mism.push(json!({"api": "diff", "label": label, "what": "value", "i": i + 1, "expected": ov.chars().take(400).collect::<String>(), "observed": format!("{gv:?}").chars().take(400).collect::<String>()}));
                }
                if pv.as_deref() != Some(opv.as_str()) {
                    rec.value_mism.push(json!({"api": "perf", "label": label, "what": "value", "i": i + 1, "expected": opv.chars().take(400).collect::<String>(), "observed": format!("{pv:?}").chars().take(400).collect::<String>()}));
                }
            }
        }
    }
}

fn record_sessions(rec: &mut Rec, rng: &mut StdRng, mode: &str, map: &Beatmap, cfg: &Cfg, label: &str) {
    let diff = cfg.difficulty();
    value_checks(rec, map, &diff, label);
    let Some(Measured { units, zero, above_ok }) = measure_units(mode, map, &diff) else {
        rec.lines.push(json!({"ev": "reset", "api": "diff", "mode": mode, "units": [], "len": -7, "label": format!("{label}: one-shot counts not monotone or panicked")}).to_string());
        return;
    };
    for api in ["diff", "perf"] {
        let mut s = if api == "diff" {
            Session::Diff(GradualDifficulty::new(diff.clone(), map))
        } else {
            Session::Perf(GradualPerformance::new(diff.clone(), map))
        };
        rec.sessions += 1;
        rec.lines.push(json!({"ev": "reset", "api": api, "mode": mode, "units": units, "len": real_len(&s), "zero": zero, "above_ok": above_ok, "label": label}).to_string());
        let state = score_state(rng.gen_range(0..3));
        let mut nones = 0;
        let mut guard = 0;
        while nones < 2 && guard < 10_000 {
            guard += 1;
            let call: (String, u64) = match rng.gen_range(0..10) {
                0..=4 if api == "diff" => ("next".into(), 0),
                0..=6 => ("nth".into(), rng.gen_range(0..4)),
                7..=8 => ("nth".into(), rng.gen_range(0..(units.len() as u64 / 3 + 2))),
                _ => ("nth".into(), if rng.gen_bool(0.3) { MAXN } else { rng.gen_range(0..(units.len() as u64 + 3)) }),
            };
            let r = do_call(&mut s, &call, &state);
            if let Some(p) = &r.panic {
                rec.lines.push(json!({"ev": "call", "a": call, "some": false, "len": -9, "cnt": [0,0,0,0,0], "panic": p}).to_string());
                break;
            }
            rec.lines.push(json!({"ev": "call", "a": call, "some": r.some, "len": r.len, "cnt": r.cnt}).to_string());
            if !r.some {
                nones += 1;
            }
        }
    }
    // std adaptors on fresh calculators
    let k: usize = rng.gen_range(1..5);
    for kind in ["collect", "skip", "step_by", "take", "skip_step"] {
        let g = GradualDifficulty::new(diff.clone(), map);
        let out: Result<Vec<[u32; 5]>, String> = guarded(|| match kind {
            "collect" => g.map(|a| counts(&a)).collect(),
            "skip" => g.skip(k).map(|a| counts(&a)).collect(),
            "step_by" => g.step_by(k).map(|a| counts(&a)).collect(),
            "take" => g.take(k).map(|a| counts(&a)).collect(),
            _ => g.skip(k).step_by(k).map(|a| counts(&a)).collect(),
        });
        rec.sessions += 1;
        match out {
            Ok(cnts) => rec.lines.push(json!({"ev": "seq", "kind": kind, "k": k, "cnts": cnts}).to_string()),
            Err(p) => rec.lines.push(json!({"ev": "seq", "kind": kind, "k": k, "cnts": [[9,9,9,9,9]], "panic": p}).to_string()),
        }
    }
}

/// mania: lazer-only mods that rewrite the object list (HoldOff, Invert), mirror and key mods
fn mania_mods(rng: &mut StdRng, mode: &str, cfg: &Cfg) -> Cfg {
    if mode != "mania" {
        return cfg.clone();
    }
    match rng.gen_range(0..8) {
        6 => {
            // Invert together with a seeded Random: the order in which the two rewrite the map matters
            let mut c = cfg.with_acronyms("IN");
            c.random_seed = Some(rng.gen_range(1..1000));
            c
        }
        7 => {
            let mut c = cfg.with_acronyms("HO");
            c.random_seed = Some(rng.gen_range(1..1000));
            c
        }
        0 => cfg.with_acronyms("IN"),
        1 => cfg.with_acronyms("HO"),
        2 => cfg.with_acronyms("MR"),
        3 => cfg.with_acronyms(["4K", "5K", "7K", "9K", "1K"][rng.gen_range(0..5)]),
        4 => cfg.with_acronyms("IN,HO"),
        _ => cfg.clone(),
    }
}

/// `gradual-record <out.ndjson> --tier T`: fixtures (truncated), their conversions, seeded random maps.
pub fn record_main(args: &[String]) -> i32 {
    let out_path = &args[0];
    let tier = args.iter().position(|a| a == "--tier").map(|i| args[i + 1].clone()).unwrap_or("quick".into());
    let seed: u64 = std::env::var("VERIF_SEED").ok().and_then(|s| s.parse().ok()).unwrap_or(0);
    silence_panics();
    let mut rng = StdRng::seed_from_u64(seed ^ 0x6772_6164);
    let mut rec = Rec { lines: Vec::new(), sessions: 0, value_mism: Vec::new(), value_checks: 0 };
    let all_cfgs = cfgs(&tier);
    let (fix_trunc, n_random, max_len) = if tier == "thorough" { (400, 40, 60) } else { (80, 8, 30) };
    let fixtures = [("osu", "2785319"), ("taiko", "1028484"), ("catch", "2118524"), ("mania", "1638954")];
    let mut maps_used = 0;
    for (mode, id) in fixtures {
        let path = format!("/repo/resources/{id}.osu");
        let Ok(mut map) = Beatmap::from_path(&path) else {
            eprintln!("cannot read fixture {path}");
            return 2;
        };
        // a window of the fixture (units are measured with one one-shot run per prefix)
        let start = rng.gen_range(0..map.hit_objects.len().saturating_sub(fix_trunc).max(1));
        let end = (start + fix_trunc).min(map.hit_objects.len());
        map.hit_objects = map.hit_objects[start..end].to_vec();
        map.hit_sounds = map.hit_sounds[start..end].to_vec();
        let targets: Vec<&str> = if mode == "osu" { vec!["osu", "taiko", "catch", "mania"] } else { vec![mode] };
        for t in targets {
            let ci = rng.gen_range(0..all_cfgs.len());
            let cfg = &mania_mods(&mut rng, t, &all_cfgs[ci]);
            let conv = match map.clone().convert(mode_of(t), &cfg.game_mods()) {
                Ok(m) => m,
                Err(_) => continue,
            };
            maps_used += 1;
            record_sessions(&mut rec, &mut rng, t, &conv, cfg, &format!("fixture {id} [{start}..{end}] as {t} cfg {ci} {:?}", cfg.acronyms));
            if t == "taiko" {
                // the lazer Random mod with a seed recolours the hits: always covered (a taiko-mode lazer set, see settings::Cfg)
                let cfg = crate::settings::Cfg { random_seed: Some(7), da_scroll: Some(1.0), mods: 16, ..Default::default() };
                maps_used += 1;
                record_sessions(&mut rec, &mut rng, t, &conv, &cfg, &format!("fixture {id} [{start}..{end}] as taiko with RD"));
            }
            if t == "mania" {
                // the mods that rewrite the mania object list are always covered
                for a in ["IN", "HO", "IN,HO", "MR", "IN+RD", "RD"] {
                    let mut cfg = all_cfgs[0].with_acronyms(a.split('+').next().filter(|x| *x != "RD").unwrap_or(""));
                    if a.contains("RD") {
                        cfg.random_seed = Some(42);
                    }
                    if let Ok(conv) = map.clone().convert(mode_of(t), &cfg.game_mods()) {
                        maps_used += 1;
                        record_sessions(&mut rec, &mut rng, t, &conv, &cfg, &format!("fixture {id} [{start}..{end}] as mania with {a}"));
                    }
                }
            }
        }
    }
    for i in 0..n_random {
        for mode in ["osu", "taiko", "catch", "mania"] {
            let n = rng.gen_range(0..max_len);
            let objs = random_objs(&mut rng, mode, n);
            let prof = profile(rng.gen_range(0..4));
            let text = concretize(mode, &objs, &prof);
            let Ok(map) = Beatmap::from_bytes(text.as_bytes()) else { continue };
            let ci = rng.gen_range(0..all_cfgs.len());
            maps_used += 1;
            let cfg = mania_mods(&mut rng, mode, &all_cfgs[ci]);
            record_sessions(&mut rec, &mut rng, mode, &map, &cfg, &format!("random {mode} #{i} n={n} profile {} cfg {ci} {:?}", prof.id, cfg.acronyms));
            // osu maps also as converts
            if mode == "osu" && i % 2 == 0 {
                for t in ["taiko", "catch", "mania"] {
                    let cfg = mania_mods(&mut rng, t, &all_cfgs[ci]);
                    if let Ok(conv) = map.clone().convert(mode_of(t), &cfg.game_mods()) {
                        maps_used += 1;
                        record_sessions(&mut rec, &mut rng, t, &conv, &cfg, &format!("random osu #{i} as {t} {:?}", cfg.acronyms));
                    }
                }
            }
        }
    }
    // third family, "tangled" timelines: objects sharing a timestamp, long multi-span sliders and spinners that later objects
    // start inside of, lines out of time order in the file (the decoder sorts), slider-velocity sections and tick rate 2
    let n_tangled = if tier == "thorough" { 24 } else { 4 };
    for i in 0..n_tangled {
        for (mi, mode) in ["osu", "taiko", "catch", "mania"].iter().enumerate() {
            let mut lines: Vec<(i64, String)> = Vec::new();
            let mut t: i64 = 800;
            let n = rng.gen_range(6..16);
            for k in 0..n {
                t += [0i64, 0, 90, 180, 400][rng.gen_range(0..5)];
                let x = if *mode == "mania" { 64 + 128 * rng.gen_range(0..4) } else { rng.gen_range(40..470) };
                let y = rng.gen_range(40..340);
                let snd = [0u32, 2, 8, 4][rng.gen_range(0..4)];
                match rng.gen_range(0..10) {
                    0..=5 => lines.push((t, format!("{x},{y},{t},1,{snd}"))),
                    6..=7 if *mode != "mania" => {
                        let slides = [1u32, 2, 4][rng.gen_range(0..3)];
                        let len = [70u32, 140, 280][rng.gen_range(0..3)];
                        lines.push((t, format!("{x},{y},{t},2,{snd},L|{}:{y},{slides},{len}", x + len as i64)));
                    }
                    8 if *mode != "mania" => lines.push((t, format!("256,192,{t},12,{snd},{}", t + [300i64, 1500][rng.gen_range(0..2)]))),
                    _ if *mode == "mania" => lines.push((t, format!("{x},192,{t},128,{snd},{}:0:0:0:0:", t + [200i64, 900][rng.gen_range(0..2)]))),
                    _ => lines.push((t, format!("{x},{y},{t},1,{snd}"))),
                }
                let _ = k;
            }
            // file order: rotate a few lines out of place
            if lines.len() > 3 {
                let a = rng.gen_range(0..lines.len());
                let b = rng.gen_range(0..lines.len());
                lines.swap(a, b);
            }
            let text = format!(
                "osu file format v14\n\n[General]\nMode: {mi}\n\n[Difficulty]\nHPDrainRate:5\nCircleSize:4\nOverallDifficulty:7\nApproachRate:9\nSliderMultiplier:1.4\nSliderTickRate:2\n\n[TimingPoints]\n0,400,4,2,0,100,1,0\n1500,-50,4,2,0,100,0,1\n2600,-200,4,2,0,100,0,0\n\n[HitObjects]\n{}\n",
                lines.iter().map(|l| l.1.clone()).collect::<Vec<_>>().join("\n")
            );
            let Ok(map) = Beatmap::from_bytes(text.as_bytes()) else { continue };
            let ci = rng.gen_range(0..all_cfgs.len());
            let cfg = mania_mods(&mut rng, mode, &all_cfgs[ci]);
            maps_used += 1;
            record_sessions(&mut rec, &mut rng, mode, &map, &cfg, &format!("tangled {mode} #{i} cfg {ci} {:?}", cfg.acronyms));
            if *mode == "osu" {
                for t2 in ["taiko", "catch", "mania"] {
                    let cfg = mania_mods(&mut rng, t2, &all_cfgs[ci]);
                    if let Ok(conv) = map.clone().convert(mode_of(t2), &cfg.game_mods()) {
                        maps_used += 1;
                        record_sessions(&mut rec, &mut rng, t2, &conv, &cfg, &format!("tangled osu #{i} as {t2} {:?}", cfg.acronyms));
                    }
                }
            }
        }
    }
    // fourth family: native mania maps whose CircleSize is fractional (the key count is a rounding of it: N.5 rounds to even in
    // the one-shot path) with notes on the lanes of the NEXT key count, trills, chords and holds - value differential only
    for (i, cs) in ["2.5", "4.5", "6.5", "8.5", "5.5", "6.4", "3.5"].iter().enumerate() {
        let lanes = cs.parse::<f32>().unwrap().ceil() as i64 + (i as i64 % 2);
        let mut text = format!("osu file format v14\n\n[General]\nMode: 3\n\n[Difficulty]\nHPDrainRate:7\nCircleSize:{cs}\nOverallDifficulty:8\nApproachRate:5\nSliderMultiplier:1.4\nSliderTickRate:1\n\n[TimingPoints]\n0,400,4,2,0,100,1,0\n\n[HitObjects]\n");
        let mut t = 500i64;
        for j in 0..(if tier == "thorough" { 60 } else { 24 }) {
            let lane = (j * 3 + rng.gen_range(0..2)) % lanes;
            let x = (512 * lane + 256) / lanes;
            t += [100i64, 100, 150, 200, 50][rng.gen_range(0..5)];
            if j % 5 == 3 {
                let _ = writeln!(text, "{x},192,{t},128,0,{}:0:0:0:0:", t + [120i64, 300, 700][rng.gen_range(0..3)]);
            } else {
                let _ = writeln!(text, "{x},192,{t},1,0");
            }
            if j % 4 == 1 {
                // chord: the neighbouring lane at the same time
                let x2 = (512 * ((lane + 1) % lanes) + 256) / lanes;
                let _ = writeln!(text, "{x2},192,{t},1,0");
            }
        }
        if let Ok(map) = Beatmap::from_bytes(text.as_bytes()) {
            maps_used += 1;
            for d in [rosu_pp::Difficulty::new(), rosu_pp::Difficulty::new().mods(64u32)] {
                value_checks(&mut rec, &map, &d, &format!("mania CircleSize {cs} lanes {lanes}"));
            }
        }
    }
    std::fs::write(out_path, rec.lines.join("\n") + "\n").unwrap();
    std::fs::write(format!("{out_path}.values.json"), serde_json::to_string_pretty(&json!({"checks": rec.value_checks, "mismatches": rec.value_mism.len(), "records": rec.value_mism.iter().take(30).collect::<Vec<_>>()})).unwrap()).unwrap();
    println!("gradual-record: maps={} sessions={} events={} value_checks={} value_mismatches={}", maps_used, rec.sessions, rec.lines.len(), rec.value_checks, rec.value_mism.len());
    0
}
