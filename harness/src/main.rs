#![allow(dead_code)]
mod absmap;
mod attrs;
mod builders;
mod catchrec;
mod convert;
mod corners;
mod decode;
mod dispatch;
mod dump;
mod gradual;
mod lifecycle;
mod modsrep;
mod osustack;
mod perfgrid;
mod scoregen;
mod session;
mod settings;
mod strains;
mod maniarec;
mod strainsvec;
mod taiko;
mod utilsrep;
mod util;

fn main() {
    let args: Vec<String> = std::env::args().collect();
    if args.len() < 2 {
        eprintln!("usage: verif-harness <subcommand> ...");
        std::process::exit(2);
    }
    let rest = &args[2..];
    let code = match args[1].as_str() {
        "gradual-replay" => gradual::main(rest),
        "gradual-record" => gradual::record_main(rest),
        "decode-replay" => decode::main(rest),
        "decode-record" => decode::record_main(rest),
        "dispatch-replay" => dispatch::main(rest),
        "builders-replay" => builders::main(rest),
        "attrs-replay" => attrs::main(rest),
        "dump-results" => dump::main(rest),
        "corner-replay" => corners::main(rest),
        "perfgrid-replay" => perfgrid::main(rest),
        "random-replay" => corners::random_main(rest),
        "bpm-replay" => session::bpm_main(rest),
        "session-record" => session::record_main(rest),
        "threads-record" => session::threads_main(rest),
        "strains-replay" => strains::main(rest),
        "lifecycle-replay" => lifecycle::main(rest),
        "pathbuf-replay" => lifecycle::pathbuf_main(rest),
        "miri-scenarios" => lifecycle::miri_scenarios(rest),
        "miri-run" => lifecycle::miri_run(rest),
        "strainsvec-replay" => strainsvec::main(rest),
        "utils-replay" => utilsrep::main(rest),
        "ctrlpoints-replay" => utilsrep::ctrlpoints_main(rest),
        "mania-record" => maniarec::main(rest),
        "taiko-replay" => taiko::replay_main(rest),
        "taiko-record" => taiko::record_main(rest),
        "taikocolour-replay" => taiko::colour_replay_main(rest),
        "taikorhythm-replay" => taiko::rhythm_replay_main(rest),
        "stack-replay" => osustack::replay_main(rest),
        "catch-record" => catchrec::record_main(rest),
        "mods-replay" => modsrep::main(rest),
        "convert-replay" => convert::replay_main(rest),
        "convert-record" => convert::record_main(rest),
        "mods-dump" => {
            let mut c = settings::Cfg::default().with_acronyms(&rest[0]);
            if rest.len() > 1 {
                c.random_seed = rest[1].parse().ok();
            }
            let m = c.game_mods();
            println!("{:?}\n{:?}", m, m.verif_flags(true));
            0
        }
        "decode-dump" => {
            let bytes = std::fs::read(&rest[0]).expect("read");
            match rosu_pp::Beatmap::from_bytes(&bytes) {
                Ok(m) => println!("{:?}\n{:#?}", decode::project(&m), m.hit_objects),
                Err(e) => println!("ERR {e}"),
            }
            0
        }
        "scoregen-replay" => scoregen::main(rest),
        "concretize" => {
            // concretize <mode> <profile> <objs-json>
            let objs: Vec<absmap::AbsObj> = serde_json::from_str(&rest[2]).expect("objs json");
            print!("{}", absmap::concretize(&rest[0], &objs, &absmap::profile(rest[1].parse().unwrap())));
            0
        }
        other => {
            eprintln!("unknown subcommand {other}");
            2
        }
    };
    std::process::exit(code);
}
