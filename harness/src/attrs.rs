//! C17: attribute builder.  Replays the grid TLC enumerated (MC_AttrBuilder):
//! real hit_windows() / build() vs the model's exact rationals, and the values
//! the calculators embed vs the builder's output for the same map and settings.

use crate::absmap::{concretize, profile};
use crate::gradual::random_objs;
use crate::util::*;
use rand::{rngs::StdRng, SeedableRng};
use rosu_pp::any::DifficultyAttributes;
use rosu_pp::model::beatmap::BeatmapAttributesBuilder;
use rosu_pp::model::mode::GameMode;
use rosu_pp::{Beatmap, Difficulty};
use serde::Deserialize;
use serde_json::{json, Value};
use std::collections::BTreeMap;

type Rat = (i64, i64);

#[derive(Clone, Debug, Deserialize)]
struct Exp {
    #[serde(default)]
    preempt: Option<Rat>,
    #[serde(default)]
    build: Option<Rat>,
    #[serde(default)]
    great: Option<Rat>,
    #[serde(default)]
    ok: Option<Rat>,
    #[serde(default)]
    meh: Option<Rat>,
    #[serde(default)]
    boundary: bool,
}

#[derive(Clone, Debug, Deserialize)]
struct Scenario {
    mode: String,
    conv: bool,
    field: String,
    v: Rat,
    wm: bool,
    mods: String,
    rate: Rat,
    exp: Exp,
}

fn f(r: Rat) -> f64 {
    r.0 as f64 / r.1 as f64
}
fn close(a: f64, b: f64) -> bool {
    (a - b).abs() <= 1e-5 * (1.0 + a.abs().max(b.abs()))
}
fn gm(s: &str) -> GameMode {
    match s {
        "osu" => GameMode::Osu,
        "taiko" => GameMode::Taiko,
        "catch" => GameMode::Catch,
        _ => GameMode::Mania,
    }
}
fn bits(m: &str) -> u32 {
    match m {
        "HR" => 16,
        "EZ" => 2,
        _ => 0,
    }
}

/// `attrs-replay <scenarios.ndjson> <out.json> --tier T`
pub fn main(args: &[String]) -> i32 {
    silence_panics();
    let tier = args.iter().position(|a| a == "--tier").map(|i| args[i + 1].clone()).unwrap_or("quick".into());
    let seed: u64 = std::env::var("VERIF_SEED").ok().and_then(|s| s.parse().ok()).unwrap_or(0);
    let scenarios: Vec<Scenario> = read_ndjson(&args[0]).into_iter().map(|v| serde_json::from_value(v).expect("scenario shape")).collect();
    let n = scenarios.len();
    let res = par_map(n, n_threads(), |i| {
        let sc = &scenarios[i];
        let mut out = Vec::new();
        let mut bad = |what: &str, exp: String, obs: String| {
            out.push(json!({"what": what, "scenario_index": i, "case": {"mode": sc.mode, "conv": sc.conv, "field": sc.field, "v": f(sc.v), "with_mods": sc.wm,
                "mods": sc.mods, "rate": f(sc.rate)}, "expected": exp, "observed": obs}));
        };
        let v = f(sc.v) as f32;
        let mut b = BeatmapAttributesBuilder::new().mode(gm(&sc.mode), sc.conv).mods(bits(&sc.mods)).clock_rate(f(sc.rate));
        b = match sc.field.as_str() {
            "ar" => b.ar(v, sc.wm),
            "od" => b.od(v, sc.wm),
            "cs" => b.cs(v, sc.wm),
            _ => b.hp(v, sc.wm),
        };
        let r = guarded(|| (b.hit_windows(), b.build()));
        let Ok((hw, built)) = r else {
            bad("panic", "no panic".into(), "panic".into());
            return out;
        };
        if hw != built.hit_windows {
            bad("hit_windows_vs_build", format!("{:?}", built.hit_windows), format!("{hw:?}"));
        }
        // the same configuration reached from a Beatmap value (its mode, its convert flag, its four values; the scenario's value
        // written into the map when it is given without mods, else set on the builder afterwards): map.attributes() = the
        // hand-configured builder
        {
            let mut m = Beatmap::default();
            m.mode = gm(&sc.mode);
            m.is_convert = sc.conv;
            if !sc.wm && (0.0..=10.0).contains(&v) {
                match sc.field.as_str() {
                    "ar" => m.ar = v,
                    "od" => m.od = v,
                    "cs" => m.cs = v,
                    _ => m.hp = v,
                }
            }
            let mut fm = m.attributes().mods(bits(&sc.mods)).clock_rate(f(sc.rate));
            if sc.wm || !(0.0..=10.0).contains(&v) {
                fm = match sc.field.as_str() {
                    "ar" => fm.ar(v, sc.wm),
                    "od" => fm.od(v, sc.wm),
                    "cs" => fm.cs(v, sc.wm),
                    _ => fm.hp(v, sc.wm),
                };
            }
            // the other three values are the defaults (5.0) on both sides
            if let Ok((hw2, built2)) = guarded(|| (fm.hit_windows(), fm.build())) {
                if hw2 != hw || format!("{built2:?}") != format!("{built:?}") {
                    bad("builder_from_map_vs_hand_configured", format!("{hw:?} {built:?}"), format!("{hw2:?} {built2:?}"));
                }
            } else {
                bad("panic", "no panic".into(), "panic (builder from a map)".into());
            }
        }
        let e = &sc.exp;
        match sc.field.as_str() {
            "ar" => {
                if !close(hw.ar, f(e.preempt.unwrap())) {
                    bad("preempt", f(e.preempt.unwrap()).to_string(), hw.ar.to_string());
                }
                if !close(built.ar, f(e.build.unwrap())) {
                    bad("build_ar", f(e.build.unwrap()).to_string(), built.ar.to_string());
                }
            }
            "od" => {
                let g = f(e.great.unwrap());
                let ok_great = if sc.mode == "mania" && e.boundary { (hw.od_great - g).abs() <= 1.0 + 1e-9 } else { close(hw.od_great, g) };
                if !ok_great {
                    bad("great_window", g.to_string(), hw.od_great.to_string());
                }
                let opt = |r: Option<Rat>| r.filter(|x| x.1 != 0).map(f);
                match (opt(e.ok), hw.od_ok) {
                    (Some(a), Some(b)) if close(a, b) => {}
                    (None, None) => {}
                    (a, b) => bad("ok_window", format!("{a:?}"), format!("{b:?}")),
                }
                match (opt(e.meh), hw.od_meh) {
                    (Some(a), Some(b)) if close(a, b) => {}
                    (None, None) => {}
                    (a, b) => bad("meh_window", format!("{a:?}"), format!("{b:?}")),
                }
                let bo = f(e.build.unwrap());
                let ok_od = if sc.mode == "mania" { close(built.od, bo) } else if e.boundary { true } else { close(built.od, bo) };
                if !ok_od {
                    bad("build_od", bo.to_string(), built.od.to_string());
                }
            }
            "cs" => {
                if !close(built.cs, f(e.build.unwrap())) {
                    bad("build_cs", f(e.build.unwrap()).to_string(), built.cs.to_string());
                }
            }
            _ => {
                if !close(built.hp, f(e.build.unwrap())) {
                    bad("build_hp", f(e.build.unwrap()).to_string(), built.hp.to_string());
                }
            }
        }
        out
    });
    let mut mism: Vec<Value> = res.into_iter().flatten().collect();

    // agreement with the calculators: values stored in difficulty attributes == the builder's output
    let mut rng = StdRng::seed_from_u64(seed ^ 0xa77);
    let mut agree = 0u64;
    let mods_list: Vec<u32> = vec![0, 16, 2, 64, 256, 16 | 64, 2 | 256];
    let rates: Vec<Option<f64>> = if tier == "thorough" { vec![None, Some(0.5), Some(0.75), Some(1.3), Some(2.0), Some(0.01), Some(100.0)] } else { vec![None, Some(1.3), Some(0.75), Some(2.0), Some(0.5)] };
    // (values up to the setters' limits of +-20, and effective values beyond 11 / below -10 through the clock rate)
    let vals: Vec<f32> = if tier == "thorough" { (-40..=40).map(|i| i as f32 * 0.5).collect() } else { vec![-20.0, -7.0, -2.0, 0.0, 3.5, 6.5, 9.5, 10.0, 11.0, 13.5, 20.0] };
    for mode in ["osu", "taiko", "catch", "mania"] {
        let sources: Vec<(&str, String)> = {
            let objs = random_objs(&mut rng, mode, 6);
            let mut v = vec![(mode, concretize(mode, &objs, &profile(seed as u32)))];
            if mode != "osu" {
                let objs = random_objs(&mut rng, "osu", 6);
                v.push(("osu", concretize("osu", &objs, &profile(seed as u32 + 2))));
            }
            v
        };
        for (_, text) in &sources {
            let Ok(native) = Beatmap::from_bytes(text.as_bytes()) else { continue };
            let Ok(map) = native.convert(gm(mode), &0u32.into()) else { continue };
            for &m in &mods_list {
                for rate in &rates {
                    for (k, &x) in vals.iter().enumerate() {
                        let mut d = Difficulty::new().mods(m);
                        if let Some(r) = rate {
                            d = d.clock_rate(*r);
                        }
                        // override one or two attributes, both with_mods settings
                        let wm = (k / 4 + k) % 2 == 0;
                        d = match k % 4 {
                            0 => d.ar(x, wm),
                            1 => d.od(x, wm),
                            2 => d.ar(x, wm).od(10.0 - x, !wm),
                            _ => d.hp(x, wm).cs(x, wm),
                        };
                        agree += 1;
                        let r = guarded(|| (d.calculate(&map), map.attributes().difficulty(&d).build()));
                        let Ok((attrs, built)) = r else {
                            mism.push(json!({"what": "panic_calculators", "mode": mode, "mods": m, "rate": rate, "value": x, "osu_text": text}));
                            continue;
                        };
                        let hw = built.hit_windows;
                        let pairs: Vec<(&str, f64, f64)> = match &attrs {
                            DifficultyAttributes::Osu(a) => vec![
                                ("osu.ar", a.ar, built.ar),
                                ("osu.hp", a.hp, built.hp),
                                ("osu.great_hit_window", a.great_hit_window, hw.od_great),
                                ("osu.ok_hit_window", a.ok_hit_window, hw.od_ok.unwrap_or(0.0)),
                                ("osu.meh_hit_window", a.meh_hit_window, hw.od_meh.unwrap_or(0.0)),
                                ("osu.od()", a.od(), built.od),
                            ],
                            DifficultyAttributes::Taiko(a) => vec![
                                ("taiko.great_hit_window", a.great_hit_window, hw.od_great),
                                ("taiko.ok_hit_window", a.ok_hit_window, hw.od_ok.unwrap_or(0.0)),
                            ],
                            DifficultyAttributes::Catch(a) => vec![("catch.ar", a.ar, built.ar)],
                            DifficultyAttributes::Mania(_) => vec![],
                        };
                        for (name, got, want) in pairs {
                            if got.to_bits() != want.to_bits() && !(got.is_nan() && want.is_nan()) && !close(got, want) {
                                mism.push(json!({"what": "calculator_vs_builder", "field": name, "mode": mode, "mods": m, "rate": rate, "value": x,
                                    "expected": want, "observed": got, "osu_text": text}));
                            }
                        }
                    }
                }
            }
        }
    }
    // the two ways of configuring the builder - `.difficulty(&d)` and its own setters - under lazer DifficultyAdjust mods that
    // also carry a value for the attribute: the explicit value wins on both paths
    {
        use rosu_mods::{generated_mods as gm, GameMod};
        for (mode, da) in [
            ("osu", GameMod::DifficultyAdjustOsu(gm::DifficultyAdjustOsu { circle_size: Some(2.0), approach_rate: Some(3.0), drain_rate: Some(4.0), overall_difficulty: Some(1.0), ..Default::default() })),
            ("catch", GameMod::DifficultyAdjustCatch(gm::DifficultyAdjustCatch { circle_size: Some(2.0), approach_rate: Some(3.0), drain_rate: Some(4.0), overall_difficulty: Some(1.0), ..Default::default() })),
            ("taiko", GameMod::DifficultyAdjustTaiko(gm::DifficultyAdjustTaiko { drain_rate: Some(4.0), overall_difficulty: Some(1.0), ..Default::default() })),
        ] {
            let mut lm = rosu_mods::GameMods::new();
            lm.insert(da);
            let mut m = Beatmap::default();
            m.mode = gm(mode);
            for field in ["ar", "cs", "hp", "od"] {
                for wm in [false, true] {
                    agree += 1;
                    let y = 6.5f32;
                    let d = match field {
                        "ar" => Difficulty::new().mods(lm.clone()).ar(y, wm),
                        "cs" => Difficulty::new().mods(lm.clone()).cs(y, wm),
                        "hp" => Difficulty::new().mods(lm.clone()).hp(y, wm),
                        _ => Difficulty::new().mods(lm.clone()).od(y, wm),
                    };
                    let via_difficulty = guarded(|| format!("{:?}", m.attributes().difficulty(&d).build()));
                    let own = m.attributes().mods(lm.clone());
                    let own = match field {
                        "ar" => own.ar(y, wm),
                        "cs" => own.cs(y, wm),
                        "hp" => own.hp(y, wm),
                        _ => own.od(y, wm),
                    };
                    let via_setters = guarded(|| format!("{:?}", own.build()));
                    if via_difficulty != via_setters {
                        mism.push(json!({"what": "builder_difficulty_vs_setters_under_difficulty_adjust", "field": field, "mode": mode, "mods": "DA", "rate": Value::Null, "value": y, "with_mods": wm,
                            "expected": format!("{via_setters:?}").chars().take(400).collect::<String>(), "observed": format!("{via_difficulty:?}").chars().take(400).collect::<String>(), "osu_text": ""}));
                    }
                }
            }
        }
    }
    let mut by: BTreeMap<String, u64> = BTreeMap::new();
    for m in &mism {
        *by.entry(format!("{}/{}", m["what"].as_str().unwrap_or("?"), m["field"].as_str().or(m["case"]["mode"].as_str()).unwrap_or("-"))).or_default() += 1;
    }
    let mut seen: BTreeMap<String, u32> = BTreeMap::new();
    let mut records = Vec::new();
    for m in &mism {
        let c = seen.entry(format!("{}/{}", m["what"], m["field"])).or_default();
        if *c < 4 {
            *c += 1;
            records.push(m.clone());
        }
    }
    let samples: Vec<Value> = scenarios.iter().step_by((n / 3).max(1)).take(3).map(|s| json!({"mode": s.mode, "conv": s.conv, "field": s.field, "v": f(s.v), "with_mods": s.wm, "mods": s.mods, "rate": f(s.rate)})).collect();
    let out = json!({"scenarios": n, "calculator_agreement_checks": agree, "mismatches": mism.len(), "by_class": by, "records": records, "samples": samples});
    std::fs::write(&args[1], serde_json::to_string_pretty(&out).unwrap()).unwrap();
    println!("attrs-replay: grid_points={} calculator_agreement_checks={} mismatches={}", n, agree, mism.len());
    0
}
