//! C10 / C11: the strain list.  Replays every push sequence + lifecycle ending
//! TLC enumerated (MC_StrainsVec) on the real `StrainsVec` of THIS build
//! (compact by default, plain Vec with the `raw_strains` feature) and compares
//! entries and results with the model's column for that implementation.

#![cfg_attr(verif_degraded, allow(dead_code, unused_imports))]
use crate::util::*;
#[cfg(not(verif_degraded))]
use rosu_pp::verif::StrainsVec;
use serde::Deserialize;
use serde_json::{json, Value};
use std::collections::BTreeMap;

type Tok = (String, i64);

#[derive(Clone, Debug, Deserialize)]
struct Scenario {
    pushes: Vec<Tok>,
    op: String,
    compact: Vec<Tok>,
    raw: Vec<Tok>,
    entries: Vec<Tok>,
    same: bool,
}

pub const RAW: bool = cfg!(feature = "raw_strains");

fn value_of(t: &Tok) -> f64 {
    match t.0.as_str() {
        "pos" => t.1 as f64,
        "sub" => f64::from_bits(1),
        "pz" => 0.0,
        "nz" => -0.0,
        "neg" => -(t.1 as f64),
        "pnan" => f64::NAN.copysign(1.0),
        _ => f64::NAN.copysign(-1.0),
    }
}

/// the model's token for a real value
fn tok_of(v: f64) -> Tok {
    if v.is_nan() {
        return (if v.is_sign_positive() { "pnan" } else { "nnan" }.into(), 0);
    }
    if v == 0.0 {
        return (if v.is_sign_positive() { "pz" } else { "nz" }.into(), 0);
    }
    if v < 0.0 {
        return ("neg".into(), (-v) as i64);
    }
    if v < 1e-300 {
        return ("sub".into(), 0);
    }
    ("pos".into(), v.round() as i64)
}

/// degraded build (the crate-internal API this module drives no longer has the shape it was written against): nothing is
/// replayed here, the caller records that and decides on its other parts
#[cfg(verif_degraded)]
pub fn main(args: &[String]) -> i32 {
    std::fs::write(&args[1], r#"{"scenarios": 0, "degraded": true, "raw_build": false, "mismatches": 0, "by_class": {}, "records": [], "samples": []}"#).unwrap();
    println!("strainsvec-replay: DEGRADED build, internal StrainsVec API changed - nothing replayed");
    0
}

/// `strainsvec-replay <scenarios.ndjson> <out.json>`
#[cfg(not(verif_degraded))]
pub fn main(args: &[String]) -> i32 {
    silence_panics();
    let scenarios: Vec<Scenario> = read_ndjson(&args[0]).into_iter().map(|v| serde_json::from_value(v).expect("scenario shape")).collect();
    let n = scenarios.len();
    let res = par_map(n, n_threads(), |i| {
        let sc = &scenarios[i];
        let mut out: Vec<Value> = Vec::new();
        let mut bad = |what: &str, exp: String, obs: String| {
            out.push(json!({"what": what, "scenario_index": i, "pushes": sc.pushes, "op": sc.op, "raw_build": RAW, "expected": exp, "observed": obs}));
        };
        let r = guarded(|| {
            let mut v = StrainsVec::with_capacity(4);
            for t in &sc.pushes {
                v.push(value_of(t));
            }
            let entries = v.verif_entries();
            let len = v.len();
            let result: Vec<f64> = match sc.op.as_str() {
                "difficulty_value" => {
                    let mut p = v.clone();
                    p.retain_non_zero_and_sort();
                    // SAFETY (as in any/difficulty/skills.rs): zeros were just removed
                    unsafe { p.transmute_into_vec() }
                }
                "osu_difficulty_value" => {
                    let mut p = v.clone();
                    for s in p.sorted_non_zero_iter_mut().take(2) {
                        // 2m -> 2m - 1 : a factor in (0, 1) like the reduced-section scaling
                        if *s >= 1.0 {
                            *s *= (*s - 1.0) / *s;
                        }
                    }
                    p.sort_desc();
                    unsafe { p.transmute_into_vec() }
                }
                "sum" => vec![v.sum()],
                "into_vec" => v.clone().into_vec(),
                _ => {
                    let it = v.iter();
                    let hint = it.len();
                    let collected: Vec<f64> = it.collect();
                    assert_eq!(hint, collected.len(), "ExactSizeIterator::len of StrainsIter");
                    collected
                }
            };
            (entries, len, result)
        });
        let (entries, len, result) = match r {
            Ok(x) => x,
            Err(p) => {
                bad("panic", "no panic".into(), p);
                return out;
            }
        };
        if len != sc.pushes.len() {
            bad("len", sc.pushes.len().to_string(), len.to_string());
        }
        // entries (compact build: the run-length structure; raw build: one entry per push)
        // raw build: one entry per push, non-positive values stored as +0.0 (StrainsVec.tla RPush)
        let want_entries: Vec<Tok> = if RAW {
            sc.pushes.iter().map(|t| if matches!(t.0.as_str(), "pos" | "sub" | "pnan") { t.clone() } else { ("pz".into(), 0) }).collect()
        } else {
            sc.entries.clone()
        };
        let got_entries: Vec<Tok> = entries.iter().map(|(z, bits)| if *z { ("zeros".into(), *bits as i64) } else { tok_of(f64::from_bits(*bits)) }).collect();
        if want_entries != got_entries {
            bad("entries", format!("{want_entries:?}"), format!("{got_entries:?}"));
        }
        // results
        let model = if RAW { &sc.raw } else { &sc.compact };
        if sc.op == "sum" {
            // model: the summed terms; real: one number
            let want: f64 = model.iter().map(value_of).sum();
            let got = result[0];
            if !(want.is_nan() && got.is_nan()) && want != got {
                bad("sum", want.to_string(), got.to_string());
            }
        } else {
            let got: Vec<Tok> = result.iter().map(|v| tok_of(*v)).collect();
            // compact build: zero runs come back as +0.0 whatever the sign of the pushed zero (the model says pz)
            if *model != got {
                bad("result", format!("{model:?}"), format!("{got:?}"));
            }
        }
        out
    });
    let mism: Vec<Value> = res.into_iter().flatten().collect();
    let mut by: BTreeMap<String, u64> = BTreeMap::new();
    for m in &mism {
        *by.entry(format!("{}/{}", m["what"].as_str().unwrap_or("?"), m["op"].as_str().unwrap_or("-"))).or_default() += 1;
    }
    let samples: Vec<Value> = scenarios.iter().filter(|s| s.pushes.len() >= 3).step_by((n / 3).max(1)).take(3).map(|s| json!({"pushes": s.pushes, "op": s.op, "model_compact": s.compact, "model_raw": s.raw, "same": s.same})).collect();
    let out = json!({"scenarios": n, "raw_build": RAW, "mismatches": mism.len(), "by_class": by, "records": mism.iter().take(24).collect::<Vec<_>>(), "samples": samples});
    std::fs::write(&args[1], serde_json::to_string_pretty(&out).unwrap()).unwrap();
    println!("strainsvec-replay[{}]: scenarios={} mismatches={}", if RAW { "raw_strains" } else { "compact" }, n, mism.len());
    0
}
