//! C01 (determinism / purity) and C20 (threads).
//!  * `bpm-replay`: every timing setup of MC_Bpm, the chosen beat length vs the model's
//!    (each map queried repeatedly: every HashMap instance has fresh random keys).
//!  * `session-record`: executes every call history of MC_Session in THIS process and logs
//!    (key, digest, map digest) events for TraceSession; the driver runs it in several
//!    processes and validates the concatenation against one memo table.
//!  * `threads-record`: the same job list executed on real threads following the
//!    schedules of MC_Threads, logged in the same event vocabulary.

use crate::absmap::{concretize, profile, AbsObj};
use crate::gradual::random_objs;
use crate::settings::{cfgs, Cfg};
use crate::util::*;
use rand::{rngs::StdRng, SeedableRng};
use rosu_pp::model::mode::GameMode;
use rosu_pp::{Beatmap, GradualDifficulty, Performance};
use serde::Deserialize;
use serde_json::{json, Value};
use std::collections::HashMap;
use std::fmt::Write;

#[derive(Clone, Debug, Deserialize)]
struct Tp {
    t: i64,
    bl: i64,
}
#[derive(Clone, Debug, Deserialize)]
struct BpmScenario {
    tps: Vec<Tp>,
    last: i64,
    chosen: i64,
    tie: bool,
}

/// The most common beat length in exact arithmetic (times in units of 0.0001 ms), section rule of src/model/beatmap/bpm.rs: the
/// first section starts at 0, a section counts if it starts at or before the last object, ties go to the first appearance.
/// Returns (beat length, whether the winner is strictly ahead of every other candidate).
fn bpm_oracle(tps: &[(i128, i64)], last: i128) -> (i64, bool) {
    let mut totals: Vec<(i64, i128)> = Vec::new();
    let mut add = |bl: i64, curr: i128, next: i128| {
        let k = match totals.iter().position(|(b, _)| *b == bl) {
            Some(k) => k,
            None => { totals.push((bl, 0)); totals.len() - 1 }
        };
        if curr <= last {
            totals[k].1 += next - curr;
        }
    };
    match tps {
        [] => {}
        [only] => add(only.1, 0, last),
        [first, next, ..] => add(first.1, 0, next.0),
    }
    for k in 1..tps.len().saturating_sub(1) {
        add(tps[k].1, tps[k].0, tps[k + 1].0);
    }
    if tps.len() >= 2 {
        let l = tps[tps.len() - 1];
        add(l.1, l.0, last);
    }
    let Some(best) = totals.iter().map(|(_, t)| *t).max() else { return (0, true) };
    let winners = totals.iter().filter(|(_, t)| *t == best).count();
    (totals.iter().find(|(_, t)| *t == best).map_or(0, |(b, _)| *b), winners == 1)
}

/// `bpm-replay <scenarios.ndjson> <out.json>`
pub fn bpm_main(args: &[String]) -> i32 {
    silence_panics();
    let scenarios: Vec<BpmScenario> = read_ndjson(&args[0]).into_iter().map(|v| serde_json::from_value(v).expect("scenario shape")).collect();
    let n = scenarios.len();
    let res = par_map(n, n_threads(), |i| {
        let sc = &scenarios[i];
        let mut s = String::from("osu file format v14\n\n[TimingPoints]\n");
        for tp in &sc.tps {
            let _ = writeln!(s, "{},{},4,2,0,100,1,0", tp.t, tp.bl);
        }
        let _ = writeln!(s, "\n[HitObjects]\n256,192,{},1,0", sc.last);
        let Ok(map) = Beatmap::from_bytes(s.as_bytes()) else { return Some(json!({"what": "decode", "text": s})) };
        if map.timing_points.len() != sc.tps.len() {
            return Some(json!({"what": "machinery: timing points", "text": s}));
        }
        let want = if sc.chosen == 0 { f64::INFINITY } else { 60_000.0 / sc.chosen as f64 };
        let reps = if sc.tie { 24 } else { 3 };
        for _ in 0..reps {
            let got = map.bpm();
            if got != want {
                return Some(json!({"what": "bpm", "tie": sc.tie, "expected": want, "observed": got, "text": s, "scenario_index": i}));
            }
        }
        // the harness-side oracle (exact integers, units of 0.0001 ms) must agree with the model on the scenario as it is ...
        let exact: Vec<(i128, i64)> = sc.tps.iter().map(|tp| (i128::from(tp.t) * 10_000, tp.bl)).collect();
        let (oracle, _) = bpm_oracle(&exact, i128::from(sc.last) * 10_000);
        if oracle != sc.chosen {
            return Some(json!({"what": "machinery: bpm oracle", "expected": sc.chosen, "observed": oracle, "text": s}));
        }
        // ... and then decides the NEAR ties: the k-th timing point is moved by 0.0006 k ms, the last object by a little more, so
        // that durations the model has equal now differ by a fraction of a microsecond. The most common beat length is still the
        // one with the larger sum (no tolerance), and the answer is the same on every call.
        if sc.tps.len() >= 2 {
            let n = sc.tps.len() as i128;
            let moved: Vec<(i128, i64)> = exact.iter().enumerate().map(|(k, (t, bl))| (*t + 6 * k as i128, *bl)).collect();
            let last = i128::from(sc.last) * 10_000 + 6 * (n - 1) + 12;
            let fmt = |v: i128| format!("{}{}.{:04}", if v < 0 { "-" } else { "" }, v.abs() / 10_000, v.abs() % 10_000);
            let mut s2 = String::from("osu file format v14\n\n[TimingPoints]\n");
            for (t, bl) in &moved {
                let _ = writeln!(s2, "{},{},4,2,0,100,1,0", fmt(*t), bl);
            }
            let _ = writeln!(s2, "\n[HitObjects]\n256,192,{},1,0", fmt(last));
            if let Ok(map2) = Beatmap::from_bytes(s2.as_bytes()) {
                if map2.timing_points.len() == sc.tps.len() {
                    let (chosen2, clear) = bpm_oracle(&moved, last);
                    let first = map2.bpm();
                    for _ in 0..12 {
                        let again = map2.bpm();
                        if again.to_bits() != first.to_bits() {
                            return Some(json!({"what": "bpm differs between calls", "tie": sc.tie, "expected": first, "observed": again, "text": s2, "scenario_index": i}));
                        }
                    }
                    let want2 = if chosen2 == 0 { f64::INFINITY } else { 60_000.0 / chosen2 as f64 };
                    if clear && first != want2 {
                        return Some(json!({"what": "bpm (near tie)", "tie": sc.tie, "expected": want2, "observed": first, "text": s2, "scenario_index": i}));
                    }
                }
            }
        }
        None
    });
    let mism: Vec<Value> = res.into_iter().flatten().collect();
    let ties = scenarios.iter().filter(|s| s.tie).count();
    let out = json!({"scenarios": n, "tie_scenarios": ties, "mismatches": mism.len(), "records": mism.iter().take(12).collect::<Vec<_>>(),
        "samples": scenarios.iter().filter(|s| s.tie).take(2).map(|s| json!({"tps": s.tps.iter().map(|t| (t.t, t.bl)).collect::<Vec<_>>(), "last": s.last, "chosen": s.chosen})).collect::<Vec<_>>()});
    std::fs::write(&args[1], serde_json::to_string_pretty(&out).unwrap()).unwrap();
    println!("bpm-replay: scenarios={} (ties: {}) mismatches={}", n, ties, mism.len());
    0
}

#[derive(Clone, Debug, Deserialize)]
pub struct Call {
    pub op: String,
    pub m: String,
    pub cfg: String,
    pub h: String,
}
#[derive(Clone, Debug, Deserialize)]
struct History {
    calls: Vec<Call>,
}

pub struct Pool {
    pub texts: HashMap<String, String>,
    pub cfgs: HashMap<String, Cfg>,
}

fn obj(k: &str, rep: u32, ticks: u32, dur: u32, snd: u32) -> AbsObj {
    AbsObj { k: k.into(), rep, ticks, dur, gap: 0, pos: 0, snd }
}

/// The concrete maps and settings behind the abstract names of MC_Session / MC_Threads (numbers chosen by seed).
/// m1 osu (convertible, sliders, spinner), m2 taiko, m3 catch, m4 mania.
pub fn pool(seed: u64) -> Pool {
    let mut rng = StdRng::seed_from_u64(seed ^ 0x5e55);
    let mut texts = HashMap::new();
    let mut objs = vec![obj("C", 0, 0, 0, 1), obj("S", 1, 1, 0, 2), obj("C", 0, 0, 0, 0), obj("S", 0, 0, 0, 3), obj("P", 0, 0, 0, 0), obj("C", 0, 0, 0, 2)];
    objs.extend(random_objs(&mut rng, "osu", 6));
    let t = concretize("osu", &objs, &profile(seed as u32));
    // a second uninherited section and an inherited kiai section
    let t = t.replacen("\n\n[HitObjects]", "\n4000,400,4,2,0,100,1,0\n8000,-50,4,2,0,100,0,1\n\n[HitObjects]", 1);
    texts.insert("m1".to_string(), t);
    // m2..m4: a window of the real fixture of the mode (real rhythm / timing detail), synthetic fallback
    for (name, mode, n, id) in [("m2", "taiko", 90usize, "1028484"), ("m3", "catch", 60, "2118524"), ("m4", "mania", 90, "1638954")] {
        let text = std::fs::read_to_string(format!("/repo/resources/{id}.osu")).ok().and_then(|t| {
            let ls: Vec<&str> = t.lines().collect();
            let ho = ls.iter().position(|l| l.trim() == "[HitObjects]")?;
            let start = ho + 1 + (seed as usize * 37) % (ls.len() - ho - 1 - n).max(1);
            let mut keep: Vec<&str> = ls[..=ho].to_vec();
            keep.extend(ls[start..(start + n).min(ls.len())].iter());
            Some(keep.join("\n"))
        });
        let text = text.unwrap_or_else(|| {
            let o = random_objs(&mut rng, mode, 14);
            concretize(mode, &o, &profile(seed as u32 + n as u32))
        });
        texts.insert(name.to_string(), text);
    }
    // m5: a second osu! map (every 2nd object of a window of the osu! fixture: about 3 objects per second, conversion difficulty
    // just below 4 where m1's is about 2); m6: the SAME objects under other HP / AR values (conversion difficulty above 4):
    // equal in address-and-size terms, different in content
    if let Ok(t) = std::fs::read_to_string("/repo/resources/2785319.osu") {
        let ls: Vec<&str> = t.lines().collect();
        if let Some(ho) = ls.iter().position(|l| l.trim() == "[HitObjects]") {
            let n = 140usize;
            let start = ho + 1 + (seed as usize * 53 + 200) % (ls.len() - ho - 1 - n).max(1);
            let mut keep: Vec<&str> = ls[..=ho].to_vec();
            keep.extend(ls[start..(start + n).min(ls.len())].iter().step_by(2));
            let m5 = keep.join("\n");
            let m6: String = m5.lines().map(|l| if l.starts_with("HPDrainRate") { "HPDrainRate:10".to_string() } else if l.starts_with("ApproachRate") { "ApproachRate:7".to_string() } else { l.to_string() }).collect::<Vec<_>>().join("\n");
            texts.insert("m5".to_string(), m5);
            texts.insert("m6".to_string(), m6);
        }
    }
    // m7: m5 with every object time halved (same object count, other content): the third occupant of the "slot"
    if let Some(m5) = texts.get("m5").cloned() {
        let mut in_objs = false;
        let m7: String = m5.lines().map(|l| {
            if l.trim() == "[HitObjects]" {
                in_objs = true;
                return l.to_string();
            }
            if !in_objs || l.trim().is_empty() {
                return l.to_string();
            }
            let mut f: Vec<String> = l.split(',').map(str::to_string).collect();
            if f.len() >= 5 {
                if let Ok(t) = f[2].trim().parse::<f64>() {
                    f[2] = format!("{}", (t / 2.0).floor());
                }
                let ty: u32 = f[3].trim().parse().unwrap_or(0);
                if ty & 8 != 0 && f.len() >= 6 {
                    if let Ok(e) = f[5].trim().parse::<f64>() {
                        f[5] = format!("{}", (e / 2.0).floor());
                    }
                }
            }
            f.join(",")
        }).collect::<Vec<_>>().join("\n");
        texts.insert("m7".to_string(), m7);
    }
    if !texts.contains_key("m5") {
        let o = random_objs(&mut rng, "osu", 20);
        texts.insert("m5".to_string(), concretize("osu", &o, &profile(seed as u32 + 5)));
        texts.insert("m6".to_string(), concretize("osu", &o, &profile(seed as u32 + 6)));
        let o7 = random_objs(&mut rng, "osu", 20);
        texts.insert("m7".to_string(), concretize("osu", &o7, &profile(seed as u32 + 5)));
    }
    let all = cfgs("quick");
    let mut c = HashMap::new();
    c.insert("A".to_string(), all[1].clone());
    c.insert("B".to_string(), all[3].clone());
    c.insert("-".to_string(), all[0].clone());
    // lazer mods with settings: taiko DifficultyAdjust scroll speed, and a different overall difficulty
    c.insert("C".to_string(), Cfg { mods: 0, da_scroll: Some(2.0), od: Some((9.5, false)), random_seed: Some(7), ..Default::default() });
    // the lazer-only Invert mod (mania)
    c.insert("I".to_string(), Cfg::default().with_acronyms("IN"));
    // settings that differ only in their mods (for reused builder values)
    c.insert("N".to_string(), Cfg::default());
    c.insert("T".to_string(), Cfg { mods: 64, ..Default::default() });
    // key mods (the target column count of a mania conversion)
    c.insert("K4".to_string(), Cfg::default().with_acronyms("4K"));
    c.insert("K7".to_string(), Cfg::default().with_acronyms("7K"));
    // lazer DifficultyAdjust overrides that leave everything else as in "N": osu! circle size 7, catch circle size 7
    c.insert("E".to_string(), Cfg { da_cs: Some((7.0, 0)), ..Default::default() });
    c.insert("F".to_string(), Cfg { da_cs: Some((7.0, 2)), ..Default::default() });
    // the lazer Random mod without a seed (taiko / mania set)
    c.insert("R1".to_string(), Cfg { random_unseeded: Some(1), ..Default::default() });
    c.insert("R3".to_string(), Cfg { random_unseeded: Some(3), ..Default::default() });
    c.insert("D".to_string(), Cfg { mods: 16, da_scroll: Some(0.5), od: Some((2.0, false)), clock_rate: Some(0.8), random_seed: Some(1234), ..Default::default() });
    Pool { texts, cfgs: c }
}

pub const GSTEPS: usize = 4;

/// Steps per "gnext" job: h1 / h2 advance in chunks of 4; the other handles take 9 objects on their first call
/// (well past the objects without a difficulty object, into the region where strains differ) and then single steps, so that two
/// calculators can be driven in lockstep over the same object index.
pub fn gsteps(handle: &str, nth_call: u64) -> usize {
    match handle {
        "h1" | "h2" => GSTEPS,
        _ => {
            if nth_call == 1 {
                9
            } else {
                1
            }
        }
    }
}

fn digest(s: &str) -> String {
    format!("{:016x}", hash_str(s))
}

pub struct Runner<'a> {
    pub pool: &'a Pool,
    pub maps: HashMap<String, Beatmap>,
    pub grads: HashMap<String, (GradualDifficulty, u64)>,
    /// the builder value that "rcalc" calls keep using within one history
    pub reused: Option<rosu_pp::Difficulty>,
    /// ... and the performance builder (over an owned copy of the map) that "rperf" calls keep using
    pub reused_perf: Option<Performance<'static>>,
    /// ONE heap location that "slot" calls overwrite in place with another map before calculating on it
    pub slot: Box<Beatmap>,
}

impl<'a> Runner<'a> {
    pub fn new(pool: &'a Pool) -> Self {
        let maps = pool.texts.iter().map(|(k, t)| (k.clone(), Beatmap::from_bytes(t.as_bytes()).expect("pool map decodes"))).collect();
        Self { pool, maps, grads: HashMap::new(), reused: None, reused_perf: None, slot: Box::new(Beatmap::default()) }
    }

    /// Execute one call; returns (key, digest, panic).
    pub fn call(&mut self, c: &Call) -> (String, String, bool) {
        let cfg = &self.pool.cfgs[&c.cfg.replace("taiko", "-").replace("mania", "-").replace("catch", "-").replace("osu", "-")];
        let d = cfg.difficulty();
        let text = &self.pool.texts[&c.m];
        let mut key = format!("{}/{}/{}", c.op, c.m, c.cfg);
        let r = guarded(|| match c.op.as_str() {
            "decode" => format!("{:?}", Beatmap::from_bytes(text.as_bytes())),
            "bpm" => format!("{:?}", self.maps[&c.m].bpm()),
            "convert" => {
                let mode = if c.cfg == "taiko" { GameMode::Taiko } else { GameMode::Mania };
                format!("{:?}", self.maps[&c.m].convert_ref(mode, &cfg.game_mods()).map(|m| m.into_owned()))
            }
            "calc" => format!("{:?}", d.calculate(&self.maps[&c.m])),
            // a REUSED builder value: the Difficulty of the previous rcalc of this history gets the mods of these settings and
            // calculates again (the value is otherwise default, so the result must be the one of a fresh builder with these mods)
            "rcalc" => {
                let prev = self.reused.take().unwrap_or_default();
                let d2 = prev.mods(cfg.game_mods());
                let out = format!("{:?}", d2.calculate(&self.maps[&c.m]));
                self.reused = Some(d2);
                out
            }
            // a REUSED performance builder: it has calculated before (on a clone, so it still holds the map) and now gets the mods
            // of these settings
            "rperf" => {
                let prev = self.reused_perf.take().unwrap_or_else(|| Performance::new(self.maps[&c.m].clone()));
                let p = prev.mods(cfg.game_mods()).accuracy(96.5).misses(1);
                let out = format!("{:?}", p.clone().calculate());
                self.reused_perf = Some(p);
                out
            }
            // the slot is overwritten IN PLACE (same address; m5 / m6 / m7 have the same number of objects) and used at once
            "slot" => {
                *self.slot = self.maps[&c.m].clone();
                let plain = rosu_pp::Difficulty::new();
                match c.cfg.as_str() {
                    "taiko" => format!("{:?} {:?}", plain.calculate_for_mode::<rosu_pp::taiko::Taiko>(&self.slot), self.slot.convert_ref(GameMode::Taiko, &0u32.into()).map(|m| m.hit_objects.len())),
                    "mania" => format!("{:?}", plain.calculate_for_mode::<rosu_pp::mania::Mania>(&self.slot)),
                    "catch" => format!("{:?}", plain.calculate_for_mode::<rosu_pp::catch::Catch>(&self.slot)),
                    _ => format!("{:?} {:?}", plain.calculate(&self.slot), self.slot.bpm()),
                }
            }
            "strains" => format!("{:?}", d.strains(&self.maps[&c.m])),
            "perf" => format!("{:?}", Performance::new(&self.maps[&c.m]).difficulty(d.clone()).accuracy(94.2).misses(1).calculate()),
            "attrs" => format!("{:?}", self.maps[&c.m].attributes().difficulty(&d).build()),
            "calccatch" => format!("{:?}", d.calculate_for_mode::<rosu_pp::catch::Catch>(&self.maps[&c.m])),
            "gnext" => {
                let map = &self.maps[&c.m];
                let e = self.grads.entry(c.h.clone()).or_insert_with(|| (GradualDifficulty::new(d.clone(), map), 0));
                e.1 += 1;
                key = format!("{}/{}/{}/{}", c.op, c.m, c.cfg, e.1);
                // one "gnext" = several consecutive next() calls (differences may only show after several objects)
                (0..gsteps(&c.h, e.1)).map(|_| format!("{:?}", e.0.next())).collect::<Vec<_>>().join("|")
            }
            other => format!("unknown op {other}"),
        });
        match r {
            Ok(s) => (key, digest(&s), false),
            Err(p) => (key, digest(&p), true),
        }
    }

    pub fn map_digest(&self, m: &str) -> String {
        digest(&format!("{:?}", self.maps[m]))
    }
}

/// `session-record <histories.ndjson> <out.ndjson> --proc P`
pub fn record_main(args: &[String]) -> i32 {
    silence_panics();
    let proc_id: String = args.iter().position(|a| a == "--proc").map(|i| args[i + 1].clone()).unwrap_or("0".into());
    let seed: u64 = std::env::var("VERIF_SEED").ok().and_then(|s| s.parse().ok()).unwrap_or(0);
    let histories: Vec<History> = read_ndjson(&args[0]).into_iter().map(|v| serde_json::from_value(v).expect("history shape")).collect();
    let pool = pool(seed);
    let mut lines = Vec::new();
    // one Runner per history (fresh gradual handles), maps are decoded once per history as well: "fresh vs reused" values.
    // The processes differ in what precedes a history on its thread, so that state left behind by EARLIER histories (statics,
    // thread-locals, caches keyed by an address) cannot be the same everywhere: process 0 runs the histories in model order,
    // process 1 in reverse order, process 2 gives every history a fresh thread; further processes repeat the pattern.
    let pnum: usize = proc_id.parse().unwrap_or(0);
    let order: Vec<usize> = if pnum % 3 == 1 { (0..histories.len()).rev().collect() } else { (0..histories.len()).collect() };
    let fresh_threads = pnum % 3 == 2;
    let mut shared = Runner::new(&pool);
    for hi in order {
        let h = &histories[hi];
        let fresh_maps = hi % 2 == 0;
        let run = |r: &mut Runner| -> Vec<String> {
            r.grads.clear();
            r.reused = None;
            r.reused_perf = None;
            let mut out = Vec::new();
            for c in &h.calls {
                let (key, dg, panic) = r.call(c);
                out.push(json!({"proc": proc_id, "hist": hi, "key": key, "digest": dg, "panic": panic, "map": c.m, "mapdigest": r.map_digest(&c.m)}).to_string());
            }
            out
        };
        if fresh_threads {
            let got = std::thread::scope(|s| s.spawn(|| { let mut own = Runner::new(&pool); run(&mut own) }).join());
            match got {
                Ok(v) => lines.extend(v),
                Err(_) => lines.push(json!({"proc": proc_id, "hist": hi, "key": "thread", "digest": "panic", "panic": true, "map": "-", "mapdigest": "-"}).to_string()),
            }
        } else if fresh_maps {
            let mut own = Runner::new(&pool);
            lines.extend(run(&mut own));
        } else {
            lines.extend(run(&mut shared));
        }
    }
    let n = lines.len();
    std::fs::write(&args[1], lines.join("\n") + "\n").unwrap();
    println!("session-record[proc {proc_id}]: histories={} events={}", histories.len(), n);
    0
}

// ---------------------------------------------------------------------------
// C20: schedules of MC_Threads replayed on real threads

use std::sync::mpsc;
#[allow(unused_imports)]
use std::sync::{Arc, Mutex};

#[derive(Clone, Debug, Deserialize)]
struct SchedEv {
    e: String,
    j: usize,
    t: usize,
}
#[derive(Clone, Debug, Deserialize)]
struct Schedule {
    jobs: Vec<Call>,
    sched: Vec<SchedEv>,
}

type Shared = Arc<HashMap<String, Beatmap>>;
#[cfg(feature = "sync")]
type HandleSlot = Arc<Mutex<HashMap<String, (GradualDifficulty, u64)>>>;

fn exec_plain(pool: &Pool, maps: &Shared, c: &Call) -> (String, String, bool) {
    let cfg = pool.cfgs.get(&c.cfg).unwrap_or(&pool.cfgs["-"]);
    let d = cfg.difficulty();
    let key = format!("{}/{}/{}", c.op, c.m, c.cfg);
    let r = guarded(|| match c.op.as_str() {
        "calc" => format!("{:?}", d.calculate(&maps[&c.m])),
        "strains" => format!("{:?}", d.strains(&maps[&c.m])),
        "perf" => format!("{:?}", Performance::new(&maps[&c.m]).difficulty(d.clone()).accuracy(94.2).misses(1).calculate()),
        "bpm" => format!("{:?}", maps[&c.m].bpm()),
        // performance under Relax / Autopilot / Flashlight with score parameters that differ from job to job (per-call
        // parameters - effective miss count, mod flags - must live in the call, not in a static)
        "perfrx" | "perfap" | "perffl" => {
            let bits = match c.op.as_str() { "perfrx" => 128u32, "perfap" => 8192, _ => 1024 | 128 };
            let k: u32 = c.cfg.trim_start_matches('P').parse().unwrap_or(1);
            format!("{:?}", Performance::new(&maps[&c.m]).mods(bits).n100(3 * k).n50(k).misses(2 * k).combo(5 + 7 * k).calculate())
        }
        "attrs" => format!("{:?}", maps[&c.m].attributes().difficulty(&d).build()),
        "calccatch" => format!("{:?}", d.calculate_for_mode::<rosu_pp::catch::Catch>(&maps[&c.m])),
        "decode" => format!("{:?}", Beatmap::from_bytes(pool.texts[&c.m].as_bytes())),
        // conversions (the settings' mods decide the key count), by reference, and the calculation for a target mode on the source
        "tomania" => format!("{:?}", maps[&c.m].convert_ref(GameMode::Mania, &cfg.game_mods()).map(|m| m.into_owned())),
        "totaiko" => format!("{:?}", maps[&c.m].convert_ref(GameMode::Taiko, &cfg.game_mods()).map(|m| m.into_owned())),
        "tocatch" => format!("{:?}", maps[&c.m].convert_ref(GameMode::Catch, &cfg.game_mods()).map(|m| m.into_owned())),
        "calcmania" => format!("{:?}", d.calculate_for_mode::<rosu_pp::mania::Mania>(&maps[&c.m])),
        other => format!("unsupported op {other}"),
    });
    match r {
        Ok(s) => (key, digest(&s), false),
        Err(p) => (key, digest(&p), true),
    }
}

/// `threads-record <schedules.ndjson> <out.ndjson> --stress N`
pub fn threads_main(args: &[String]) -> i32 {
    silence_panics();
    let seed: u64 = std::env::var("VERIF_SEED").ok().and_then(|s| s.parse().ok()).unwrap_or(0);
    let stress: usize = args.iter().position(|a| a == "--stress").map(|i| args[i + 1].parse().unwrap()).unwrap_or(20);
    let schedules: Vec<Schedule> = read_ndjson(&args[0]).into_iter().map(|v| serde_json::from_value(v).expect("schedule shape")).collect();
    let pool = Arc::new(pool(seed));
    let maps: Shared = Arc::new(pool.texts.iter().map(|(k, t)| (k.clone(), Beatmap::from_bytes(t.as_bytes()).expect("decodes"))).collect());
    let mapdigest = |m: &str| digest(&format!("{:?}", maps[m]));
    let mut lines: Vec<String> = Vec::new();
    let mut skipped = 0;
    // sequential baseline of every job list first: it fills the memo table
    let mut seen_lists: Vec<String> = Vec::new();
    for sc in &schedules {
        let sig = format!("{:?}", sc.jobs);
        if seen_lists.contains(&sig) {
            continue;
        }
        seen_lists.push(sig);
        let mut r = Runner::new(&pool);
        for c in &sc.jobs {
            let (key, dg, panic) = r.call(c);
            lines.push(json!({"proc": "sequential", "hist": 0, "key": key, "digest": dg, "panic": panic, "map": c.m, "mapdigest": r.map_digest(&c.m)}).to_string());
        }
    }
    for (si, sc) in schedules.iter().enumerate() {
        let has_handle = sc.jobs.iter().any(|c| c.op == "gnext");
        if has_handle && !cfg!(feature = "sync") {
            skipped += 1;
            continue;
        }
        let nthreads = sc.sched.iter().map(|e| e.t).max().unwrap_or(1);
        #[cfg(feature = "sync")]
        let handles: HandleSlot = Arc::new(Mutex::new(HashMap::new()));
        let (res_tx, res_rx) = mpsc::channel::<(usize, String, String, bool)>();
        let mut job_txs = Vec::new();
        let mut joins = Vec::new();
        for _ in 0..nthreads {
            let (tx, rx) = mpsc::channel::<Option<(usize, Call)>>();
            job_txs.push(tx);
            let res_tx = res_tx.clone();
            let pool = pool.clone();
            let maps = maps.clone();
            #[cfg(feature = "sync")]
            let handles = handles.clone();
            joins.push(std::thread::spawn(move || {
                while let Ok(Some((j, c))) = rx.recv() {
                    let out = if c.op == "gnext" {
                        #[cfg(feature = "sync")]
                        {
                            // hand-over: take the calculator out of the shared slot, step it on THIS thread, put it back
                            let taken = handles.lock().unwrap().remove(&c.h);
                            let cfg = &pool.cfgs[&c.cfg];
                            let (mut g, n) = taken.unwrap_or_else(|| (GradualDifficulty::new(cfg.difficulty(), &maps[&c.m]), 0));
                            let r = guarded(|| (0..gsteps(&c.h, n + 1)).map(|_| format!("{:?}", g.next())).collect::<Vec<_>>().join("|"));
                            let n = n + 1;
                            handles.lock().unwrap().insert(c.h.clone(), (g, n));
                            let key = format!("{}/{}/{}/{}", c.op, c.m, c.cfg, n);
                            match r {
                                Ok(s) => (key, digest(&s), false),
                                Err(p) => (key, digest(&p), true),
                            }
                        }
                        #[cfg(not(feature = "sync"))]
                        {
                            ("unsupported".to_string(), String::new(), true)
                        }
                    } else {
                        exec_plain(&pool, &maps, &c)
                    };
                    let _ = res_tx.send((j, out.0, out.1, out.2));
                }
            }));
        }
        let mut pending: HashMap<usize, (String, String, bool)> = HashMap::new();
        for ev in &sc.sched {
            if ev.e == "B" {
                let _ = job_txs[ev.t - 1].send(Some((ev.j, sc.jobs[ev.j - 1].clone())));
            } else {
                // await the End of job j (results of other jobs that finished earlier are parked)
                while !pending.contains_key(&ev.j) {
                    let (j, k, d, p) = res_rx.recv().expect("worker alive");
                    pending.insert(j, (k, d, p));
                }
                let (k, d, p) = pending.remove(&ev.j).unwrap();
                let m = &sc.jobs[ev.j - 1].m;
                lines.push(json!({"proc": format!("schedule {si} thread {}", ev.t), "hist": si, "key": k, "digest": d, "panic": p, "map": m, "mapdigest": mapdigest(m)}).to_string());
            }
        }
        for tx in &job_txs {
            let _ = tx.send(None);
        }
        for j in joins {
            let _ = j.join();
        }
    }
    // stress: the plain jobs on many threads at once, no coordination
    // every (map, settings, operation) combination, so that any state shared between calls with DIFFERENT inputs shows
    let mut plain: Vec<Call> = Vec::new();
    for m in ["m1", "m2", "m3", "m4", "m5"] {
        for cfg in ["A", "B", "C", "D", "I"] {
            for op in ["calc", "strains", "perf"] {
                plain.push(Call { op: op.into(), m: m.into(), cfg: cfg.into(), h: "-".into() });
            }
        }
    }
    // decoding and bpm() next to the calculations (shared text / shared map)
    for m in ["m1", "m2", "m3", "m4", "m5"] {
        for op in ["decode", "bpm"] {
            plain.push(Call { op: op.into(), m: m.into(), cfg: "-".into(), h: "-".into() });
        }
    }
    // conversions of the two osu! maps under different key counts: several DIFFERENT conversions in flight at once
    for m in ["m1", "m5"] {
        for cfg in ["-", "K4", "K7"] {
            for op in ["tomania", "calcmania"] {
                plain.push(Call { op: op.into(), m: m.into(), cfg: cfg.into(), h: "-".into() });
            }
        }
        for op in ["totaiko", "tocatch"] {
            plain.push(Call { op: op.into(), m: m.into(), cfg: "-".into(), h: "-".into() });
        }
    }
    // performance calculations that differ only in their score parameters, under mods with extra per-score terms
    for m in ["m1", "m5", "m2"] {
        for op in ["perfrx", "perfap", "perffl"] {
            for k in ["P1", "P2", "P5"] {
                plain.push(Call { op: op.into(), m: m.into(), cfg: k.into(), h: "-".into() });
            }
        }
    }
    // the unseeded lazer Random mod
    for (m, cfg) in [("m2", "R1"), ("m4", "R3")] {
        for op in ["calc", "strains", "perf"] {
            plain.push(Call { op: op.into(), m: m.into(), cfg: cfg.into(), h: "-".into() });
        }
    }
    // jobs that differ ONLY in a lazer DifficultyAdjust override (same map values, same HR / EZ, same clock rate)
    for (m, cfgs, ops) in [("m1", ["N", "E"], ["calc", "attrs", "perf"]), ("m5", ["N", "E"], ["calc", "attrs", "perf"]), ("m3", ["N", "F"], ["calc", "attrs", "perf"]), ("m1", ["N", "F"], ["calccatch", "calccatch", "calccatch"])] {
        for cfg in cfgs {
            for op in ops {
                if !plain.iter().any(|c| c.op == op && c.m == m && c.cfg == cfg) {
                    plain.push(Call { op: op.into(), m: m.into(), cfg: cfg.into(), h: "-".into() });
                }
            }
        }
    }
    {
        // sequential baseline for the stress jobs
        let mut r = Runner::new(&pool);
        for c in &plain {
            let (key, dg, panic) = exec_plain(&pool, &maps, c);
            let _ = &mut r;
            lines.push(json!({"proc": "sequential", "hist": 0, "key": key, "digest": dg, "panic": panic, "map": c.m, "mapdigest": mapdigest(&c.m)}).to_string());
        }
    }
    let nt = n_threads().min(16);
    for round in 0..stress {
        let outs: Vec<Vec<(String, String, bool, String)>> = std::thread::scope(|s| {
            let hs: Vec<_> = (0..nt)
                .map(|t| {
                    let pool = &pool;
                    let maps = &maps;
                    let plain = &plain;
                    s.spawn(move || {
                        let mut v = Vec::new();
                        for k in 0..plain.len() {
                            let c = &plain[(k * (2 * t + 1) + 5 * t) % plain.len()];
                            let (key, d, p) = exec_plain(pool, maps, c);
                            v.push((key, d, p, c.m.clone()));
                        }
                        v
                    })
                })
                .collect();
            hs.into_iter().map(|h| h.join().unwrap()).collect()
        });
        for (t, v) in outs.into_iter().enumerate() {
            for (key, d, p, m) in v {
                lines.push(json!({"proc": format!("stress {round} thread {t}"), "hist": round, "key": key, "digest": d, "panic": p, "map": m, "mapdigest": mapdigest(&m)}).to_string());
            }
        }
    }
    let n = lines.len();
    std::fs::write(&args[1], lines.join("\n") + "\n").unwrap();
    println!("threads-record[{}]: schedules={} skipped_handover_schedules={} events={}", if cfg!(feature = "sync") { "sync" } else { "default" }, schedules.len(), skipped, n);
    0
}
