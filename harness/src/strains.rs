//! C16: strain output vs the ratings it explains.
//!  * section counts predicted by StrainSkill.tla for every enumerated time
//!    sequence and clock rate vs the real strain vectors of all four modes;
//!  * all skills of a mode report the same number of sections, every value is
//!    finite and non-negative;
//!  * re-aggregating the RETURNED peaks with the documented decay-weighted sum
//!    reproduces the reported catch / mania star rating and the osu! flashlight
//!    rating.

use crate::absmap::{concretize, profile};
use crate::gradual::random_objs;
use crate::settings::cfgs;
use crate::util::*;
use rand::{rngs::StdRng, Rng, SeedableRng};
use rosu_pp::any::{DifficultyAttributes, Strains};
use rosu_pp::{Beatmap, Difficulty};
use serde::Deserialize;
use serde_json::{json, Value};
use std::collections::BTreeMap;
use std::fmt::Write;

#[derive(Clone, Debug, Deserialize)]
struct Scenario {
    times: Vec<i64>,
    rate2: i64,
    sections: BTreeMap<String, usize>,
}

fn skills(s: &Strains) -> Vec<(&'static str, &Vec<f64>)> {
    match s {
        Strains::Osu(o) => vec![("aim", &o.aim), ("aim_no_sliders", &o.aim_no_sliders), ("speed", &o.speed), ("flashlight", &o.flashlight)],
        Strains::Taiko(t) => vec![("color", &t.color), ("reading", &t.reading), ("rhythm", &t.rhythm), ("stamina", &t.stamina), ("single_color_stamina", &t.single_color_stamina)],
        Strains::Catch(c) => vec![("movement", &c.movement)],
        Strains::Mania(m) => vec![("strains", &m.strains)],
    }
}

fn weighted(peaks: &[f64], w: f64) -> f64 {
    let mut p: Vec<f64> = peaks.iter().copied().filter(|x| *x > 0.0).collect();
    p.sort_by(|a, b| b.total_cmp(a));
    let mut d = 0.0;
    let mut weight = 1.0;
    for s in p {
        d += s * weight;
        weight *= w;
    }
    d
}

fn rel_close(a: f64, b: f64, tol: f64) -> bool {
    a == b || (a - b).abs() <= tol * a.abs().max(b.abs())
}

/// check one (map, difficulty): equal lengths, finite non-negative values, re-aggregation
/// the mod flags as the library itself reads them from the mod set (hook `GameMods::verif_flags`): a lazer set of
/// another mode may not carry a legacy bit (e.g. Relax has no mania variant)
fn mods_flag(mods: &rosu_pp::GameMods, name: &str) -> bool {
    mods.verif_flags(true).iter().any(|(k, v)| *k == name && v == "true")
}

fn check_map(map: &Beatmap, d: &Difficulty, label: &str, mods: &rosu_pp::GameMods, out: &mut Vec<Value>) -> Option<usize> {
    let r = guarded(|| (d.strains(map), d.calculate(map)));
    let Ok((strains, attrs)) = r else {
        out.push(json!({"what": "panic", "label": label}));
        return None;
    };
    let sk = skills(&strains);
    let len0 = sk[0].1.len();
    for (name, v) in &sk {
        if v.len() != len0 {
            out.push(json!({"what": "skills_differ_in_sections", "label": label, "expected": len0, "observed": format!("{name}: {}", v.len())}));
        }
        if let Some(x) = v.iter().find(|x| !x.is_finite() || **x < 0.0) {
            out.push(json!({"what": "strain_not_finite_non_negative", "label": label, "expected": "finite >= 0", "observed": format!("{name}: {x}")}));
        }
    }
    match (&strains, &attrs) {
        (Strains::Mania(s), DifficultyAttributes::Mania(a)) => {
            let want = weighted(&s.strains, 0.9) * 0.018;
            if !rel_close(want, a.stars, 1e-12) {
                out.push(json!({"what": "mania_stars_from_peaks", "label": label, "expected": want, "observed": a.stars}));
            }
        }
        (Strains::Catch(s), DifficultyAttributes::Catch(a)) => {
            let want = weighted(&s.movement, 0.94).sqrt() * 4.59;
            if !rel_close(want, a.stars, 1e-12) {
                out.push(json!({"what": "catch_stars_from_peaks", "label": label, "expected": want, "observed": a.stars}));
            }
        }
        (Strains::Taiko(s), DifficultyAttributes::Taiko(a)) => {
            // every taiko skill rating is the weighted sum of its peaks times the skill multiplier (the rhythm skill depends on the
            // great hit window: the strains path must read the same settings - clock rate, OD override - as the attributes path)
            const D: f64 = 0.084375;
            for (name, peaks, mult, got) in [("rhythm", &s.rhythm, 0.65 * D, a.rhythm), ("reading", &s.reading, 0.100 * D, a.reading),
                                             ("color", &s.color, 0.375 * D, a.color), ("stamina", &s.stamina, 0.445 * D, a.stamina)] {
                let want = weighted(peaks, 0.9) * mult;
                if !rel_close(want, got, 1e-9) {
                    out.push(json!({"what": "taiko_rating_from_peaks", "label": format!("{label} [{name}]"), "expected": want, "observed": got}));
                }
            }
        }
        (Strains::Osu(s), DifficultyAttributes::Osu(a)) => {
            let sum: f64 = s.flashlight.iter().sum();
            let mut want = sum.sqrt() * 0.0675;
            if mods_flag(mods, "td") {
                want = want.powf(0.8);
            }
            if mods_flag(mods, "rx") {
                want *= 0.7;
            } else if mods_flag(mods, "ap") {
                want *= 0.4;
            }
            if !rel_close(want, a.flashlight, 1e-9) {
                out.push(json!({"what": "osu_flashlight_from_peaks", "label": label, "expected": want, "observed": a.flashlight}));
            }
        }
        _ => {}
    }
    Some(len0)
}

fn render_circles(mode: &str, times: &[i64]) -> String {
    let m = crate::absmap::mode_num(mode);
    let mut s = String::new();
    let _ = writeln!(s, "osu file format v14\n\n[General]\nMode: {m}\n\n[Difficulty]\nHPDrainRate:5\nCircleSize:4\nOverallDifficulty:7\nApproachRate:8\nSliderMultiplier:1.4\nSliderTickRate:1\n");
    let _ = writeln!(s, "[TimingPoints]\n-1000,500,4,2,0,100,1,0\n\n[HitObjects]");
    for (i, t) in times.iter().enumerate() {
        let x = if mode == "mania" { 64 + 128 * ((i * 3) % 4) } else { 60 + 97 * ((i * 3) % 5) };
        let y = if mode == "mania" { 192 } else { 70 + 61 * ((i * 2) % 4) };
        let _ = writeln!(s, "{x},{y},{t},1,{}", [0, 8, 0, 2][i % 4]);
    }
    s
}

/// `strains-replay <scenarios.ndjson> <out.json> --tier T`
pub fn main(args: &[String]) -> i32 {
    silence_panics();
    let tier = args.iter().position(|a| a == "--tier").map(|i| args[i + 1].clone()).unwrap_or("quick".into());
    let seed: u64 = std::env::var("VERIF_SEED").ok().and_then(|s| s.parse().ok()).unwrap_or(0);
    let scenarios: Vec<Scenario> = read_ndjson(&args[0]).into_iter().map(|v| serde_json::from_value(v).expect("scenario shape")).collect();
    let n = scenarios.len();
    let res = par_map(n, n_threads(), |i| {
        let sc = &scenarios[i];
        let mut out = Vec::new();
        let rate = sc.rate2 as f64 / 2.0;
        for mode in ["osu", "taiko", "catch", "mania"] {
            let text = render_circles(mode, &sc.times);
            let Ok(map) = Beatmap::from_bytes(text.as_bytes()) else { continue };
            let d = Difficulty::new().clock_rate(rate);
            let label = format!("{mode} times {:?} rate {rate}", sc.times);
            if let Some(len) = check_map(&map, &d, &label, &0u32.into(), &mut out) {
                if len != sc.sections[mode] {
                    out.push(json!({"what": "section_count", "label": label, "expected": sc.sections[mode], "observed": len, "osu_text": text}));
                }
            }
        }
        out
    });
    let mut mism: Vec<Value> = res.into_iter().flatten().collect();
    // richer maps: sliders, spinners, holds, long breaks, prefixes, mods
    let mut rng = StdRng::seed_from_u64(seed ^ 0x57a1);
    let all = cfgs(&tier);
    let n_rich = if tier == "thorough" { 1500 } else { 150 };
    let mut rich = 0u64;
    for k in 0..n_rich {
        let mode = ["osu", "taiko", "catch", "mania"][k % 4];
        let nobj = rng.gen_range(0..35);
        let mut objs = random_objs(&mut rng, mode, nobj);
        for o in objs.iter_mut() {
            if rng.gen_range(0..5) == 0 {
                o.gap = rng.gen_range(2..4);
            }
        }
        let text = concretize(mode, &objs, &profile(rng.gen_range(0..4)));
        let Ok(native) = Beatmap::from_bytes(text.as_bytes()) else { continue };
        let mut cfg = all[rng.gen_range(0..all.len())].clone();
        if mode == "osu" {
            // TouchDevice, Relax, Autopilot each adjust the flashlight rating; together their ORDER matters (power vs factor)
            cfg.mods |= [0u32, 1024, 4, 128, 8192, 1024 | 4, 4 | 128, 4 | 8192, 1024 | 4 | 128][rng.gen_range(0..9)];
        }
        let mut d = cfg.difficulty();
        if rng.gen_bool(0.4) {
            d = d.passed_objects(rng.gen_range(0..(nobj as u32 + 2)));
        }
        // the *_for_mode entry points on the unconverted osu! source, under a key mod (the column count the conversion would
        // not pick on its own): strains and attributes must come from the same conversion
        if mode == "osu" && k % 4 == 0 {
            for keys in ["4K", "8K"] {
                let dk = d.clone().mods(crate::settings::Cfg::default().with_acronyms(keys).game_mods());
                rich += 1;
                let a = guarded(|| dk.calculate_for_mode::<rosu_pp::mania::Mania>(&native));
                let st = guarded(|| dk.strains_for_mode::<rosu_pp::mania::Mania>(&native));
                match (a, st) {
                    (Ok(Ok(a)), Ok(Ok(st))) => {
                        let want = weighted(&st.strains, 0.9) * 0.018;
                        if !rel_close(want, a.stars, 1e-12) {
                            mism.push(json!({"what": "mania_stars_from_peaks_for_mode", "label": format!("rich {k} osu source as mania under {keys} n={nobj}"), "expected": want, "observed": a.stars, "osu_text": text}));
                        }
                    }
                    (Ok(Err(_)), Ok(Err(_))) => {}
                    (a, st) => mism.push(json!({"what": "for_mode_entry_points_disagree", "label": format!("rich {k} osu source as mania under {keys}"), "expected": format!("{:?}", a.map(|r| r.is_ok())), "observed": format!("{:?}", st.map(|r| r.is_ok())), "osu_text": text})),
                }
            }
        }
        // ... and as taiko / catch: the *_for_mode strains must explain the *_for_mode ratings (and so equal the strains of the
        // explicitly converted map: hit windows and the like are those of the CONVERTED map)
        if mode == "osu" && k % 2 == 0 {
            rich += 1;
            let a = guarded(|| d.calculate_for_mode::<rosu_pp::taiko::Taiko>(&native));
            let st = guarded(|| d.strains_for_mode::<rosu_pp::taiko::Taiko>(&native));
            if let (Ok(Ok(a)), Ok(Ok(st))) = (&a, &st) {
                const D: f64 = 0.084375;
                for (name, peaks, mult, got) in [("rhythm", &st.rhythm, 0.65 * D, a.rhythm), ("reading", &st.reading, 0.100 * D, a.reading),
                                                 ("color", &st.color, 0.375 * D, a.color), ("stamina", &st.stamina, 0.445 * D, a.stamina)] {
                    let want = weighted(peaks, 0.9) * mult;
                    if !rel_close(want, got, 1e-9) {
                        mism.push(json!({"what": "taiko_rating_from_peaks_for_mode", "label": format!("rich {k} osu source as taiko n={nobj} cfg {:?} [{name}]", cfg), "expected": want, "observed": got, "osu_text": text}));
                    }
                }
            }
            let ca = guarded(|| d.calculate_for_mode::<rosu_pp::catch::Catch>(&native));
            let cst = guarded(|| d.strains_for_mode::<rosu_pp::catch::Catch>(&native));
            if let (Ok(Ok(a)), Ok(Ok(st))) = (&ca, &cst) {
                let want = weighted(&st.movement, 0.94).sqrt() * 4.59;
                if !rel_close(want, a.stars, 1e-12) {
                    mism.push(json!({"what": "catch_stars_from_peaks_for_mode", "label": format!("rich {k} osu source as catch n={nobj}"), "expected": want, "observed": a.stars, "osu_text": text}));
                }
            }
        }
        let targets: Vec<&str> = if mode == "osu" && k % 8 == 0 { vec!["osu", "taiko", "catch", "mania"] } else { vec![mode] };
        for t in targets {
            let gm = match t {
                "osu" => rosu_pp::model::mode::GameMode::Osu,
                "taiko" => rosu_pp::model::mode::GameMode::Taiko,
                "catch" => rosu_pp::model::mode::GameMode::Catch,
                _ => rosu_pp::model::mode::GameMode::Mania,
            };
            // mania: the lazer-only mods that rewrite the object list (HoldOff, Invert) on every second map
            let (cfg, d) = if t == "mania" && cfg.random_seed.is_none() && cfg.da_scroll.is_none() && k % 2 == 0 {
                let c2 = cfg.with_acronyms(["HO", "IN", "IN,HO"][(k / 2) % 3]);
                let mut d2 = c2.difficulty();
                if let Some(p) = d.clone().inspect().passed_objects {
                    d2 = d2.passed_objects(p);
                }
                (c2, d2)
            } else {
                (cfg.clone(), d.clone())
            };
            let Ok(map) = native.clone().convert(gm, &cfg.game_mods()) else { continue };
            rich += 1;
            let mut out = Vec::new();
            check_map(&map, &d, &format!("rich {k} {mode}->{t} n={nobj} cfg {:?}", cfg), &cfg.game_mods(), &mut out);
            for mut m in out {
                m["osu_text"] = json!(text);
                mism.push(m);
            }
        }
    }
    let mut by: BTreeMap<String, u64> = BTreeMap::new();
    for m in &mism {
        *by.entry(m["what"].as_str().unwrap_or("?").to_string()).or_default() += 1;
    }
    let mut seen: BTreeMap<String, u32> = BTreeMap::new();
    let mut records = Vec::new();
    for m in &mism {
        let c = seen.entry(m["what"].to_string()).or_default();
        if *c < 4 {
            *c += 1;
            records.push(m.clone());
        }
    }
    let samples: Vec<Value> = scenarios.iter().filter(|s| s.times.len() >= 3).step_by((n / 3).max(1)).take(3).map(|s| json!({"times": s.times, "rate": s.rate2 as f64 / 2.0, "sections": s.sections})).collect();
    let out = json!({"scenarios": n, "rich_maps": rich, "mismatches": mism.len(), "by_class": by, "records": records, "samples": samples});
    std::fs::write(&args[1], serde_json::to_string_pretty(&out).unwrap()).unwrap();
    println!("strains-replay: time_sequences={} rich_maps={} mismatches={}", n, rich, mism.len());
    0
}
