//! C18 (builder settings) and C04 (map vs attributes entry points): replay of the
//! setter sequences / entry-point histories TLC enumerated in MC_Builders.

use crate::absmap::{concretize, profile};
use crate::gradual::random_objs;
use crate::util::*;
use rand::{rngs::StdRng, SeedableRng};
use rosu_pp::any::{DifficultyAttributes, PerformanceAttributes};
use rosu_pp::catch::CatchPerformance;
use rosu_pp::mania::ManiaPerformance;
use rosu_pp::osu::OsuPerformance;
use rosu_pp::taiko::TaikoPerformance;
use rosu_pp::{Beatmap, Difficulty, Performance};
use serde::{Deserialize, Serialize};
use serde_json::{json, Value};
use std::collections::BTreeMap;

#[derive(Clone, Debug, Deserialize, Serialize, PartialEq)]
pub struct Val {
    pub v: String,
    pub w: bool,
}
#[derive(Clone, Debug, Deserialize, Serialize)]
pub struct Call {
    pub f: String,
    pub v: String,
    pub w: bool,
}
pub type AbsDiff = BTreeMap<String, Val>;

#[derive(Clone, Debug, Deserialize, Serialize)]
pub struct Eval {
    pub attrs_with: AbsDiff,
    pub perf_with: AbsDiff,
}

#[derive(Clone, Debug, Deserialize, Serialize)]
pub struct Scenario {
    pub aspect: String,
    pub calls: Vec<Call>,
    #[serde(default)]
    pub d: AbsDiff,
    #[serde(default)]
    pub perf: BTreeMap<String, AbsDiff>,
    #[serde(default)]
    pub allfwd: BTreeMap<String, bool>,
    #[serde(default)]
    pub entry: String,
    #[serde(default)]
    pub eval: Option<Eval>,
    #[serde(default)]
    pub stale: bool,
}

fn clock_of(v: &str) -> f64 {
    match v {
        "neg" => -1.0,
        "zero" => 0.0,
        "below" => 0.001,
        "min" => 0.01,
        "one" => 1.0,
        "in" => 1.3,
        "max" => 100.0,
        _ => 5000.0,
    }
}
fn attr_of(v: &str) -> f32 {
    match v {
        "lo" => -25.0,
        "min" => -20.0,
        "in" => 6.5,
        "max" => 20.0,
        _ => 25.0,
    }
}
/// the mod selection as the GameMods value handed to the setters ("CL": the lazer-only Classic mod, an intermode set)
fn mods_val(v: &str) -> rosu_pp::GameMods {
    if v == "CL" {
        crate::settings::Cfg { mods: 8, ..Default::default() }.with_acronyms("CL").game_mods()
    } else {
        mods_of(v).into()
    }
}
fn mods_of(v: &str) -> u32 {
    match v {
        "NM" => 0,
        "HR" => 16,
        _ => 8 | 64,
    }
}
fn passed_of(v: &str) -> u32 {
    match v {
        "p0" => 0,
        "p2" => 2,
        _ => 1000,
    }
}

fn apply_diff(d: Difficulty, c: &Call) -> Difficulty {
    match c.f.as_str() {
        "mods" => d.mods(mods_val(&c.v)),
        "passed" => d.passed_objects(passed_of(&c.v)),
        "clock" => d.clock_rate(clock_of(&c.v)),
        "ar" => d.ar(attr_of(&c.v), c.w),
        "cs" => d.cs(attr_of(&c.v), c.w),
        "hp" => d.hp(attr_of(&c.v), c.w),
        "od" => d.od(attr_of(&c.v), c.w),
        "hro" => d.hardrock_offsets(c.v == "T"),
        "lazer" => d.lazer(c.v == "T"),
        _ => d,
    }
}

fn apply_perf<'a>(p: Performance<'a>, c: &Call) -> Performance<'a> {
    match c.f.as_str() {
        "mods" => p.mods(mods_val(&c.v)),
        "passed" => p.passed_objects(passed_of(&c.v)),
        "clock" => p.clock_rate(clock_of(&c.v)),
        "ar" => p.ar(attr_of(&c.v), c.w),
        "cs" => p.cs(attr_of(&c.v), c.w),
        "hp" => p.hp(attr_of(&c.v), c.w),
        "od" => p.od(attr_of(&c.v), c.w),
        "hro" => p.hardrock_offsets(c.v == "T"),
        "lazer" => p.lazer(c.v == "T"),
        _ => p,
    }
}

/// Difficulty from the model's abstract record (already clamped classes).
fn diff_from_abs(a: &AbsDiff) -> Difficulty {
    let mut d = Difficulty::new();
    // the order must not matter (checked separately); use a fixed one
    for f in ["mods", "passed", "clock", "ar", "cs", "hp", "od", "hro", "lazer"] {
        if let Some(v) = a.get(f) {
            if v.v != "none" {
                d = apply_diff(d, &Call { f: f.into(), v: v.v.clone(), w: v.w });
            }
        }
    }
    d
}

/// Mirror of Builders.tla `Forwards(mode, f)`: which settings a mode's performance builder accepts
/// (validated against the code by the C18 replay).
fn forwards(mode: &str, f: &str) -> bool {
    match f {
        "mods" | "passed" | "clock" | "hp" | "od" => true,
        "ar" | "cs" => mode == "osu" || mode == "catch",
        "hro" => mode == "catch",
        "lazer" => mode == "osu" || mode == "mania",
        _ => false,
    }
}

fn diff_from_abs_for(a: &AbsDiff, mode: &str) -> Difficulty {
    let filtered: AbsDiff = a.iter().filter(|(f, _)| forwards(mode, f)).map(|(k, v)| (k.clone(), v.clone())).collect();
    diff_from_abs(&filtered)
}

/// what inspect() must show for the model's record
fn expected_inspect(a: &AbsDiff) -> String {
    let g = |f: &str| a.get(f).cloned().unwrap_or(Val { v: "none".into(), w: false });
    let attr = |f: &str| {
        let v = g(f);
        if v.v == "none" {
            "None".to_string()
        } else {
            format!("Some(({:?}, {}))", attr_of(&v.v).clamp(-20.0, 20.0), v.w)
        }
    };
    format!(
        "mods={} passed={} clock={} ar={} cs={} hp={} od={} hro={} lazer={}",
        if g("mods").v == "none" { 0 } else if g("mods").v == "CL" { u32::MAX } else { mods_of(&g("mods").v) },
        if g("passed").v == "none" { "None".into() } else { format!("Some({})", passed_of(&g("passed").v)) },
        if g("clock").v == "none" { "None".into() } else { format!("Some({:?})", clock_of(&g("clock").v).clamp(0.01, 100.0)) },
        attr("ar"),
        attr("cs"),
        attr("hp"),
        attr("od"),
        if g("hro").v == "none" { "None".into() } else { format!("Some({})", g("hro").v == "T") },
        if g("lazer").v == "none" { "None".into() } else { format!("Some({})", g("lazer").v == "T") },
    )
}

fn real_inspect(d: &Difficulty) -> String {
    let i = d.clone().inspect();
    let attr = |m: Option<rosu_pp::any::ModsDependent>| match m {
        None => "None".to_string(),
        Some(m) => format!("Some(({:?}, {}))", m.value, m.with_mods),
    };
    format!(
        "mods={} passed={:?} clock={:?} ar={} cs={} hp={} od={} hro={:?} lazer={:?}",
        match &i.mods { rosu_pp::GameMods::Legacy(m) => m.bits(), _ => u32::MAX },
        i.passed_objects,
        i.clock_rate,
        attr(i.ar),
        attr(i.cs),
        attr(i.hp),
        attr(i.od),
        i.hardrock_offsets,
        i.lazer
    )
}

struct Maps {
    by_mode: BTreeMap<String, (Beatmap, String)>,
}

fn maps(seed: u64) -> Maps {
    let mut rng = StdRng::seed_from_u64(seed ^ 0xb01d);
    let mut by_mode = BTreeMap::new();
    for mode in ["osu", "taiko", "catch", "mania"] {
        let objs = random_objs(&mut rng, mode, 7);
        let text = concretize(mode, &objs, &profile(seed as u32));
        let mut map = Beatmap::from_bytes(text.as_bytes()).expect("concretised map decodes");
        let mut text = text;
        // osu!: a window of the fixture instead (real slider shapes: "difficult sliders", ticks, stacking), synthetic as fallback
        if mode == "osu" {
            if let Ok(t) = std::fs::read_to_string("/repo/resources/2785319.osu") {
                let ls: Vec<&str> = t.lines().collect();
                if let Some(ho) = ls.iter().position(|l| l.trim() == "[HitObjects]") {
                    let n = 40usize;
                    let start = ho + 1 + (seed as usize * 31 + 120) % (ls.len() - ho - 1 - n).max(1);
                    let mut keep: Vec<&str> = ls[..=ho].to_vec();
                    keep.extend(ls[start..(start + n).min(ls.len())].iter());
                    let w = keep.join("\n");
                    if let Ok(m) = Beatmap::from_bytes(w.as_bytes()) {
                        map = m;
                        text = w;
                    }
                }
            }
        }
        by_mode.insert(mode.to_string(), (map, text));
    }
    Maps { by_mode }
}

fn score<'a>(p: Performance<'a>, k: usize) -> Performance<'a> {
    match k {
        0 => p,
        1 => p.accuracy(93.7).misses(1),
        // a complete hit-result specification that does not fit the map (too few results, combo beyond the maximum):
        // every entry point has to complete / clamp it the same way
        2 => p.combo(100_000).n300(3).n100(1).n50(0).misses(2),
        // an imperfect slider play: every slider end / tick dropped (score-dependent adjustments must stay inside the calculation
        // and not leak into the attributes that are handed back)
        _ => p.slider_end_hits(0).large_tick_hits(0).small_tick_hits(0).misses(1).combo(2),
    }
}

fn run_setters(i: usize, sc: &Scenario, maps: &Maps, out: &mut Vec<Value>, checks: &mut u64) {
    let mut bad = |what: &str, mode: &str, exp: String, obs: String| {
        out.push(json!({"scenario_index": i, "aspect": "setters", "what": what, "mode": mode, "calls": sc.calls, "expected": exp, "observed": obs}));
    };
    // Difficulty level
    let d = sc.calls.iter().fold(Difficulty::new(), apply_diff);
    *checks += 1;
    let want = expected_inspect(&sc.d);
    let got = real_inspect(&d);
    if want != got {
        bad("inspect", "-", want, got);
    }
    if d.clone().inspect().into_difficulty() != d {
        bad("inspect_round_trip", "-", "equal Difficulty".into(), format!("{:?}", d.clone().inspect()));
    }
    // the inspectable form is an entry point of its own: a hand-built InspectDifficulty with the RAW values (last write per field,
    // unclamped) must become the Difficulty the setters build (clamped to the documented bounds)
    {
        use rosu_pp::any::{InspectDifficulty, ModsDependent};
        // raw = as written by the last call of the field (the model's record `sc.d` holds the clamped class)
        let g = |f: &str| sc.calls.iter().rev().find(|c| c.f == f).map(|c| Val { v: c.v.clone(), w: c.w });
        let attr = |f: &str| g(f).map(|v| ModsDependent { value: attr_of(&v.v), with_mods: v.w });
        let hand = InspectDifficulty {
            mods: g("mods").map_or_else(|| 0u32.into(), |v| mods_val(&v.v)),
            passed_objects: g("passed").map(|v| passed_of(&v.v)),
            clock_rate: g("clock").map(|v| clock_of(&v.v)),
            ar: attr("ar"),
            cs: attr("cs"),
            hp: attr("hp"),
            od: attr("od"),
            hardrock_offsets: g("hro").map(|v| v.v == "T"),
            lazer: g("lazer").map(|v| v.v == "T"),
        };
        let via_into = hand.clone().into_difficulty();
        let via_from = Difficulty::from(hand);
        if via_into != d || via_from != d {
            bad("hand_built_inspect_into_difficulty", "-", real_inspect(&d), real_inspect(&via_into));
        }
    }
    // independent setters commute / last write wins: reorder calls stably by field
    let mut sorted = sc.calls.clone();
    sorted.sort_by(|a, b| b.f.cmp(&a.f));
    let d2 = sorted.iter().fold(Difficulty::new(), apply_diff);
    if d2 != d {
        bad("order_dependence", "-", real_inspect(&d), real_inspect(&d2));
    }
    // ... and the reversed order when every call sets another field (TLC's view keeps one order per resulting record)
    let mut fields: Vec<&str> = sc.calls.iter().map(|c| c.f.as_str()).collect();
    fields.sort_unstable();
    fields.dedup();
    if fields.len() == sc.calls.len() && sc.calls.len() > 1 {
        let d3 = sc.calls.iter().rev().fold(Difficulty::new(), apply_diff);
        if d3 != d {
            bad("order_dependence_reversed", "-", real_inspect(&d), real_inspect(&d3));
        }
        for (mode, (map, _)) in maps.by_mode.iter() {
            let fwd = sc.calls.iter().fold(Performance::new(map), apply_perf);
            let rev = sc.calls.iter().rev().fold(Performance::new(map), apply_perf);
            if fwd != rev {
                bad("perf_order_dependence_reversed", mode, "equal builders".into(), "builders differ".into());
            }
        }
    }
    // Performance level, per mode
    for (mode, (map, _)) in maps.by_mode.iter() {
        *checks += 1;
        let own = sc.calls.iter().fold(Performance::new(map), apply_perf);
        let via = Performance::new(map).difficulty(diff_from_abs(&sc.perf[mode]));
        if own != via {
            bad("perf_setters_vs_difficulty_builder", mode, format!("{:?}", diff_from_abs(&sc.perf[mode]).inspect()), "builders differ".into());
        }
        // the settings a mode documents as irrelevant must not reach ANY of its calculators: difficulty, strains, gradual
        {
            let relevant = diff_from_abs_for(&sc.d, mode);
            let a = guarded(|| format!("{:?}|{:?}|{:?}", relevant.calculate(map), relevant.strains(map), rosu_pp::GradualDifficulty::new(relevant.clone(), map).last()));
            let b = guarded(|| format!("{:?}|{:?}|{:?}", d.calculate(map), d.strains(map), rosu_pp::GradualDifficulty::new(d.clone(), map).last()));
            if a != b {
                bad("irrelevant_setter_changes_difficulty_strains_or_gradual", mode, format!("{a:?}").chars().take(400).collect(), format!("{b:?}").chars().take(400).collect());
            }
        }
        for k in 0..2 {
            let a = guarded(|| dbg_perf(&score(sc.calls.iter().fold(Performance::new(map), apply_perf), k).calculate()));
            // handing over a Difficulty with the same setters applied (all of them, also the ones the mode ignores)
            let b = guarded(|| dbg_perf(&score(Performance::new(map).difficulty(d.clone()), k).calculate()));
            if a != b {
                bad("perf_setters_vs_difficulty_result", mode, format!("{b:?}").chars().take(400).collect(), format!("{a:?}").chars().take(400).collect());
            }
        }
    }
}

fn build_entry<'a>(entry: &str, mode: &str, map: &'a Beatmap, final_d: &Difficulty) -> Performance<'a> {
    let attrs = || final_d.calculate(map);
    let pattrs = || Performance::new(map).difficulty(final_d.clone()).calculate();
    match entry {
        "map_ref" => Performance::new(map),
        "map_owned" => Performance::new(map.clone()),
        "mode_map" => match mode {
            "osu" => Performance::Osu(OsuPerformance::new(map)),
            "taiko" => Performance::Taiko(TaikoPerformance::new(map)),
            "catch" => Performance::Catch(CatchPerformance::new(map)),
            _ => Performance::Mania(ManiaPerformance::new(map)),
        },
        "diff_attrs" => Performance::new(attrs()),
        "perf_attrs" => Performance::new(pattrs()),
        "attrs_method" => attrs().performance(),
        "perf_attrs_method" => pattrs().performance(),
        _ => match attrs() {
            DifficultyAttributes::Osu(a) => Performance::Osu(OsuPerformance::new(a)),
            DifficultyAttributes::Taiko(a) => Performance::Taiko(TaikoPerformance::new(a)),
            DifficultyAttributes::Catch(a) => Performance::Catch(a.performance()),
            DifficultyAttributes::Mania(a) => Performance::Mania(ManiaPerformance::new(a)),
        },
    }
}

fn run_entry(i: usize, sc: &Scenario, maps: &Maps, out: &mut Vec<Value>, checks: &mut u64) {
    let ev = sc.eval.as_ref().expect("entry scenario has eval");
    let has_mods_call = sc.calls.iter().any(|c| c.f == "mods");
    // an accuracy-based score spec is only meaningful when no setter follows a generate_state()
    let gen_pos = sc.calls.iter().position(|c| c.f == "gen");
    let setter_after_gen = gen_pos.is_some_and(|g| sc.calls[g + 1..].iter().any(|c| c.f != "gen"));
    for (mode, (map, _)) in maps.by_mode.iter() {
        // the reference is built through Difficulty setters (an independent path), restricted to what the mode's builder accepts
        let attrs_d = diff_from_abs_for(&ev.attrs_with, mode);
        let perf_d = diff_from_abs_for(&ev.perf_with, mode);
        for k in 0..(if setter_after_gen { 1 } else { 4 }) {
            *checks += 1;
            let real = guarded(|| {
                let mut p = score(build_entry(&sc.entry, mode, map, &perf_d), k);
                for c in &sc.calls {
                    if c.f == "gen" {
                        let _ = p.generate_state();
                    } else {
                        p = apply_perf(p, c);
                    }
                }
                p.calculate()
            });
            let want_attrs = guarded(|| attrs_d.calculate(map));
            let (Ok(real), Ok(want_attrs)) = (real, want_attrs) else {
                out.push(json!({"scenario_index": i, "aspect": "entry", "what": "panic", "mode": mode, "entry": sc.entry, "calls": sc.calls}));
                continue;
            };
            // the performance part: attributes made with `attrs_with`, settings `perf_with`
            // NB: only the forwarded settings of the mode reach the builder; diff_from_abs(perf_with) is handed
            // to the reference through the same Performance setters so that the table applies to both sides
            let reference = guarded(|| score(Performance::new(want_attrs.clone()).difficulty(perf_d.clone()), k).calculate());
            let Ok(reference) = reference else { continue };
            let (a, b) = (dbg_perf(&real), dbg_perf(&reference));
            if a != b {
                out.push(json!({"scenario_index": i, "aspect": "entry", "what": "entry_point_result", "mode": mode, "entry": sc.entry, "calls": sc.calls,
                    "stale": sc.stale, "expected": b.chars().take(500).collect::<String>(), "observed": a.chars().take(500).collect::<String>()}));
            }
            // embedded difficulty attributes = one-shot difficulty for the settings they were made with
            let emb = dbg_attrs(&real.difficulty_attributes());
            let wa = dbg_attrs(&want_attrs);
            if emb != wa {
                out.push(json!({"scenario_index": i, "aspect": "entry", "what": "embedded_attributes", "mode": mode, "entry": sc.entry, "calls": sc.calls,
                    "stale": sc.stale, "expected": wa.chars().take(500).collect::<String>(), "observed": emb.chars().take(500).collect::<String>()}));
            }
            let _ = PerformanceAttributes::pp(&real);
        }
    }
    // map entry points on an osu!standard source converted through try_mode (key mod for mania)
    if matches!(sc.entry.as_str(), "map_ref" | "map_owned") && gen_pos.is_none() {
        let (osu_map, _) = &maps.by_mode["osu"];
        for mode in ["taiko", "catch", "mania"] {
            *checks += 1;
            let key = if mode == "mania" && !has_mods_call { Some(rosu_mods::GameModIntermode::FourKeys) } else { None };
            let mk_mods = |bits: u32| -> rosu_pp::GameMods {
                let mut im = rosu_mods::GameModsIntermode::from_bits(bits);
                if let Some(k) = key {
                    im.insert(k);
                }
                im.into()
            };
            let gmode = match mode {
                "taiko" => rosu_pp::model::mode::GameMode::Taiko,
                "catch" => rosu_pp::model::mode::GameMode::Catch,
                _ => rosu_pp::model::mode::GameMode::Mania,
            };
            let perf_d = diff_from_abs_for(&ev.perf_with, mode);
            let bits = match &perf_d.clone().inspect().mods { rosu_pp::GameMods::Legacy(m) => m.bits(), _ => 0 };
            let real = guarded(|| {
                let p = if sc.entry == "map_ref" { Performance::new(osu_map) } else { Performance::new(osu_map.clone()) };
                // conversion-relevant mods must be known before try_mode
                let mut p = p.mods(mk_mods(0)).try_mode(gmode).ok().expect("osu map converts");
                for c in &sc.calls {
                    p = apply_perf(p, c);
                }
                p.mods(mk_mods(bits)).calculate()
            });
            let reference = guarded(|| {
                let conv = osu_map.convert_ref(gmode, &mk_mods(bits)).expect("converts").into_owned();
                let d = perf_d.clone().mods(mk_mods(bits));
                let attrs = d.calculate(&conv);
                Performance::new(attrs).difficulty(d).calculate()
            });
            match (real, reference) {
                (Ok(a), Ok(b)) if dbg_perf(&a) == dbg_perf(&b) => {}
                (a, b) => out.push(json!({"scenario_index": i, "aspect": "entry", "what": "converted_entry_point_result", "mode": mode, "entry": sc.entry, "calls": sc.calls,
                    "expected": format!("{b:?}").chars().take(500).collect::<String>(), "observed": format!("{a:?}").chars().take(500).collect::<String>()})),
            }
            // hit results given BEFORE the builder changes its mode must mean what they mean when given afterwards
            // (every generic setter has one meaning per mode: n100 = droplets, n50 = tiny droplets, ... )
            *checks += 1;
            // (the score specification varies with the scenario: explicit results, the hit result priority alone - consulted when
            //  no accuracy is given -, accuracy + priority, partial results + priority)
            let variant = i % 4;
            fn hits_v<'m>(p: Performance<'m>, variant: usize) -> Performance<'m> {
                use rosu_pp::any::HitResultPriority;
                match variant {
                    0 => p.n300(5).n100(3).n50(2).misses(1).combo(4),
                    1 => p.hitresult_priority(HitResultPriority::WorstCase).misses(2),
                    2 => p.accuracy(87.5).hitresult_priority(HitResultPriority::WorstCase).misses(1),
                    // (n_geki / n_katu exist only on the mania builder: given to an osu! builder they are documented no-ops, so not here)
                    _ => p.n300(3).n50(1).hitresult_priority(HitResultPriority::WorstCase),
                }
            }
            let hits = |p| hits_v(p, variant);
            let before = guarded(|| {
                let p = if sc.entry == "map_ref" { Performance::new(osu_map) } else { Performance::new(osu_map.clone()) };
                let mut p = hits(p.mods(mk_mods(0))).try_mode(gmode).ok().expect("osu map converts");
                for c in &sc.calls {
                    p = apply_perf(p, c);
                }
                p.mods(mk_mods(bits)).calculate()
            });
            let after = guarded(|| {
                let p = if sc.entry == "map_ref" { Performance::new(osu_map) } else { Performance::new(osu_map.clone()) };
                let mut p = p.mods(mk_mods(0)).try_mode(gmode).ok().expect("osu map converts");
                for c in &sc.calls {
                    p = apply_perf(p, c);
                }
                hits(p.mods(mk_mods(bits))).calculate()
            });
            // ... and so must every other setting of the scenario (difficulty settings and score settings alike travel through
            // the TryFrom conversions between the mode builders)
            *checks += 1;
            let all_before = guarded(|| {
                let p = if sc.entry == "map_ref" { Performance::new(osu_map) } else { Performance::new(osu_map.clone()) };
                let mut p = hits(p.mods(mk_mods(0)));
                for c in &sc.calls {
                    p = apply_perf(p, c);
                }
                // the mods decide the conversion: the final ones must be in place when the mode changes
                p.mods(mk_mods(bits)).try_mode(gmode).ok().expect("osu map converts").calculate()
            });
            // (a setter the osu! builder documents as a no-op but the target builder accepts - hardrock_offsets for catch - is the
            //  exception: given before the mode change it is dropped by design)
            let dropped_by_design = sc.calls.iter().any(|c| !forwards("osu", &c.f) && forwards(mode, &c.f));
            match (&all_before, &after) {
                _ if dropped_by_design => {}
                (Ok(a), Ok(b)) if dbg_perf(a) == dbg_perf(b) => {}
                (a, b) => out.push(json!({"scenario_index": i, "aspect": "entry", "what": "settings_before_vs_after_mode_change", "mode": mode, "entry": sc.entry, "calls": sc.calls,
                    "expected": format!("{b:?}").chars().take(500).collect::<String>(), "observed": format!("{a:?}").chars().take(500).collect::<String>()})),
            }
            match (before, after) {
                (Ok(a), Ok(b)) if dbg_perf(&a) == dbg_perf(&b) => {}
                (a, b) => out.push(json!({"scenario_index": i, "aspect": "entry", "what": "hit_results_before_vs_after_mode_change", "mode": mode, "entry": sc.entry, "calls": sc.calls,
                    "expected": format!("{b:?}").chars().take(500).collect::<String>(), "observed": format!("{a:?}").chars().take(500).collect::<String>()})),
            }
        }
    }
}

/// Score settings given to the mode-agnostic `Performance` mean what they mean on the mode's own builder (per the generic
/// setters' documentation: n_geki = mania n320, n_katu = mania n200 / catch tiny droplet misses, n300 = fruits, n100 = droplets,
/// n50 = tiny droplets), in any of several orders and when a later call overwrites an earlier one.
fn generic_vs_mode_builders(maps: &Maps, out: &mut Vec<Value>, checks: &mut u64) {
    use rosu_pp::any::HitResultPriority::{BestCase, WorstCase};
    // the small concretised map of each mode and, where the fixture is there, a window of 60 real objects
    let mut all: Vec<(String, Beatmap)> = maps.by_mode.iter().map(|(m, (b, _))| (m.clone(), b.clone())).collect();
    for (mode, id) in [("osu", "2785319"), ("taiko", "1028484"), ("catch", "2118524"), ("mania", "1638954")] {
        if let Ok(mut m) = Beatmap::from_path(format!("/repo/resources/{id}.osu")) {
            m.hit_objects.truncate(60);
            m.hit_sounds.truncate(60);
            all.push((mode.to_string(), m));
        }
    }
    for (mode, map) in all.iter() {
        for variant in 0..8usize {
            for lazer in [true, false] {
                *checks += 1;
                let g = Performance::new(map).lazer(lazer);
                let (generic, own): (Performance<'_>, Performance<'_>) = match (mode.as_str(), variant) {
                    // priority alone (consulted without an accuracy), also as an overwrite of an earlier value
                    ("osu", 0) => (g.hitresult_priority(BestCase).misses(1).hitresult_priority(WorstCase), Performance::Osu(rosu_pp::osu::OsuPerformance::new(map).lazer(lazer).misses(1).hitresult_priority(WorstCase))),
                    ("taiko", 0) => (g.hitresult_priority(BestCase).misses(1).hitresult_priority(WorstCase), Performance::Taiko(rosu_pp::taiko::TaikoPerformance::new(map).misses(1).hitresult_priority(WorstCase))),
                    ("mania", 0) => (g.hitresult_priority(BestCase).misses(1).hitresult_priority(WorstCase), Performance::Mania(rosu_pp::mania::ManiaPerformance::new(map).lazer(lazer).misses(1).hitresult_priority(WorstCase))),
                    ("catch", 0) => (g.hitresult_priority(WorstCase).misses(1), Performance::Catch(rosu_pp::catch::CatchPerformance::new(map).misses(1))),
                    // accuracy + priority + one result
                    ("osu", 1) => (g.accuracy(91.5).n50(1).hitresult_priority(WorstCase), Performance::Osu(rosu_pp::osu::OsuPerformance::new(map).lazer(lazer).accuracy(91.5).n50(1).hitresult_priority(WorstCase))),
                    ("taiko", 1) => (g.accuracy(91.5).misses(1).hitresult_priority(WorstCase), Performance::Taiko(rosu_pp::taiko::TaikoPerformance::new(map).accuracy(91.5).misses(1).hitresult_priority(WorstCase))),
                    ("mania", 1) => (g.accuracy(91.5).n_geki(1).hitresult_priority(WorstCase), Performance::Mania(rosu_pp::mania::ManiaPerformance::new(map).lazer(lazer).accuracy(91.5).n320(1).hitresult_priority(WorstCase))),
                    ("catch", 1) => (g.accuracy(91.5).n_katu(1), Performance::Catch(rosu_pp::catch::CatchPerformance::new(map).accuracy(91.5).tiny_droplet_misses(1))),
                    // the mode-specific names of the generic results
                    ("mania", 2) => (g.n_geki(1).n_katu(2).n300(1).n100(1).n50(0).misses(1), Performance::Mania(rosu_pp::mania::ManiaPerformance::new(map).lazer(lazer).n320(1).n200(2).n300(1).n100(1).n50(0).misses(1))),
                    ("catch", 2) => (g.n300(2).n100(1).n50(1).n_katu(1).misses(1).combo(2), Performance::Catch(rosu_pp::catch::CatchPerformance::new(map).fruits(2).droplets(1).tiny_droplets(1).tiny_droplet_misses(1).misses(1).combo(2))),
                    ("osu", 2) => (g.n300(2).n100(1).combo(3).slider_end_hits(1).large_tick_hits(1), Performance::Osu(rosu_pp::osu::OsuPerformance::new(map).lazer(lazer).n300(2).n100(1).combo(3).slider_end_hits(1).large_tick_hits(1))),
                    ("taiko", 2) => (g.n300(2).n100(1).combo(3), Performance::Taiko(rosu_pp::taiko::TaikoPerformance::new(map).n300(2).n100(1).combo(3))),
                    // a later call overwrites an earlier one; state() after single fields and single fields after state()
                    (_, 3) => {
                        let st = crate::gradual::score_state(3);
                        (g.misses(5).n100(4).state(st.clone()).misses(1), match mode.as_str() {
                            "osu" => Performance::Osu(rosu_pp::osu::OsuPerformance::new(map).lazer(lazer).state(st.into()).misses(1)),
                            "taiko" => Performance::Taiko(rosu_pp::taiko::TaikoPerformance::new(map).state(st.into()).misses(1)),
                            "catch" => Performance::Catch(rosu_pp::catch::CatchPerformance::new(map).state(st.into()).misses(1)),
                            _ => Performance::Mania(rosu_pp::mania::ManiaPerformance::new(map).lazer(lazer).state(st.into()).misses(1)),
                        })
                    }
                    _ => continue,
                };
                let a = guarded(|| generic.calculate());
                let b = guarded(|| own.calculate());
                match (a, b) {
                    (Ok(a), Ok(b)) if dbg_perf(&a) == dbg_perf(&b) => {}
                    (a, b) => out.push(json!({"scenario_index": 0, "aspect": "score", "what": "generic_vs_mode_specific_score_setters", "mode": mode, "entry": format!("variant {variant} lazer {lazer}"), "calls": [],
                        "expected": format!("{b:?}").chars().take(500).collect::<String>(), "observed": format!("{a:?}").chars().take(500).collect::<String>()})),
                }
            }
        }
    }
}

/// `builders-replay <scenarios.ndjson> <out.json>`
pub fn main(args: &[String]) -> i32 {
    silence_panics();
    let seed: u64 = std::env::var("VERIF_SEED").ok().and_then(|s| s.parse().ok()).unwrap_or(0);
    let maps = maps(seed);
    // streamed in chunks: the thorough scenario files have millions of lines
    use std::io::BufRead;
    let file = std::io::BufReader::new(std::fs::File::open(&args[0]).expect("scenario file"));
    let mut lines = file.lines();
    let mut n = 0usize;
    let mut checks = 0;
    let mut mism: Vec<Value> = Vec::new();
    let mut samples: Vec<Value> = Vec::new();
    generic_vs_mode_builders(&maps, &mut mism, &mut checks);
    loop {
        let chunk: Vec<Scenario> = lines.by_ref().take(100_000).map(|l| serde_json::from_str(&l.expect("readable line")).expect("scenario shape")).collect();
        if chunk.is_empty() {
            break;
        }
        let base = n;
        n += chunk.len();
        if samples.len() < 3 {
            samples.extend(chunk.iter().filter(|s| s.calls.len() >= 2).take(3 - samples.len()).map(|s| json!({"aspect": s.aspect, "calls": s.calls, "entry": s.entry})));
        }
        let res = par_map(chunk.len(), n_threads(), |j| {
            let mut out = Vec::new();
            let mut checks = 0;
            if chunk[j].aspect == "setters" {
                run_setters(base + j, &chunk[j], &maps, &mut out, &mut checks);
            } else {
                run_entry(base + j, &chunk[j], &maps, &mut out, &mut checks);
            }
            (checks, out)
        });
        for (c, m) in res {
            checks += c;
            if mism.len() < 5000 {
                mism.extend(m);
            }
        }
    }
    let mut by: BTreeMap<String, u64> = BTreeMap::new();
    for m in &mism {
        *by.entry(format!("{}/{}", m["what"].as_str().unwrap_or("?"), m["mode"].as_str().unwrap_or("-"))).or_default() += 1;
    }
    let mut seen: BTreeMap<String, u32> = BTreeMap::new();
    let mut records = Vec::new();
    for m in &mism {
        let c = seen.entry(format!("{}/{}", m["what"], m["mode"])).or_default();
        if *c < 3 {
            *c += 1;
            let mut r = m.clone();
            if let Some(mode) = m["mode"].as_str() {
                if let Some((_, t)) = maps.by_mode.get(mode) {
                    r["osu_text"] = json!(t);
                }
            }
            records.push(r);
        }
    }
    let samples: Vec<Value> = samples;
    let out = json!({"scenarios": n, "checks": checks, "mismatches": mism.len(), "by_class": by, "records": records, "samples": samples});
    std::fs::write(&args[1], serde_json::to_string_pretty(&out).unwrap()).unwrap();
    println!("builders-replay: scenarios={} checks={} mismatches={}", n, checks, mism.len());
    0
}
