use rosu_pp::any::{DifficultyAttributes, PerformanceAttributes};
use serde_json::Value;
use std::io::{BufRead, BufReader};
use std::panic::{catch_unwind, AssertUnwindSafe};
use std::sync::atomic::{AtomicUsize, Ordering};
use std::sync::Mutex;

pub fn silence_panics() {
    std::panic::set_hook(Box::new(|_| {}));
}

/// Run `f`, turning a panic into `Err(message)`. A panic in the code under
/// test is data, never a crash of the harness.
pub fn guarded<T>(f: impl FnOnce() -> T) -> Result<T, String> {
    catch_unwind(AssertUnwindSafe(f)).map_err(|e| {
        if let Some(s) = e.downcast_ref::<&str>() {
            (*s).to_string()
        } else if let Some(s) = e.downcast_ref::<String>() {
            s.clone()
        } else {
            "panic".to_string()
        }
    })
}

pub fn read_ndjson(path: &str) -> Vec<Value> {
    let f = std::fs::File::open(path).unwrap_or_else(|e| {
        eprintln!("cannot open {path}: {e}");
        std::process::exit(2)
    });
    BufReader::new(f)
        .lines()
        .map(|l| l.unwrap())
        .filter(|l| !l.trim().is_empty())
        .map(|l| {
            serde_json::from_str(&l).unwrap_or_else(|e| {
                eprintln!("bad json line in {path}: {e}");
                std::process::exit(2)
            })
        })
        .collect()
}

/// The 5-vector of counts of the specification (see Gradual.tla).
pub fn counts(a: &DifficultyAttributes) -> [u32; 5] {
    match a {
        DifficultyAttributes::Osu(a) => [
            a.n_circles,
            a.n_sliders,
            a.n_large_ticks,
            a.n_spinners,
            a.max_combo,
        ],
        DifficultyAttributes::Taiko(a) => [a.max_combo, 0, 0, 0, 0],
        DifficultyAttributes::Catch(a) => [a.n_fruits, a.n_droplets, a.n_tiny_droplets, 0, 0],
        DifficultyAttributes::Mania(a) => [a.n_objects, a.n_hold_notes, a.max_combo, 0, 0],
    }
}

pub fn dbg_attrs(a: &DifficultyAttributes) -> String {
    format!("{a:?}")
}

pub fn dbg_perf(a: &PerformanceAttributes) -> String {
    format!("{a:?}")
}

/// Run `work(i)` for i in 0..n on `threads` threads, collecting results.
pub fn par_map<T: Send, F: Fn(usize) -> T + Sync>(n: usize, threads: usize, work: F) -> Vec<T> {
    let next = AtomicUsize::new(0);
    let out: Mutex<Vec<(usize, T)>> = Mutex::new(Vec::with_capacity(n));
    std::thread::scope(|s| {
        for _ in 0..threads.max(1) {
            s.spawn(|| {
                let mut local = Vec::new();
                loop {
                    let i = next.fetch_add(1, Ordering::Relaxed);
                    if i >= n {
                        break;
                    }
                    local.push((i, work(i)));
                }
                out.lock().unwrap().extend(local);
            });
        }
    });
    let mut v = out.into_inner().unwrap();
    v.sort_by_key(|(i, _)| *i);
    v.into_iter().map(|(_, t)| t).collect()
}

pub fn n_threads() -> usize {
    std::env::var("VERIF_THREADS")
        .ok()
        .and_then(|s| s.parse().ok())
        .unwrap_or_else(|| {
            std::thread::available_parallelism()
                .map(|n| n.get())
                .unwrap_or(4)
        })
}

pub fn hash_str(s: &str) -> u64 {
    // FNV-1a
    let mut h: u64 = 0xcbf29ce484222325;
    for b in s.bytes() {
        h ^= b as u64;
        h = h.wrapping_mul(0x100000001b3);
    }
    h
}
