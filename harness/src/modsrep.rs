//! C08: results do not depend on how equivalent settings are expressed.
//!  * accessor vectors of every representation (hook `GameMods::verif_flags`)
//!    vs the model's (MC_ModsRep), for every coherent selection TLC enumerated;
//!  * end-to-end difficulty / strains / performance identical across the
//!    representations for a covering subset of the selections;
//!  * lazer rate mods == clock_rate(r), lazer DifficultyAdjust == overrides.

use crate::absmap::{concretize, profile};
use crate::gradual::random_objs;
use crate::util::*;
use rand::{rngs::StdRng, SeedableRng};
use rosu_mods::generated_mods as gm;
use rosu_mods::{GameMod, GameModIntermode, GameMode as RmMode, GameModsIntermode, GameModsLegacy};
use rosu_pp::{Beatmap, Difficulty, GameMods, Performance};
use serde::{Deserialize, Serialize};
use serde_json::{json, Value};
use std::collections::BTreeMap;

#[derive(Clone, Debug, Deserialize, Serialize)]
pub struct Vec16 {
    pub nf: bool,
    pub ez: bool,
    pub td: bool,
    pub hd: bool,
    pub hr: bool,
    pub rx: bool,
    pub fl: bool,
    pub so: bool,
    pub ap: bool,
    pub lazer_only: bool,
    pub clock_rate: String,
    pub multiplier: String,
    pub hr_offsets: bool,
    pub no_slider_head_acc: bool,
    pub reflection: String,
    pub mania_keys: u32,
}

#[derive(Clone, Debug, Deserialize, Serialize)]
pub struct Scenario {
    pub mods: Vec<String>,
    pub key: u32,
    pub mode: String,
    pub lazer: bool,
    pub vec: BTreeMap<String, Vec16>,
}

fn bit_of(a: &str) -> u32 {
    match a {
        "NF" => 1,
        "EZ" => 2,
        "TD" => 4,
        "HD" => 8,
        "HR" => 16,
        "DT" => 64,
        "RX" => 128,
        "HT" => 256,
        "NC" => 512 | 64,
        "FL" => 1024,
        "SO" => 4096,
        "AP" => 8192,
        _ => 0,
    }
}
fn key_bit(k: u32) -> Option<u32> {
    Some(match k {
        0 => 0,
        1 => 1 << 26,
        2 => 1 << 28,
        3 => 1 << 27,
        4 => 1 << 15,
        5 => 1 << 16,
        6 => 1 << 17,
        7 => 1 << 18,
        8 => 1 << 19,
        9 => 1 << 24,
        _ => return None,
    })
}
fn rm_mode(m: &str) -> RmMode {
    match m {
        "osu" => RmMode::Osu,
        "taiko" => RmMode::Taiko,
        "catch" => RmMode::Catch,
        _ => RmMode::Mania,
    }
}

/// The representations of one selection: (name, which model vector applies, GameMods).
pub fn representations(sc: &Scenario) -> Vec<(&'static str, &'static str, GameMods)> {
    let mut bits: u32 = sc.mods.iter().map(|a| bit_of(a)).fold(0, |a, b| a | b);
    // legacy bits no accessor reads (SuddenDeath, Perfect, ScoreV2, Cinema) ride along in part of the selections: they must not
    // disturb any accessor nor make the representations disagree
    bits |= [0u32, 32, 16384 | 32, 1 << 29, 1 << 22][(sc.mods.len() * 3 + sc.key as usize + sc.mode.len()) % 5];
    let mut out: Vec<(&'static str, &'static str, GameMods)> = Vec::new();
    let mut im = GameModsIntermode::from_bits(bits);
    if let Some(kb) = key_bit(sc.key) {
        bits |= kb;
        im = GameModsIntermode::from_bits(bits);
        out.push(("u32", "legacy", GameMods::from(bits)));
        out.push(("GameModsLegacy", "legacy", GameMods::from(GameModsLegacy::from_bits(bits))));
        // borrowed intermode goes through checked_bits and becomes legacy
        out.push(("&GameModsIntermode", "legacy", GameMods::from(&im)));
    } else {
        im.insert(GameModIntermode::TenKeys);
        out.push(("&GameModsIntermode", "intermode", GameMods::from(&im)));
    }
    out.push(("GameModsIntermode", "intermode", GameMods::from(im.clone())));
    out.push(("lazer", "lazer", GameMods::from(im.with_mode(rm_mode(&sc.mode)))));
    out
}

fn want_vector(v: &Vec16) -> BTreeMap<&'static str, String> {
    let mut m = BTreeMap::new();
    m.insert("nf", v.nf.to_string());
    m.insert("ez", v.ez.to_string());
    m.insert("td", v.td.to_string());
    m.insert("hd", v.hd.to_string());
    m.insert("hr", v.hr.to_string());
    m.insert("rx", v.rx.to_string());
    m.insert("fl", v.fl.to_string());
    m.insert("so", v.so.to_string());
    m.insert("ap", v.ap.to_string());
    for f in ["bl", "cl", "invert", "ho", "tc"] {
        m.insert(f, v.lazer_only.to_string());
    }
    m.insert("clock_rate", v.clock_rate.clone());
    m.insert("od_ar_hp_multiplier", v.multiplier.clone());
    m.insert("hardrock_offsets", v.hr_offsets.to_string());
    m.insert("no_slider_head_acc", v.no_slider_head_acc.to_string());
    m.insert("reflection", v.reflection.clone());
    m.insert("mania_keys", if v.mania_keys == 0 { "None".into() } else { format!("Some({:?})", v.mania_keys as f32) });
    for f in ["scroll_speed", "random_seed", "ar", "cs", "hp", "od"] {
        m.insert(f, "None".into());
    }
    m
}

struct Maps {
    by_mode: BTreeMap<String, Vec<(Beatmap, String)>>,
}

fn maps(seed: u64) -> Maps {
    let mut rng = StdRng::seed_from_u64(seed ^ 0x30d5);
    let mut by_mode = BTreeMap::new();
    for mode in ["osu", "taiko", "catch", "mania"] {
        let mut v = Vec::new();
        for n in [8usize, 3] {
            let objs = random_objs(&mut rng, mode, n);
            let text = concretize(mode, &objs, &profile((seed as u32).wrapping_add(n as u32)));
            v.push((Beatmap::from_bytes(text.as_bytes()).expect("decodes"), text));
        }
        // a convertible osu map for the non-osu modes (key mods only matter for converts)
        if mode != "osu" {
            let objs = random_objs(&mut rng, "osu", 9);
            let text = concretize("osu", &objs, &profile(seed as u32 + 1));
            v.push((Beatmap::from_bytes(text.as_bytes()).expect("decodes"), text));
        }
        by_mode.insert(mode.to_string(), v);
    }
    Maps { by_mode }
}

fn end_to_end(mods: &GameMods, map: &Beatmap, mode: &str, lazer: bool, k: usize) -> String {
    let gmode = match mode {
        "osu" => rosu_pp::model::mode::GameMode::Osu,
        "taiko" => rosu_pp::model::mode::GameMode::Taiko,
        "catch" => rosu_pp::model::mode::GameMode::Catch,
        _ => rosu_pp::model::mode::GameMode::Mania,
    };
    let r = guarded(|| {
        let conv = map.convert_ref(gmode, mods).expect("convertible").into_owned();
        let d = Difficulty::new().mods(mods.clone()).lazer(lazer);
        let attrs = d.calculate(&conv);
        let strains = d.strains(&conv);
        let p = Performance::new(&conv).difficulty(d.clone());
        let p = if k % 2 == 0 { p } else { p.accuracy(96.3).misses(1) };
        format!("{:?}\n{:?}\n{:?}", attrs, strains, p.calculate())
    });
    r.unwrap_or_else(|p| format!("PANIC {p}"))
}

/// `mods-replay <scenarios.ndjson> <out.json> --tier T`
pub fn main(args: &[String]) -> i32 {
    silence_panics();
    let tier = args.iter().position(|a| a == "--tier").map(|i| args[i + 1].clone()).unwrap_or("quick".into());
    let seed: u64 = std::env::var("VERIF_SEED").ok().and_then(|s| s.parse().ok()).unwrap_or(0);
    let scenarios: Vec<Scenario> = read_ndjson(&args[0]).into_iter().map(|v| serde_json::from_value(v).expect("scenario shape")).collect();
    let maps = maps(seed);
    let n = scenarios.len();
    let res = par_map(n, n_threads(), |i| {
        let sc = &scenarios[i];
        let mut out: Vec<Value> = Vec::new();
        let mut checks = 0u64;
        let reps = representations(sc);
        // accessor vectors vs the model
        for (name, which, mods) in &reps {
            checks += 1;
            let want = want_vector(&sc.vec[*which]);
            let got: BTreeMap<&str, String> = mods.verif_flags(sc.lazer).into_iter().collect();
            for (f, w) in &want {
                let g = got.get(f).cloned().unwrap_or_default();
                if *w != g {
                    out.push(json!({"what": "accessor", "scenario_index": i, "scenario": {"mods": sc.mods, "key": sc.key, "mode": sc.mode, "lazer": sc.lazer},
                        "representation": name, "field": f, "expected": w, "observed": g}));
                }
            }
        }
        // the legacy Mirror bit (1 << 30, above the bits the legacy type names): the non-lazer representations do not reflect for it,
        // so with it they must answer every accessor as without it (and as each other)
        if sc.key == 0 {
            let bits30 = sc.mods.iter().map(|a| bit_of(a)).fold(0u32, |a, b| a | b) | (1 << 30);
            let im30 = GameModsIntermode::from_bits(bits30);
            let with_mirror: Vec<(&str, GameMods)> = vec![("u32", GameMods::from(bits30)), ("GameModsLegacy", GameMods::from(GameModsLegacy::from_bits(bits30))),
                ("&GameModsIntermode", GameMods::from(&im30)), ("GameModsIntermode", GameMods::from(im30.clone()))];
            let want = want_vector(&sc.vec["legacy"]);
            for (name, mods) in &with_mirror {
                checks += 1;
                let got: BTreeMap<&str, String> = mods.verif_flags(sc.lazer).into_iter().collect();
                for (f, w) in &want {
                    let g = got.get(f).cloned().unwrap_or_default();
                    if *w != g {
                        out.push(json!({"what": "accessor_with_mirror_bit", "scenario_index": i, "scenario": {"mods": sc.mods, "key": sc.key, "mode": sc.mode, "lazer": sc.lazer},
                            "representation": name, "field": f, "expected": w, "observed": g}));
                    }
                }
            }
        }
        // end to end on a covering subset: <= 2 mods always, larger selections by seed
        let small = sc.mods.len() <= 2;
        let pick = small || (hash_str(&format!("{seed}/{i}")) % (if tier == "thorough" { 4 } else { 40 })) == 0;
        if pick && (sc.key == 0 || sc.mode == "mania") {
            for (mi, (map, _)) in maps.by_mode[&sc.mode].iter().enumerate() {
                if sc.key != 0 && mi != 2 && mi != 0 {
                    continue;
                }
                let base = end_to_end(&reps[0].2, map, &sc.mode, sc.lazer, i);
                checks += 1;
                for (name, _, mods) in reps.iter().skip(1) {
                    let r = end_to_end(mods, map, &sc.mode, sc.lazer, i);
                    if r != base {
                        out.push(json!({"what": "result", "scenario_index": i, "scenario": {"mods": sc.mods, "key": sc.key, "mode": sc.mode, "lazer": sc.lazer},
                            "representation": name, "versus": reps[0].0, "map_index": mi,
                            "expected": base.chars().take(600).collect::<String>(), "observed": r.chars().take(600).collect::<String>()}));
                    }
                }
            }
        }
        (checks, out)
    });
    let mut checks = 0;
    let mut mism: Vec<Value> = Vec::new();
    for (c, m) in res {
        checks += c;
        mism.extend(m);
    }
    // rate mods and DifficultyAdjust (model: Lazer(DT(r)) == clock_rate(r); DA(x) == override(x, false))
    let mut extra = 0u64;
    let rates: Vec<f64> = if tier == "thorough" { (10..=40).map(|i| i as f64 * 0.05).collect() } else { vec![0.5, 0.75, 1.0, 1.25, 1.5, 1.85, 2.0] };
    let values: Vec<f64> = if tier == "thorough" { (0..=22).map(|i| i as f64 * 0.5).collect() } else { vec![0.0, 3.5, 7.0, 9.5, 10.0, 11.0] };
    for mode in ["osu", "taiko", "catch", "mania"] {
        let (map, text) = &maps.by_mode[mode][0];
        for (&r, core) in rates.iter().flat_map(|r| [(r, false), (r, true)]) {
            // core = false: DoubleTime / HalfTime, core = true: Nightcore / Daycore (same rate semantics, separate mod types)
            let lazer_mods: rosu_mods::GameMods = {
                let mut m = rosu_mods::GameMods::new();
                let sc = Some(r);
                m.insert(match (r >= 1.0, core, mode) {
                    (true, false, "osu") => GameMod::DoubleTimeOsu(gm::DoubleTimeOsu { speed_change: sc, ..Default::default() }),
                    (true, false, "taiko") => GameMod::DoubleTimeTaiko(gm::DoubleTimeTaiko { speed_change: sc, ..Default::default() }),
                    (true, false, "catch") => GameMod::DoubleTimeCatch(gm::DoubleTimeCatch { speed_change: sc, ..Default::default() }),
                    (true, false, _) => GameMod::DoubleTimeMania(gm::DoubleTimeMania { speed_change: sc, ..Default::default() }),
                    (true, true, "osu") => GameMod::NightcoreOsu(gm::NightcoreOsu { speed_change: sc, ..Default::default() }),
                    (true, true, "taiko") => GameMod::NightcoreTaiko(gm::NightcoreTaiko { speed_change: sc, ..Default::default() }),
                    (true, true, "catch") => GameMod::NightcoreCatch(gm::NightcoreCatch { speed_change: sc, ..Default::default() }),
                    (true, true, _) => GameMod::NightcoreMania(gm::NightcoreMania { speed_change: sc, ..Default::default() }),
                    (false, false, "osu") => GameMod::HalfTimeOsu(gm::HalfTimeOsu { speed_change: sc, ..Default::default() }),
                    (false, false, "taiko") => GameMod::HalfTimeTaiko(gm::HalfTimeTaiko { speed_change: sc, ..Default::default() }),
                    (false, false, "catch") => GameMod::HalfTimeCatch(gm::HalfTimeCatch { speed_change: sc, ..Default::default() }),
                    (false, false, _) => GameMod::HalfTimeMania(gm::HalfTimeMania { speed_change: sc, ..Default::default() }),
                    (false, true, "osu") => GameMod::DaycoreOsu(gm::DaycoreOsu { speed_change: sc, ..Default::default() }),
                    (false, true, "taiko") => GameMod::DaycoreTaiko(gm::DaycoreTaiko { speed_change: sc, ..Default::default() }),
                    (false, true, "catch") => GameMod::DaycoreCatch(gm::DaycoreCatch { speed_change: sc, ..Default::default() }),
                    (false, true, _) => GameMod::DaycoreMania(gm::DaycoreMania { speed_change: sc, ..Default::default() }),
                });
                m
            };
            extra += 1;
            let a = guarded(|| {
                let d = Difficulty::new().mods(lazer_mods.clone());
                format!("{:?}|{:?}|{:?}", d.calculate(map), d.strains(map), Performance::new(map).difficulty(d.clone()).accuracy(97.0).calculate())
            });
            // Nightcore / Daycore split the speed change into a fixed frequency adjustment (1.5 / 0.75) and a tempo adjustment, as
            // lazer does: the rate they stand for is default * (r / default), which is r up to one ulp (and exactly r on most grids)
            let r_ref = if core { let dflt = if r >= 1.0 { 1.5 } else { 0.75 }; dflt * (r / dflt) } else { r };
            let b = guarded(|| {
                let d = Difficulty::new().clock_rate(r_ref);
                format!("{:?}|{:?}|{:?}", d.calculate(map), d.strains(map), Performance::new(map).difficulty(d.clone()).accuracy(97.0).calculate())
            });
            // the explicit rate next to OTHER mods, with the two setters in either order (each setter is independent of the
            // other; the rate mod of the same selection says the same thing in one call)
            for other in [8u32, 16, 64, 256, 64 | 512] {
                extra += 1;
                let first_rate = guarded(|| format!("{:?}", Difficulty::new().clock_rate(r_ref).mods(other).calculate(map)));
                let first_mods = guarded(|| format!("{:?}", Difficulty::new().mods(other).clock_rate(r_ref).calculate(map)));
                let perf_rate = guarded(|| format!("{:?}", Performance::new(map).clock_rate(r_ref).mods(other).accuracy(97.0).calculate().difficulty_attributes()));
                if first_rate != first_mods || perf_rate != first_mods {
                    mism.push(json!({"what": "clock_rate_and_mods_in_either_order", "mode": mode, "rate": r, "nightcore_or_daycore": core, "osu_text": text,
                        "expected": format!("{first_mods:?}").chars().take(400).collect::<String>(), "observed": format!("{first_rate:?} / Performance: {perf_rate:?}").chars().take(600).collect::<String>()}));
                }
            }
            if a != b {
                mism.push(json!({"what": "rate_mod_vs_clock_rate", "mode": mode, "rate": r, "nightcore_or_daycore": core, "osu_text": text,
                    "expected": format!("{b:?}").chars().take(500).collect::<String>(), "observed": format!("{a:?}").chars().take(500).collect::<String>()}));
            }
        }
        for &x in &values {
            for field in ["ar", "cs", "hp", "od"] {
                if (field == "ar" || field == "cs") && (mode == "taiko" || mode == "mania") {
                    continue;
                }
                let v = Some(x);
                let da: Option<GameMod> = match (mode, field) {
                    ("osu", "ar") => Some(GameMod::DifficultyAdjustOsu(gm::DifficultyAdjustOsu { approach_rate: v, ..Default::default() })),
                    ("osu", "cs") => Some(GameMod::DifficultyAdjustOsu(gm::DifficultyAdjustOsu { circle_size: v, ..Default::default() })),
                    ("osu", "hp") => Some(GameMod::DifficultyAdjustOsu(gm::DifficultyAdjustOsu { drain_rate: v, ..Default::default() })),
                    ("osu", "od") => Some(GameMod::DifficultyAdjustOsu(gm::DifficultyAdjustOsu { overall_difficulty: v, ..Default::default() })),
                    ("taiko", "hp") => Some(GameMod::DifficultyAdjustTaiko(gm::DifficultyAdjustTaiko { drain_rate: v, ..Default::default() })),
                    ("taiko", "od") => Some(GameMod::DifficultyAdjustTaiko(gm::DifficultyAdjustTaiko { overall_difficulty: v, ..Default::default() })),
                    ("catch", "ar") => Some(GameMod::DifficultyAdjustCatch(gm::DifficultyAdjustCatch { approach_rate: v, ..Default::default() })),
                    ("catch", "cs") => Some(GameMod::DifficultyAdjustCatch(gm::DifficultyAdjustCatch { circle_size: v, ..Default::default() })),
                    ("catch", "hp") => Some(GameMod::DifficultyAdjustCatch(gm::DifficultyAdjustCatch { drain_rate: v, ..Default::default() })),
                    ("catch", "od") => Some(GameMod::DifficultyAdjustCatch(gm::DifficultyAdjustCatch { overall_difficulty: v, ..Default::default() })),
                    ("mania", "hp") => Some(GameMod::DifficultyAdjustMania(gm::DifficultyAdjustMania { drain_rate: v, ..Default::default() })),
                    ("mania", "od") => Some(GameMod::DifficultyAdjustMania(gm::DifficultyAdjustMania { overall_difficulty: v, ..Default::default() })),
                    _ => None,
                };
                let Some(da) = da else { continue };
              // alone and next to HardRock / Easy: DifficultyAdjust must only replace the value, not what else the other mods do
              for with in ["", "HR", "EZ"] {
                let mut lm = rosu_mods::GameMods::new();
                lm.insert(da.clone());
                let bits = match (with, mode) {
                    ("", _) => 0u32,
                    ("HR", "osu") => { lm.insert(GameMod::HardRockOsu(Default::default())); 16 }
                    ("HR", "taiko") => { lm.insert(GameMod::HardRockTaiko(Default::default())); 16 }
                    ("HR", "catch") => { lm.insert(GameMod::HardRockCatch(Default::default())); 16 }
                    ("HR", _) => { lm.insert(GameMod::HardRockMania(Default::default())); 16 }
                    (_, "osu") => { lm.insert(GameMod::EasyOsu(Default::default())); 2 }
                    (_, "taiko") => { lm.insert(GameMod::EasyTaiko(Default::default())); 2 }
                    (_, "catch") => { lm.insert(GameMod::EasyCatch(Default::default())); 2 }
                    (_, _) => { lm.insert(GameMod::EasyMania(Default::default())); 2 }
                };
                extra += 1;
                let a = guarded(|| {
                    let d = Difficulty::new().mods(lm.clone());
                    format!("{:?}|{:?}", d.calculate(map), Performance::new(map).difficulty(d.clone()).accuracy(97.0).calculate())
                });
                let b = guarded(|| {
                    let d = Difficulty::new().mods(bits);
                    let d = match field {
                        "ar" => d.ar(x as f32, false),
                        "cs" => d.cs(x as f32, false),
                        "hp" => d.hp(x as f32, false),
                        _ => d.od(x as f32, false),
                    };
                    format!("{:?}|{:?}", d.calculate(map), Performance::new(map).difficulty(d.clone()).accuracy(97.0).calculate())
                });
                // an EXPLICIT value on the Difficulty wins over the DifficultyAdjust value of the same attribute (both with_mods
                // settings): DifficultyAdjust x + explicit y = explicit y alone
                for wm in [false, true] {
                    extra += 1;
                    let y = (10.0 - x as f32).clamp(0.0, 10.0) * 0.5 + 1.5;
                    let set = |d: Difficulty| match field {
                        "ar" => d.ar(y, wm),
                        "cs" => d.cs(y, wm),
                        "hp" => d.hp(y, wm),
                        _ => d.od(y, wm),
                    };
                    let both = guarded(|| {
                        let d = set(Difficulty::new().mods(lm.clone()));
                        format!("{:?}|{:?}", d.calculate(map), map.attributes().difficulty(&d).build())
                    });
                    let alone = guarded(|| {
                        let d = set(Difficulty::new().mods(bits));
                        format!("{:?}|{:?}", d.calculate(map), map.attributes().difficulty(&d).build())
                    });
                    if both != alone {
                        mism.push(json!({"what": "explicit_value_wins_over_difficulty_adjust", "mode": mode, "field": field, "value": x, "with": with, "osu_text": text,
                            "expected": format!("{alone:?}").chars().take(500).collect::<String>(), "observed": format!("{both:?}").chars().take(500).collect::<String>()}));
                    }
                }
                if a != b {
                    mism.push(json!({"what": "difficulty_adjust_vs_override", "mode": mode, "field": field, "value": x, "with": with, "osu_text": text,
                        "expected": format!("{b:?}").chars().take(500).collect::<String>(), "observed": format!("{a:?}").chars().take(500).collect::<String>()}));
                }
              }
            }
        }
    }
    let mut by: BTreeMap<String, u64> = BTreeMap::new();
    for m in &mism {
        *by.entry(format!("{}/{}", m["what"].as_str().unwrap_or("?"), m["field"].as_str().or(m["representation"].as_str()).unwrap_or("-"))).or_default() += 1;
    }
    let mut seen: BTreeMap<String, u32> = BTreeMap::new();
    let mut records = Vec::new();
    for m in &mism {
        let c = seen.entry(format!("{}/{}/{}", m["what"], m["field"], m["representation"])).or_default();
        if *c < 3 {
            *c += 1;
            records.push(m.clone());
        }
    }
    let samples: Vec<Value> = scenarios.iter().step_by((n / 3).max(1)).take(3).map(|s| json!({"mods": s.mods, "key": s.key, "mode": s.mode, "lazer": s.lazer})).collect();
    let out = json!({"scenarios": n, "checks": checks, "rate_and_da_checks": extra, "mismatches": mism.len(), "by_class": by, "records": records, "samples": samples});
    std::fs::write(&args[1], serde_json::to_string_pretty(&out).unwrap()).unwrap();
    println!("mods-replay: scenarios={} checks={} rate_and_da_checks={} mismatches={}", n, checks, extra, mism.len());
    0
}
