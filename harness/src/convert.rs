//! C19: converted maps are well-formed inputs of their target mode.
//!  * `convert-replay`: every row of the mania key-count decision table
//!    (MC_Convert) is concretised and converted; the real key count must equal
//!    the model's.
//!  * `convert-record`: conversions of generated id-carrying maps, fixtures and
//!    mutated fixtures are logged (source + converted projection) for
//!    TraceConvert.tla.

use crate::settings::Cfg;
use crate::util::*;
use rand::{rngs::StdRng, Rng, SeedableRng};
use rosu_pp::model::hit_object::HitObjectKind;
use rosu_pp::model::mode::GameMode;
use rosu_pp::Beatmap;
use serde::Deserialize;
use serde_json::{json, Value};
use std::fmt::Write;

#[derive(Clone, Debug, Deserialize)]
struct Row {
    #[serde(rename = "keyMod")]
    key_mod: u32,
    n: usize,
    s: usize,
    cs: u32,
    od: u32,
}
#[derive(Clone, Debug, Deserialize)]
struct RowScenario {
    row: Row,
    keys: u32,
}

struct GenObj {
    id: usize,
    t: f64,
    kind: char,
    snd: u32,
    len: f64,
    slides: u32,
    dur: f64,
}

fn render(version: u32, mode: u32, cs: f64, od: f64, sm: f64, tr: f64, timing: &[(f64, f64, bool, bool)], objs: &[GenObj]) -> String {
    let mut s = String::new();
    let _ = writeln!(s, "osu file format v{version}\n\n[General]\nMode: {mode}\n");
    let _ = writeln!(s, "[Difficulty]\nHPDrainRate:5\nCircleSize:{cs}\nOverallDifficulty:{od}\nApproachRate:8\nSliderMultiplier:{sm}\nSliderTickRate:{tr}\n");
    let _ = writeln!(s, "[TimingPoints]");
    for (t, bl, unin, kiai) in timing {
        let _ = writeln!(s, "{t},{bl},4,2,0,100,{},{}", u8::from(*unin), u8::from(*kiai));
    }
    let _ = writeln!(s, "\n[HitObjects]");
    for o in objs {
        let (x, t, snd) = (o.id, o.t, o.snd);
        match o.kind {
            'C' => {
                let _ = writeln!(s, "{x},192,{t},1,{snd}");
            }
            'S' => {
                let nodes: Vec<String> = (0..o.slides + 1).map(|i| ((snd + i * 2) % 16).to_string()).collect();
                let _ = writeln!(s, "{x},192,{t},2,{snd},L|{}:192,{},{},{}", x as f64 + o.len.min(300.0), o.slides, o.len, nodes.join("|"));
            }
            'P' => {
                let _ = writeln!(s, "{x},192,{t},12,{snd},{}", t + o.dur);
            }
            _ => {
                let _ = writeln!(s, "{x},192,{t},128,{snd},{}:0:0:0:0:", t + o.dur);
            }
        }
    }
    s
}

fn key_mods(k: u32) -> Cfg {
    if k == 0 {
        Cfg::default()
    } else {
        Cfg::default().with_acronyms(&format!("{k}K"))
    }
}

/// `convert-replay <scenarios.ndjson> <out.json>`
pub fn replay_main(args: &[String]) -> i32 {
    silence_panics();
    let scenarios: Vec<RowScenario> = read_ndjson(&args[0]).into_iter().map(|v| serde_json::from_value(v).expect("row shape")).collect();
    let n = scenarios.len();
    let res = par_map(n, n_threads(), |i| {
        let sc = &scenarios[i];
        let r = &sc.row;
        // n objects of which s are sliders / spinners (alternating), rounded cs / od as given
        let mut objs = Vec::new();
        for j in 0..r.n {
            let kind = if j < r.s { if j % 2 == 0 { 'S' } else { 'P' } } else { 'C' };
            objs.push(GenObj { id: j + 1, t: 1000.0 + 400.0 * j as f64, kind, snd: (j as u32 * 7) % 16, len: 150.0, slides: 1, dur: 300.0 });
        }
        // values that round (ties to even) to the row's cs / od
        let cs = r.cs as f64 + if i % 2 == 0 { 0.3 } else { -0.4 };
        let od = r.od as f64 + if i % 3 == 0 { 0.4 } else { -0.3 };
        // exact ties: x.5 rounds to the EVEN neighbour, so an even row value is also reached from both halves next to it
        let cs = if r.cs % 2 == 0 && i % 5 == 0 { r.cs as f64 + if i % 10 == 0 { 0.5 } else { -0.5 } } else { cs };
        let od = if r.od % 2 == 0 && i % 7 == 0 { r.od as f64 + if i % 14 == 0 { 0.5 } else { -0.5 } } else { od };
        let cs = cs.clamp(0.0, 10.0);
        let od = od.clamp(0.0, 10.0);
        let text = render(14, 0, cs, od, 1.4, 1.0, &[(0.0, 500.0, true, false)], &objs);
        let map = match Beatmap::from_bytes(text.as_bytes()) {
            Ok(m) => m,
            Err(e) => return Some(json!({"what": "decode", "row": i, "observed": e.to_string()})),
        };
        if map.hit_objects.len() != r.n {
            return Some(json!({"what": "machinery", "row": i, "observed": map.hit_objects.len()}));
        }
        let cfg = key_mods(r.key_mod);
        let conv = guarded(|| map.convert(GameMode::Mania, &cfg.game_mods()));
        match conv {
            Ok(Ok(m)) => {
                let keys = m.cs.round() as u32;
                if keys != sc.keys || (m.cs - keys as f32).abs() > 1e-6 {
                    Some(json!({"what": "key_count", "row_index": i, "row": {"keyMod": r.key_mod, "n": r.n, "s": r.s, "cs": r.cs, "od": r.od},
                        "expected": sc.keys, "observed": m.cs, "text": text}))
                } else {
                    None
                }
            }
            Ok(Err(e)) => Some(json!({"what": "convert_error", "row_index": i, "observed": e.to_string(), "text": text})),
            Err(p) => Some(json!({"what": "panic", "row_index": i, "observed": p, "text": text})),
        }
    });
    let mism: Vec<Value> = res.into_iter().flatten().collect();
    let out = json!({"rows": n, "mismatches": mism.len(), "records": mism.iter().take(20).collect::<Vec<_>>()});
    std::fs::write(&args[1], serde_json::to_string_pretty(&out).unwrap()).unwrap();
    println!("convert-replay: rows={} mismatches={}", n, mism.len());
    0
}

fn ranks(vals: &[f64]) -> Vec<i64> {
    let mut sorted: Vec<f64> = vals.to_vec();
    sorted.sort_by(|a, b| a.total_cmp(b));
    sorted.dedup_by(|a, b| a.total_cmp(b) == std::cmp::Ordering::Equal);
    vals.iter().map(|v| sorted.binary_search_by(|p| p.total_cmp(v)).unwrap() as i64).collect()
}

fn kind_char(k: &HitObjectKind) -> &'static str {
    match k {
        HitObjectKind::Circle => "C",
        HitObjectKind::Slider(_) => "S",
        HitObjectKind::Spinner(_) => "P",
        HitObjectKind::Hold(_) => "H",
    }
}

fn sound_bits(s: &rosu_pp::model::hit_object::HitSoundType) -> i64 {
    (0..8).filter(|b| s.has_flag(1u8 << b)).map(|b| 1i64 << b).sum()
}

fn project(map: &Beatmap, paired: bool) -> Value {
    let mut finite = true;
    let mut negdur = false;
    for h in &map.hit_objects {
        finite &= h.start_time.is_finite() && h.pos.x.is_finite() && h.pos.y.is_finite();
        match &h.kind {
            HitObjectKind::Spinner(s) => {
                finite &= s.duration.is_finite();
                negdur |= s.duration < 0.0;
            }
            HitObjectKind::Hold(s) => {
                finite &= s.duration.is_finite();
                negdur |= s.duration < 0.0;
            }
            _ => {}
        }
    }
    for p in &map.effect_points {
        finite &= p.time.is_finite() && p.scroll_speed.is_finite();
    }
    let or = ranks(&map.hit_objects.iter().map(|h| h.start_time).collect::<Vec<_>>());
    let objs: Vec<Value> = map
        .hit_objects
        .iter()
        .zip(or)
        .enumerate()
        .map(|(i, (h, r))| {
            json!({
                "id": if paired { h.pos.x.round() as i64 } else { 0 },
                "t": r,
                "kind": kind_char(&h.kind),
                "snd": if paired { map.hit_sounds.get(i).map_or(-1, sound_bits) } else { -1 },
                "x1000": (h.pos.x as f64 * 1000.0).floor().clamp(-1e9, 1e9) as i64,
            })
        })
        .collect();
    let nslsp = map.hit_objects.iter().filter(|h| matches!(h.kind, HitObjectKind::Slider(_) | HitObjectKind::Spinner(_))).count();
    json!({
        "mode": match map.mode { GameMode::Osu => "osu", GameMode::Taiko => "taiko", GameMode::Catch => "catch", GameMode::Mania => "mania" },
        "conv": map.is_convert,
        "paired": paired,
        "finite": finite,
        "negdur": negdur,
        "objs": objs,
        "sounds": map.hit_sounds.iter().map(sound_bits).collect::<Vec<_>>(),
        "nslsp": nslsp,
        "cs": (map.cs as f64).round_ties_even() as i64,
        "od": (map.od as f64).round_ties_even() as i64,
        "keys": map.cs.round() as i64,
        "keys_exact": (map.cs - map.cs.round()).abs() < 1e-6,
        "timing": ranks(&map.timing_points.iter().map(|p| p.time).collect::<Vec<_>>()),
        "difficulty": ranks(&map.difficulty_points.iter().map(|p| p.time).collect::<Vec<_>>()),
        "effect": ranks(&map.effect_points.iter().map(|p| p.time).collect::<Vec<_>>()),
    })
}

/// `convert-record <out.ndjson> --tier T`
pub fn record_main(args: &[String]) -> i32 {
    silence_panics();
    let tier = args.iter().position(|a| a == "--tier").map(|i| args[i + 1].clone()).unwrap_or("quick".into());
    let seed: u64 = std::env::var("VERIF_SEED").ok().and_then(|s| s.parse().ok()).unwrap_or(0);
    let mut rng = StdRng::seed_from_u64(seed ^ 0xc0417e47);
    let n_gen = if tier == "thorough" { 1500 } else { 150 };
    let mut lines = Vec::new();
    let mut push = |label: String, map: &Beatmap, paired: bool, rng: &mut StdRng| {
        for target in ["taiko", "catch", "mania"] {
            let keymod: u32 = if target == "mania" { [0, 0, 1, 4, 5, 7, 9, 10, 2, 3, 6, 8][rng.gen_range(0..12)] } else { 0 };
            let cfg = key_mods(keymod);
            let mode = match target {
                "taiko" => GameMode::Taiko,
                "catch" => GameMode::Catch,
                _ => GameMode::Mania,
            };
            let r = guarded(|| map.convert_ref(mode, &cfg.game_mods()).map(|c| c.into_owned()));
            let ev = match r {
                Ok(Ok(out)) => json!({"label": label, "target": target, "keymod": keymod, "ok": true, "panic": false,
                    "src": project(map, paired), "out": project(&out, paired && target != "mania")}),
                Ok(Err(e)) => json!({"label": label, "target": target, "keymod": keymod, "ok": false, "panic": false, "msg": e.to_string()}),
                Err(p) => json!({"label": label, "target": target, "keymod": keymod, "ok": false, "panic": true, "msg": p}),
            };
            lines.push(ev.to_string());
        }
    };
    // generated id-carrying osu maps
    for g in 0..n_gen {
        let n = rng.gen_range(0..18);
        let version = [7u32, 8, 14, 5][rng.gen_range(0..4)];
        let mut t = rng.gen_range(-500..2000) as f64;
        let mut objs = Vec::new();
        for j in 0..n {
            let kind = ['C', 'C', 'S', 'S', 'P', 'H'][rng.gen_range(0..6)];
            // (whole milliseconds mostly; sometimes a fraction above one half: the converters round some times and floor others)
            let gap = [0.0, 1.0, 125.0, 250.0, 500.0, 3000.0, 125.6, 0.7][rng.gen_range(0..8)];
            t += gap;
            objs.push(GenObj {
                id: j + 1,
                t,
                kind,
                snd: rng.gen_range(0..16),
                len: [0.0, 1.0, 35.0, 80.0, 150.0, 400.0, 2000.0][rng.gen_range(0..7)],
                slides: [1, 1, 2, 3, 10][rng.gen_range(0..5)],
                dur: [0.0, 50.0, 300.0, 2000.0][rng.gen_range(0..4)],
            });
        }
        let mut timing = vec![(rng.gen_range(-1000..500) as f64, [500.0, 300.0, 1000.0, 60.0][rng.gen_range(0..4)], true, false)];
        for _ in 0..rng.gen_range(0..6) {
            // control points often sit exactly on an object (kiai on/off, velocity changes at a slider)
            let tt = if !objs.is_empty() && rng.gen_bool(0.6) { objs[rng.gen_range(0..objs.len())].t } else { rng.gen_range(-500..6000) as f64 };
            if rng.gen_bool(0.6) {
                timing.push((tt, [-50.0, -100.0, -200.0, -25.0, -1000.0][rng.gen_range(0..5)], false, rng.gen()));
            } else {
                timing.push((tt, [400.0, 250.0, 750.0][rng.gen_range(0..3)], true, rng.gen()));
            }
        }
        let text = render(version, 0, rng.gen_range(0..11) as f64, rng.gen_range(0..11) as f64, [0.4, 1.0, 1.4, 2.2, 3.6][rng.gen_range(0..5)], [0.5, 1.0, 2.0, 4.0][rng.gen_range(0..4)], &timing, &objs);
        let Ok(map) = Beatmap::from_bytes(text.as_bytes()) else { continue };
        push(format!("generated {g} v{version} n={n}"), &map, true, &mut rng);
        // the same map with positions anywhere a file may put them (also left / right of the playfield); ids are gone, so only the
        // mode-level facts are compared
        if g % 2 == 0 {
            let mut in_objs = false;
            let moved: String = text.lines().map(|l| {
                if l.trim() == "[HitObjects]" {
                    in_objs = true;
                    return l.to_string();
                }
                match (in_objs, l.split_once(',')) {
                    (true, Some((_, rest))) => format!("{},{rest}", [-50, 0, 37, 256, 480, 511, 512, 513, 600, 1000][rng.gen_range(0..10)]),
                    _ => l.to_string(),
                }
            }).collect::<Vec<_>>().join("\n");
            if let Ok(map) = Beatmap::from_bytes(moved.as_bytes()) {
                push(format!("generated {g} v{version} n={n} moved"), &map, false, &mut rng);
            }
        }
    }
    // the osu fixture (window) and mutations of it
    if let Ok(bytes) = std::fs::read("/repo/resources/2785319.osu") {
        if let Ok(mut map) = Beatmap::from_bytes(&bytes) {
            let w = if tier == "thorough" { 300 } else { 60 };
            for k in 0..(if tier == "thorough" { 8 } else { 2 }) {
                let mut m = map.clone();
                let start = rng.gen_range(0..m.hit_objects.len() - w);
                m.hit_objects = m.hit_objects[start..start + w].to_vec();
                m.hit_sounds = m.hit_sounds[start..start + w].to_vec();
                push(format!("fixture window {k} at {start}"), &m, false, &mut rng);
            }
            map.hit_objects.truncate(0);
            map.hit_sounds.truncate(0);
            push("fixture without objects".into(), &map, false, &mut rng);
        }
    }
    let n = lines.len();
    std::fs::write(&args[0], lines.join("\n") + "\n").unwrap();
    println!("convert-record: events={n}");
    0
}
