//! C11: lifetimes of gradual calculators (MC_Lifecycle histories replayed on real
//! calculators) and the decoder's slider-path scratch buffers.

use crate::absmap::{concretize, profile, AbsObj};
use crate::util::*;
use rosu_pp::{Beatmap, Difficulty, GradualDifficulty};
use serde::Deserialize;
use serde_json::{json, Value};
use std::str::FromStr;

#[derive(Clone, Debug, Deserialize)]
pub struct Op {
    pub op: String,
    pub h: String,
}
#[derive(Clone, Debug, Deserialize)]
pub struct Scenario {
    pub ops: Vec<Op>,
}

enum Place {
    Inline(GradualDifficulty),
    Boxed(Box<GradualDifficulty>),
    InVec(usize),
    Dropped,
}

fn obj(k: &str, rep: u32, ticks: u32, dur: u32) -> AbsObj {
    AbsObj { k: k.into(), rep, ticks, dur, gap: 0, pos: 0, snd: 0 }
}

pub fn lifecycle_map(mode: &str) -> Beatmap {
    let objs: Vec<AbsObj> = match mode {
        "mania" => vec![obj("C", 0, 0, 0), obj("H", 0, 0, 2), obj("C", 0, 0, 0), obj("H", 0, 0, 1), obj("C", 0, 0, 0), obj("C", 0, 0, 0)],
        _ => vec![obj("C", 0, 0, 0), obj("S", 1, 1, 0), obj("C", 0, 0, 0), obj("P", 0, 0, 0), obj("C", 0, 0, 0), obj("S", 0, 0, 0), obj("C", 0, 0, 0)],
    };
    Beatmap::from_bytes(concretize(mode, &objs, &profile(0)).as_bytes()).expect("decodes")
}

fn take(p: &mut Place, arena: &mut Vec<Option<GradualDifficulty>>) -> Option<GradualDifficulty> {
    match std::mem::replace(p, Place::Dropped) {
        Place::Inline(g) => Some(g),
        Place::Boxed(b) => Some(*b),
        Place::InVec(i) => arena[i].take(),
        Place::Dropped => None,
    }
}

fn step(p: &mut Place, arena: &mut [Option<GradualDifficulty>]) -> Option<Option<String>> {
    let g: &mut GradualDifficulty = match p {
        Place::Inline(g) => g,
        Place::Boxed(b) => b,
        Place::InVec(i) => arena[*i].as_mut()?,
        Place::Dropped => return None,
    };
    Some(g.next().map(|a| format!("{a:?}")))
}

/// Execute one lifecycle history on real calculators of `mode`; returns the outputs of the steps per handle.
pub fn run_history(mode: &str, map: &Beatmap, ops: &[Op]) -> Result<[Vec<Option<String>>; 2], String> {
    guarded(|| {
        let d = Difficulty::new().mods(if mode == "mania" { 0u32 } else { 64 });
        let mut arena: Vec<Option<GradualDifficulty>> = Vec::new(); // grows: reallocation moves what is inside
        let mut places = [Place::Inline(GradualDifficulty::new(d.clone(), map)), Place::Inline(GradualDifficulty::new(d.clone(), map))];
        let mut outs: [Vec<Option<String>>; 2] = [Vec::new(), Vec::new()];
        for op in ops {
            let i = usize::from(op.h == "b");
            match op.op.as_str() {
                "step" => {
                    if let Some(o) = step(&mut places[i], &mut arena) {
                        outs[i].push(o);
                    }
                }
                "box" => {
                    if let Some(g) = take(&mut places[i], &mut arena) {
                        places[i] = Place::Boxed(Box::new(g));
                    }
                }
                "vec" => {
                    if let Some(g) = take(&mut places[i], &mut arena) {
                        arena.push(Some(g));
                        arena.shrink_to_fit(); // keep capacity tight so that the next push reallocates
                        places[i] = Place::InVec(arena.len() - 1);
                    }
                }
                "thread" => {
                    #[cfg(feature = "sync")]
                    {
                        if let Some(g) = take(&mut places[i], &mut arena) {
                            // hand the calculator to another thread, step it there, hand it back
                            let (g, o) = std::thread::spawn(move || {
                                let mut g = g;
                                let o = g.next().map(|a| format!("{a:?}"));
                                (g, o)
                            })
                            .join()
                            .expect("thread");
                            outs[i].push(o);
                            places[i] = Place::Inline(g);
                        }
                    }
                    #[cfg(not(feature = "sync"))]
                    {
                        // without the sync feature calculators are not Send: move through a Box instead
                        if let Some(g) = take(&mut places[i], &mut arena) {
                            places[i] = Place::Boxed(Box::new(g));
                        }
                    }
                }
                "swap" => {
                    let (a, b) = places.split_at_mut(1);
                    std::mem::swap(&mut a[0], &mut b[0]);
                    outs.swap(0, 1);
                }
                "drop" => {
                    drop(take(&mut places[i], &mut arena));
                }
                _ => {}
            }
        }
        outs
    })
}

/// `lifecycle-replay <scenarios.ndjson> <out.json>`
pub fn main(args: &[String]) -> i32 {
    silence_panics();
    let scenarios: Vec<Scenario> = read_ndjson(&args[0]).into_iter().map(|v| serde_json::from_value(v).expect("scenario shape")).collect();
    let modes = ["osu", "taiko", "catch", "mania"];
    let maps: Vec<Beatmap> = modes.iter().map(|m| lifecycle_map(m)).collect();
    // the undisturbed sequence per mode
    let reference: Vec<Vec<Option<String>>> = modes
        .iter()
        .zip(maps.iter())
        .map(|(m, map)| {
            let d = Difficulty::new().mods(if *m == "mania" { 0u32 } else { 64 });
            let mut g = GradualDifficulty::new(d, map);
            (0..12).map(|_| g.next().map(|a| format!("{a:?}"))).collect()
        })
        .collect();
    let n = scenarios.len();
    let res = par_map(n, n_threads(), |i| {
        let sc = &scenarios[i];
        let mut out = Vec::new();
        let mut steps = 0u64;
        for (mi, mode) in modes.iter().enumerate() {
            match run_history(mode, &maps[mi], &sc.ops) {
                Err(p) => out.push(json!({"what": "panic", "mode": mode, "steps": sc.ops.iter().map(|o| format!("{} {}", o.op, o.h)).collect::<Vec<_>>(), "expected": "no panic", "observed": p})),
                Ok(outs) => {
                    for o in outs.iter() {
                        steps += o.len() as u64;
                        for (k, v) in o.iter().enumerate() {
                            if *v != reference[mi][k] {
                                out.push(json!({"what": "value_after_moves", "mode": mode, "steps": sc.ops.iter().map(|o| format!("{} {}", o.op, o.h)).collect::<Vec<_>>(),
                                    "expected": reference[mi][k], "observed": v}));
                                break;
                            }
                        }
                    }
                }
            }
        }
        (steps, out)
    });
    let mut steps = 0;
    let mut mism: Vec<Value> = Vec::new();
    for (s, m) in res {
        steps += s;
        mism.extend(m);
    }
    let out = json!({"scenarios": n, "steps": steps, "mismatches": mism.len(), "records": mism.iter().take(16).collect::<Vec<_>>(), "sync_build": cfg!(feature = "sync")});
    std::fs::write(&args[1], serde_json::to_string_pretty(&out).unwrap()).unwrap();
    println!("lifecycle-replay[{}]: histories={} steps_compared={} mismatches={}", if cfg!(feature = "sync") { "sync" } else { "default" }, n, steps, mism.len());
    0
}

/// Slider paths whose parsing fails at every possible segment, followed by good sliders:
/// the scratch buffers (point_split, vertices, curve_points) must be empty between lines.
pub fn pathbuf_cases(tier: &str) -> Vec<(String, usize)> {
    let segs = ["B|10:10", "P|20:20|30:35", "L|40:40", "C|50:50|60:60|70:75", "B|80:80|80:80|90:90"];
    let bads = ["B|x:y", "L|", "P|1", "|", "B|1:1|q", "L|1e99:1", "B|:"];
    let mut out = Vec::new();
    let max = if tier == "thorough" { 4 } else { 3 };
    for n_good in 0..max {
        for (bi, bad) in bads.iter().enumerate() {
            for pos in 0..=n_good {
                let mut parts: Vec<&str> = (0..n_good).map(|k| segs[(k + bi) % segs.len()]).collect();
                parts.insert(pos, bad);
                let bad_line = format!("100,100,1000,2,0,{},1,100", parts.join("|"));
                for good in 1..=2usize {
                    let mut text = String::from("osu file format v14\n\n[HitObjects]\n");
                    text.push_str(&bad_line);
                    text.push('\n');
                    for g in 0..good {
                        text.push_str(&format!("{},50,{},2,0,L|{}:60,1,80\n", 10 + g, 2000 + 500 * g, 100 + g));
                    }
                    out.push((text, good));
                }
            }
        }
    }
    out
}

/// `pathbuf-replay <out.json> --tier T`
pub fn pathbuf_main(args: &[String]) -> i32 {
    silence_panics();
    let tier = args.iter().position(|a| a == "--tier").map(|i| args[i + 1].clone()).unwrap_or("quick".into());
    let cases = pathbuf_cases(&tier);
    let mut mism = Vec::new();
    for (text, good) in &cases {
        let r = guarded(|| Beatmap::from_str(text));
        match r {
            Ok(Ok(m)) => {
                // the bad line may or may not be accepted by the parser; every accepted good slider has exactly 2 control points
                let sliders: Vec<usize> = m
                    .hit_objects
                    .iter()
                    .filter(|h| h.pos.y == 50.0)
                    .filter_map(|h| match &h.kind {
                        rosu_pp::model::hit_object::HitObjectKind::Slider(s) => Some(s.control_points.len()),
                        _ => None,
                    })
                    .collect();
                if sliders.len() != *good || sliders.iter().any(|n| *n != 2) {
                    mism.push(json!({"what": "control points of a following slider", "text": text, "expected": vec![2; *good], "observed": sliders}));
                }
            }
            Ok(Err(e)) => mism.push(json!({"what": "decode error", "text": text, "observed": e.to_string()})),
            Err(p) => mism.push(json!({"what": "panic", "text": text, "observed": p})),
        }
    }
    let out = json!({"cases": cases.len(), "mismatches": mism.len(), "records": mism.iter().take(10).collect::<Vec<_>>()});
    std::fs::write(&args[0], serde_json::to_string_pretty(&out).unwrap()).unwrap();
    println!("pathbuf-replay: cases={} mismatches={}", cases.len(), mism.len());
    0
}

/// `miri-scenarios <out.ndjson>`: a small fixed selection of lifecycle histories for the Miri run
pub fn miri_scenarios(args: &[String]) -> i32 {
    let hist = [
        vec![("step", "a"), ("box", "a"), ("step", "a"), ("vec", "a"), ("vec", "b"), ("step", "a"), ("step", "b"), ("swap", "a"), ("step", "a"), ("drop", "b"), ("step", "a")],
        vec![("vec", "a"), ("vec", "b"), ("step", "a"), ("thread", "b"), ("step", "b"), ("drop", "a"), ("step", "b")],
    ];
    let lines: Vec<String> = hist
        .iter()
        .map(|h| json!({"ops": h.iter().map(|(o, x)| json!({"op": o, "h": x})).collect::<Vec<_>>()}).to_string())
        .collect();
    std::fs::write(&args[0], lines.join("\n") + "\n").unwrap();
    0
}

/// `miri-run <scenarios.ndjson>`: single-threaded driver meant to run under `cargo miri run`
pub fn miri_run(args: &[String]) -> i32 {
    let scenarios: Vec<Scenario> = read_ndjson(&args[0]).into_iter().map(|v| serde_json::from_value(v).expect("scenario shape")).collect();
    let mut steps = 0;
    for mode in ["osu", "taiko"] {
        let map = lifecycle_map(mode);
        for sc in &scenarios {
            if let Ok(outs) = run_history(mode, &map, &sc.ops) {
                steps += outs[0].len() + outs[1].len();
            }
        }
    }
    // the iterator protocol around the end of a calculator (the self-referential calculators keep iterators / references into
    // their own boxed objects): in-range nth, nth far past the end, then every call again - nothing may be yielded any more
    let mut after_end = 0;
    for mode in ["osu", "taiko", "catch", "mania"] {
        let map = lifecycle_map(mode);
        for first in [0usize, 2] {
            let mut g = rosu_pp::GradualDifficulty::new(rosu_pp::Difficulty::new(), &map);
            let total = g.len();
            let _ = g.nth(first);
            let past = g.nth(total + 3);
            assert!(past.is_none(), "{mode}: nth past the end yields nothing");
            assert!(g.next().is_none() && g.nth(0).is_none() && g.nth(5).is_none(), "{mode}: an exhausted calculator yields nothing");
            assert_eq!(g.len(), 0, "{mode}: nothing remains");
            after_end += 1;
            let mut gp = rosu_pp::GradualPerformance::new(rosu_pp::Difficulty::new(), &map);
            let _ = gp.nth(rosu_pp::any::ScoreState::new(), first);
            let _ = gp.nth(rosu_pp::any::ScoreState::new(), total + 3);
            assert!(gp.next(rosu_pp::any::ScoreState::new()).is_none() && gp.last(rosu_pp::any::ScoreState::new()).is_none(), "{mode}: an exhausted performance calculator yields nothing");
        }
    }
    // the strain list under every op, incl. the unsafe transmute and slice casts
    #[cfg(not(verif_degraded))]
    let (a, b, c) = {
        let mut v = rosu_pp::verif::StrainsVec::with_capacity(2);
        // (values no strain should have - negative, -0.0, negative subnormal, NaN with the sign bit - are zeros to the list)
        for x in [1.0, 0.0, 0.0, 2.5, -1.0, 0.0, 3.0, -0.0, -5e-324, f64::from_bits(0xFFF8_0000_0000_0000), f64::NEG_INFINITY, 4.0] {
            v.push(x);
        }
        let a = v.clone().into_vec();
        let b: Vec<f64> = v.iter().collect();
        let mut c = v.clone();
        c.retain_non_zero_and_sort();
        let c = unsafe { c.transmute_into_vec() };
        (a, b, c)
    };
    #[cfg(verif_degraded)]
    let (a, b, c): (Vec<f64>, Vec<f64>, Vec<f64>) = (Vec::new(), Vec::new(), Vec::new());
    // setters that store through `NonZero*::new_unchecked` / bit casts: the clamps in front of them must keep the precondition
    let mut kept = 0;
    for r in [0.0, -0.0, -1.0, f64::MIN_POSITIVE, 1e-320, 0.01, 1.0, 100.0, 1e9, f64::INFINITY, f64::NEG_INFINITY] {
        let d = rosu_pp::Difficulty::new().clock_rate(r);
        if d.inspect().clock_rate.is_some() {
            kept += 1;
        }
    }
    assert_eq!(kept, 11, "an explicit clock rate must stay set");
    // ... also when the value arrives through the inspectable form (public fields, no setter in between)
    for r in [0.0, -0.0, -1.0, f64::MIN_POSITIVE, 1e-320, 0.01, 1.0, 100.0, 1e9, f64::INFINITY, f64::NEG_INFINITY] {
        let mut insp = rosu_pp::Difficulty::new().inspect();
        insp.clock_rate = Some(r);
        insp.od = Some(rosu_pp::any::ModsDependent { value: 33.0, with_mods: true });
        let d = insp.into_difficulty();
        let back = d.inspect();
        assert!(back.clock_rate.is_some_and(|c| (0.01..=100.0).contains(&c)), "clock rate {r} through InspectDifficulty: {:?}", back.clock_rate);
        assert!(back.od.is_some_and(|o| o.value <= 20.0), "od through InspectDifficulty: {:?}", back.od);
    }
    // decoder scratch buffers
    for (text, _) in pathbuf_cases("quick").iter().take(12) {
        let _ = Beatmap::from_str(text);
    }
    println!("miri-run: lifecycle steps={} after_end={} strains={:?}/{:?}/{:?}", steps, after_end, a.len(), b.len(), c.len());
    0
}
