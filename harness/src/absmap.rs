//! Abstract maps (as enumerated by the TLA+ specification) and the concretiser:
//! the only place where numbers are chosen. `concretize` is a deterministic
//! function of (abstract map, profile) and is itself validated by the C14 check
//! (model-predicted counts vs. real attributes).

use serde::{Deserialize, Serialize};
use std::fmt::Write;

#[derive(Clone, Debug, Deserialize, Serialize, PartialEq, Eq, Hash)]
pub struct AbsObj {
    pub k: String,
    #[serde(default)]
    pub rep: u32,
    #[serde(default)]
    pub ticks: u32,
    #[serde(default)]
    pub dur: u32,
    /// gap class to the previous object: 0 = beat-ish (default), 1 = zero gap (same time),
    /// 2 = section edge (400ms multiples), 3 = long break (20 s), 4 = tiny (1 ms)
    #[serde(default)]
    pub gap: u32,
    /// position class: 0 = varied (default), 1 = same as previous (stacked), 2 = far corner
    #[serde(default)]
    pub pos: u32,
    /// hit sound class (taiko colour / size): 0 = by index pattern, 1 = don, 2 = kat, 3 = big don
    #[serde(default)]
    pub snd: u32,
}

/// Numeric profile of the concretiser.
#[derive(Clone, Debug)]
pub struct Profile {
    pub id: u32,
    pub version: u32,
    pub beat_len: f64,
    pub slider_mult: f64,
    pub tick_rate: f64,
    pub start: f64,
    /// hold durations: exact multiples of 100 (true) or k*100+50 (false)
    pub exact_hold: bool,
    pub cs: f32,
    pub od: f32,
    pub ar: f32,
    pub hp: f32,
    pub gaps: [f64; 4],
}

pub fn profile(id: u32) -> Profile {
    match id % 4 {
        0 => Profile {
            id: 0,
            version: 14,
            beat_len: 500.0,
            slider_mult: 1.0,
            tick_rate: 1.0,
            start: 1000.0,
            exact_hold: false,
            cs: 4.0,
            od: 8.0,
            ar: 9.0,
            hp: 5.0,
            gaps: [250.0, 500.0, 125.0, 375.0],
        },
        1 => Profile {
            id: 1,
            version: 14,
            beat_len: 400.0,
            slider_mult: 2.0,
            tick_rate: 2.0,
            start: 300.0,
            exact_hold: true,
            cs: 5.0,
            od: 6.0,
            ar: 8.0,
            hp: 7.0,
            gaps: [200.0, 100.0, 400.0, 300.0],
        },
        2 => Profile {
            id: 2,
            version: 7,
            beat_len: 300.0,
            slider_mult: 1.5,
            tick_rate: 1.0,
            start: 0.0,
            exact_hold: true,
            cs: 7.0,
            od: 9.5,
            ar: 10.0,
            hp: 3.0,
            gaps: [150.0, 300.0, 75.0, 600.0],
        },
        _ => Profile {
            id: 3,
            version: 14,
            beat_len: 600.0,
            slider_mult: 1.0,
            tick_rate: 1.0,
            start: -700.0,
            exact_hold: false,
            cs: 3.0,
            od: 4.0,
            ar: 5.0,
            hp: 6.0,
            gaps: [300.0, 150.0, 600.0, 450.0],
        },
    }
}

pub fn mode_num(mode: &str) -> u32 {
    match mode {
        "osu" => 0,
        "taiko" => 1,
        "catch" => 2,
        "mania" => 3,
        _ => panic!("unknown mode {mode}"),
    }
}

/// Render an abstract map as `.osu` text.
///
/// Algebra guaranteed (and validated by C14): a slider of `rep` repeats and
/// `ticks` ticks per span has length (ticks + 1/2) * tick distance, so it
/// produces exactly `ticks` ticks per span; a hold note of class `dur` lasts
/// dur*100 (+50 when the profile is not `exact_hold`) ms; objects never overlap
/// in time (the next object starts after the previous one ended) unless the gap
/// class says so.
pub fn concretize(mode: &str, objs: &[AbsObj], p: &Profile) -> String {
    let mut s = String::with_capacity(512 + objs.len() * 48);
    let m = mode_num(mode);
    let _ = writeln!(s, "osu file format v{}\n", p.version);
    let _ = writeln!(s, "[General]\nMode: {m}\nStackLeniency: 0.7\n");
    let cs = if mode == "mania" { 4.0 } else { p.cs };
    let _ = writeln!(
        s,
        "[Difficulty]\nHPDrainRate:{}\nCircleSize:{}\nOverallDifficulty:{}\nApproachRate:{}\nSliderMultiplier:{}\nSliderTickRate:{}\n",
        p.hp, cs, p.od, p.ar, p.slider_mult, p.tick_rate
    );
    let _ = writeln!(s, "[TimingPoints]\n{},{},4,2,0,100,1,0\n", p.start.min(0.0), p.beat_len);
    let _ = writeln!(s, "[HitObjects]");

    // px per beat = 100 * slider_mult ; tick distance = that / tick_rate
    let px_per_beat = 100.0 * p.slider_mult;
    let tick_dist = px_per_beat / p.tick_rate;
    let velocity = px_per_beat / p.beat_len; // px per ms

    let mut t = p.start;
    let mut prev_end = p.start;
    let mut prev_xy = (100.0f64, 100.0f64);
    for (i, o) in objs.iter().enumerate() {
        let gap = match o.gap {
            0 => p.gaps[i % 4],
            1 => 0.0,
            2 => 400.0,
            3 => 20000.0,
            _ => 1.0,
        };
        if i > 0 {
            t = if o.gap == 1 { t } else { prev_end + gap };
        }
        let (mut x, mut y) = match o.pos {
            1 => prev_xy,
            2 => (500.0, 370.0),
            _ => (
                40.0 + 97.0 * ((i * 3 % 5) as f64),
                60.0 + 71.0 * ((i * 2 % 4) as f64),
            ),
        };
        if mode == "mania" {
            // four columns, centre of column c = c*128+64
            x = 64.0 + 128.0 * ((i * 3 % 4) as f64);
            y = 192.0;
        }
        let snd = match o.snd {
            0 => [0, 8, 0, 0, 2, 8, 4, 0][i % 8],
            1 => 0,
            2 => 8,
            _ => 4,
        };
        match o.k.as_str() {
            "C" => {
                let _ = writeln!(s, "{x},{y},{t},1,{snd}");
                prev_end = t;
            }
            "S" => {
                // `ticks` ticks per span: either half a tick distance of slack after the last tick, or (every other slider with
                // ticks) a last tick only 20 ms before the span end - just outside the 10 ms zone in which ticks are dropped
                let len = if o.ticks > 0 && i % 2 == 1 { o.ticks as f64 * tick_dist + 20.0 * velocity } else { (o.ticks as f64 + 0.5) * tick_dist };
                let slides = o.rep + 1;
                let x2 = if x + len <= 512.0 { x + len } else { x - len };
                let _ = writeln!(s, "{x},{y},{t},2,{snd},L|{x2}:{y},{slides},{len}");
                prev_end = t + (slides as f64) * len / velocity;
            }
            "P" => {
                let end = t + 1000.0;
                let _ = writeln!(s, "256,192,{t},12,{snd},{end}");
                prev_end = end;
            }
            "H" => {
                let d = if p.exact_hold {
                    if o.dur == 0 {
                        50.0
                    } else {
                        o.dur as f64 * 100.0
                    }
                } else {
                    o.dur as f64 * 100.0 + 50.0
                };
                let end = t + d;
                let _ = writeln!(s, "{x},{y},{t},128,{snd},{end}:0:0:0:0:");
                prev_end = end;
            }
            other => panic!("unknown object kind {other}"),
        }
        prev_xy = (x, y);
    }
    s
}
