//! C19: the osu! -> taiko splice machine (spec/TaikoSplice.tla).
//!  * `taiko-replay`: every source list TLC enumerated (MC_TaikoSplice) is rendered as a real map and converted;
//!    the converted list, its sounds and the slider indices the hook reports must equal the model's.
//!  * `taiko-record`: conversions of structured-random maps are logged (source, bursts, result) for TraceTaikoSplice.

use crate::util::*;
use rosu_pp::model::hit_object::HitObjectKind;
use rosu_pp::model::mode::GameMode;
use rosu_pp::Beatmap;
use serde_json::{json, Value};
use std::fmt::Write as _;

fn kind_char(k: &HitObjectKind) -> &'static str {
    match k {
        HitObjectKind::Circle => "C",
        HitObjectKind::Slider(_) => "S",
        HitObjectKind::Spinner(_) => "P",
        HitObjectKind::Hold(_) => "H",
    }
}

fn snd(s: &rosu_pp::model::hit_object::HitSoundType) -> i64 {
    i64::from(u8::from(*s))
}

/// converts with the hook on; returns (converted map, [(idx, times)])
fn convert_traced(map: &Beatmap) -> Result<(Beatmap, Vec<(i64, Vec<f64>)>), String> {
    convert_traced_ts(map).map(|(m, b, _)| (m, b))
}

/// ... and the tick spacing each burst was generated with
fn convert_traced_ts(map: &Beatmap) -> Result<(Beatmap, Vec<(i64, Vec<f64>)>, Vec<f64>), String> {
    rosu_pp::verif::trace::start();
    let r = guarded(|| map.convert_ref(GameMode::Taiko, &0u32.into()).map(|c| c.into_owned()));
    let raw = rosu_pp::verif::trace::take();
    // the times are parsed with std (exact round trip of the hook's `{:?}` output; serde_json's default float parser is not)
    let bursts = raw
        .iter()
        .filter(|e| e.contains("\"g\":\"taiko_burst\""))
        .map(|e| {
            let idx = e.split("\"idx\":").nth(1).and_then(|r| r.split(',').next()).and_then(|x| x.trim().parse::<i64>().ok()).unwrap_or(-1);
            let times = e.split("\"times\":[").nth(1).and_then(|r| r.split(']').next()).unwrap_or("");
            (idx, times.split(',').filter(|t| !t.is_empty()).map(|t| t.trim().parse::<f64>().unwrap_or(f64::NAN)).collect())
        })
        .collect();
    let spacings: Vec<f64> = raw
        .iter()
        .filter(|e| e.contains("\"g\":\"taiko_burst\""))
        .map(|e| e.split("\"tick_spacing\":").nth(1).and_then(|r| r.split(',').next()).and_then(|x| x.trim().parse::<f64>().ok()).unwrap_or(f64::NAN))
        .collect();
    match r {
        Ok(Ok(m)) => Ok((m, bursts, spacings)),
        Ok(Err(e)) => Err(format!("convert error: {e}")),
        Err(p) => Err(format!("panic: {p}")),
    }
}

const T0: f64 = 1000.0;
const RANK_MS: f64 = 40.0;

/// `taiko-replay <scenarios.ndjson> <out.json>`
pub fn replay_main(args: &[String]) -> i32 {
    silence_panics();
    let scenarios = read_ndjson(&args[0]);
    let n = scenarios.len();
    let res = par_map(n, n_threads(), |i| {
        let sc = &scenarios[i];
        let src = sc["src"].as_array().cloned().unwrap_or_default();
        // timing beat 640 ms, tick rate 8: tick spacing 80 ms = 2 ranks; slider velocity 100 px per beat
        let mut s = String::from("osu file format v14\n\n[General]\nMode: 0\n\n[Difficulty]\nHPDrainRate:5\nCircleSize:4\nOverallDifficulty:5\nApproachRate:5\nSliderMultiplier:1\nSliderTickRate:8\n\n[TimingPoints]\n0,640,4,2,0,100,1,0\n\n[HitObjects]\n");
        for o in &src {
            let (id, t, own) = (o["id"].as_i64().unwrap_or(0), T0 + RANK_MS * o["t"].as_f64().unwrap_or(0.0), o["id"].as_i64().unwrap_or(0));
            match o["shape"].as_str().unwrap_or("C") {
                "C" => {
                    let _ = writeln!(s, "{id},192,{t},1,{own}");
                }
                "P" => {
                    let _ = writeln!(s, "{id},192,{t},12,{own},{}", t + 30.0);
                }
                "H" => {
                    let _ = writeln!(s, "{id},192,{t},128,{own},{}:0:0:0:0:", t + 30.0);
                }
                sh => {
                    let nodes: Vec<String> = o["nodes"].as_array().map(|a| a.iter().map(|x| x.to_string()).collect()).unwrap_or_default();
                    let spans = nodes.len().max(2) - 1;
                    let hits = o["burst"].as_array().map_or(0, |a| a.len());
                    // duration = expected_dist * spans / 100 * 640 ms; a little above (hits - 1) * 80 ms so that truncation is exact
                    let ed = if sh == "S0" { 400.0 } else { 12.5 * (hits as f64 - 1.0) / spans as f64 + 0.005 };
                    let _ = writeln!(s, "{id},192,{t},2,{own},L|{}:192,{spans},{ed},{}", id + 40, nodes.join("|"));
                }
            }
        }
        let mut out: Vec<Value> = Vec::new();
        let mut bad = |what: &str, exp: String, obs: String| {
            out.push(json!({"what": what, "scenario_index": i, "src": sc["src"], "osu_text": s, "expected": exp, "observed": obs}));
        };
        let map = match Beatmap::from_bytes(s.as_bytes()) {
            Ok(m) => m,
            Err(e) => {
                bad("machinery:decode", "ok".into(), e.to_string());
                return out;
            }
        };
        if map.hit_objects.len() != src.len() || map.hit_objects.iter().zip(&src).any(|(h, o)| h.pos.x.round() as i64 != o["id"].as_i64().unwrap_or(-1)) {
            bad("machinery:concretizer", "source list in model order".into(), format!("{:?}", map.hit_objects.iter().map(|h| h.pos.x).collect::<Vec<_>>()));
            return out;
        }
        match convert_traced(&map) {
            Err(e) => bad("panic_or_error", "conversion".into(), e),
            Ok((conv, bursts)) => {
                let got: Vec<Value> = conv.hit_objects.iter().zip(conv.hit_sounds.iter()).map(|(h, sd)| {
                    json!({"id": h.pos.x.round() as i64, "t": ((h.start_time - T0) / RANK_MS), "kind": kind_char(&h.kind), "snd": snd(sd)})
                }).collect();
                let want: Vec<Value> = sc["out"].as_array().cloned().unwrap_or_default().iter().map(|o| json!({"id": o["id"], "t": o["t"].as_f64(), "kind": o["kind"], "snd": o["snd"]})).collect();
                if conv.hit_objects.len() != conv.hit_sounds.len() {
                    bad("sounds_not_aligned", conv.hit_objects.len().to_string(), conv.hit_sounds.len().to_string());
                }
                if got != want {
                    bad("converted_list", serde_json::to_string(&want).unwrap(), serde_json::to_string(&got).unwrap());
                }
                let log: Vec<i64> = bursts.iter().map(|b| b.0).collect();
                let want_log: Vec<i64> = sc["log"].as_array().map(|a| a.iter().map(|x| x.as_i64().unwrap_or(-1)).collect()).unwrap_or_default();
                if log != want_log {
                    bad("slider_indices", format!("{want_log:?}"), format!("{log:?}"));
                }
            }
        }
        out
    });
    let mism: Vec<Value> = res.into_iter().flatten().collect();
    let machinery = mism.iter().filter(|m| m["what"].as_str().unwrap_or("").starts_with("machinery")).count();
    std::fs::write(&args[1], serde_json::to_string_pretty(&json!({"scenarios": n, "mismatches": mism.len(), "machinery": machinery, "records": mism.iter().take(16).collect::<Vec<_>>()})).unwrap()).unwrap();
    println!("taiko-replay: scenarios={} mismatches={}", n, mism.len());
    0
}

fn ranks_of(all: &[f64]) -> impl Fn(f64) -> i64 + '_ {
    move |v| all.binary_search_by(|p| p.total_cmp(&v)).map(|i| i as i64).unwrap_or(-1)
}

struct Lcg(u64);
impl Lcg {
    fn n(&mut self, m: u64) -> u64 {
        self.0 = self.0.wrapping_mul(6364136223846793005).wrapping_add(1442695040888963407);
        (self.0 >> 33) % m
    }
    fn pick<T: Copy>(&mut self, xs: &[T]) -> T {
        xs[self.n(xs.len() as u64) as usize]
    }
}

/// `taiko-record <out.ndjson> --tier T`
pub fn record_main(args: &[String]) -> i32 {
    silence_panics();
    let tier = args.iter().position(|a| a == "--tier").map(|i| args[i + 1].clone()).unwrap_or("quick".into());
    let seed: u64 = std::env::var("VERIF_SEED").ok().and_then(|s| s.parse().ok()).unwrap_or(0);
    let n_maps = if tier == "quick" { 300 } else { 4000 };
    let mut r = Lcg(0xA24BAED4963EE407 ^ seed.wrapping_mul(0x9E37));
    let texts: Vec<String> = (0..n_maps).map(|_| {
        let version = r.pick(&[5u32, 7, 8, 14]);
        let beat = r.pick(&[250.0, 500.0, 640.0, 1000.0]);
        let tr = r.pick(&["0.5", "1", "2", "4", "8"]);
        let mult = r.pick(&["0.4", "1", "1.4", "3.6"]);
        let mut s = format!("osu file format v{version}\n\n[General]\nMode: 0\n\n[Difficulty]\nHPDrainRate:5\nCircleSize:4\nOverallDifficulty:5\nApproachRate:5\nSliderMultiplier:{mult}\nSliderTickRate:{tr}\n\n[TimingPoints]\n0,{beat},4,2,0,100,1,0\n");
        let n = r.n(14) as usize;
        let mut t = r.n(2000) as i64;
        let mut objs = String::new();
        let mut sv_points = String::new();
        for id in 1..=n {
            t += r.pick(&[-30i64, 0, 0, 10, 60, 125, 250, 1000]);
            let own = r.n(256);
            if r.n(5) == 0 {
                let _ = writeln!(sv_points, "{t},{},4,2,0,100,0,{}", r.pick(&[-50, -100, -200, -25]), r.n(2));
            }
            match r.n(8) {
                0..=2 => {
                    let _ = writeln!(objs, "{id},192,{t},1,{own}");
                }
                3..=5 => {
                    let slides = r.pick(&[1u32, 1, 2, 3, 5]);
                    let len = r.pick(&[0.0, 1.0, 12.5, 20.0, 35.0, 70.0, 140.0, 400.0]);
                    let nodes: Vec<String> = (0..r.n(slides as u64 + 3)).map(|_| r.n(256).to_string()).collect();
                    let tail = if nodes.is_empty() { String::new() } else { format!(",{}", nodes.join("|")) };
                    let _ = writeln!(objs, "{id},192,{t},2,{own},L|{}:192,{slides},{len}{tail}", id + 50);
                }
                6 => {
                    let _ = writeln!(objs, "{id},192,{t},12,{own},{}", t + r.pick(&[0i64, 40, 300]));
                }
                _ => {
                    let _ = writeln!(objs, "{id},192,{t},128,{own},{}:0:0:0:0:", t + r.pick(&[0i64, 40, 300]));
                }
            }
        }
        let _ = writeln!(s, "{sv_points}\n[HitObjects]\n{objs}");
        s
    }).collect();
    // directed neighbours: for maps whose sliders were replaced, further copies with one extra circle placed right at / next to a
    // burst hit (the truncated slider end, the last hit and the times around them decide fast paths and the final order)
    let mut texts = texts;
    let base_n = texts.len();
    let mut extra = Vec::new();
    for (i, t) in texts.iter().enumerate().take(base_n) {
        let Ok(map) = Beatmap::from_bytes(t.as_bytes()) else { continue };
        let Ok((_, bursts)) = convert_traced(&map) else { continue };
        let hits: Vec<f64> = bursts.iter().flat_map(|b| [b.1.first().copied(), b.1.last().copied()]).flatten().filter(|h| h.is_finite()).collect();
        if hits.is_empty() {
            continue;
        }
        let id = map.hit_objects.len() + 1;
        for v in 0..3usize {
            let h = hits[(i + v) % hits.len()];
            let at = match (i + v) % 5 {
                0 => h.floor(),
                1 => h.ceil(),
                2 => h - 0.05,
                3 => h + 0.05,
                _ => h,
            };
            extra.push(format!("{}{id},192,{at},1,{}\n", t.trim_end_matches('\n').to_string() + "\n", (i * 7 + v) % 256));
        }
    }
    texts.extend(extra);
    let lines = par_map(texts.len(), n_threads(), |i| {
        let Ok(map) = Beatmap::from_bytes(texts[i].as_bytes()) else { return None };
        let label = format!("{} taiko source {i} (seed {seed})", if i < base_n { "random" } else { "random + neighbour of a burst hit" });
        let res = convert_traced_ts(&map);
        let (conv, bursts, spacings) = match res {
            Ok(x) => x,
            Err(e) => return Some(json!({"label": label, "panic": true, "msg": e, "osu_text": texts[i], "src": [], "sounds": [], "log": [], "ts_pos": [], "out": [], "out_sounds": []}).to_string()),
        };
        let mut all: Vec<f64> = map.hit_objects.iter().map(|h| h.start_time).chain(conv.hit_objects.iter().map(|h| h.start_time)).chain(bursts.iter().flat_map(|b| b.1.iter().copied())).collect();
        all.sort_by(|a, b| a.total_cmp(b));
        all.dedup_by(|a, b| a.total_cmp(b) == std::cmp::Ordering::Equal);
        let rk = ranks_of(&all);
        // burst k belongs to the source object at idx - (hits inserted so far - sliders replaced so far)
        let mut shift = 0i64;
        let mut burst_of: std::collections::HashMap<usize, Vec<i64>> = std::collections::HashMap::new();
        for (idx, times) in &bursts {
            burst_of.insert((*idx - shift) as usize, times.iter().map(|t| rk(*t)).collect());
            shift += times.len() as i64 - 1;
        }
        let src: Vec<Value> = map.hit_objects.iter().enumerate().map(|(p, h)| {
            let nodes: Vec<i64> = match &h.kind {
                HitObjectKind::Slider(sl) => sl.node_sounds.iter().map(snd).collect(),
                _ => Vec::new(),
            };
            json!({"id": h.pos.x.round() as i64, "t": rk(h.start_time), "kind": kind_char(&h.kind), "nodes": nodes, "burst": burst_of.get(&p).cloned().unwrap_or_default()})
        }).collect();
        let out: Vec<Value> = conv.hit_objects.iter().map(|h| json!({"id": h.pos.x.round() as i64, "t": rk(h.start_time), "kind": kind_char(&h.kind)})).collect();
        Some(json!({"label": label, "panic": false, "src": src, "sounds": map.hit_sounds.iter().map(snd).collect::<Vec<_>>(), "log": bursts.iter().map(|b| b.0).collect::<Vec<_>>(),
                    "ts_pos": spacings.iter().map(|t| *t > 0.0).collect::<Vec<_>>(),
                    "out": out, "out_sounds": conv.hit_sounds.iter().map(snd).collect::<Vec<_>>(), "osu_text": texts[i]}).to_string())
    });
    let lines: Vec<String> = lines.into_iter().flatten().collect();
    let converted = lines.iter().filter(|l| l.contains("\"burst\":[") && !l.contains("\"log\":[]")).count();
    std::fs::write(&args[0], lines.join("\n") + "\n").unwrap();
    println!("taiko-record: events={} with_bursts={}", lines.len(), converted);
    0
}


/// `taikocolour-replay <scenarios.ndjson> <out.json>`: every hit-type sequence TLC enumerated (MC_TaikoColour) as a native taiko
/// map; the colour structure the real preprocessor assigns (hook event `taiko_color`) must equal the model's rows.
pub fn colour_replay_main(args: &[String]) -> i32 {
    silence_panics();
    let scenarios = read_ndjson(&args[0]);
    let n = scenarios.len();
    let res = par_map(n, n_threads(), |i| {
        let sc = &scenarios[i];
        let types: Vec<String> = sc["types"].as_array().map(|a| a.iter().map(|t| t.as_str().unwrap_or("").to_string()).collect()).unwrap_or_default();
        let mut s = String::from("osu file format v14\n\n[General]\nMode: 1\n\n[Difficulty]\nHPDrainRate:5\nCircleSize:4\nOverallDifficulty:5\nApproachRate:5\nSliderMultiplier:1.4\nSliderTickRate:1\n\n[TimingPoints]\n0,500,4,2,0,100,1,0\n\n[HitObjects]\n");
        // the first two objects have no difficulty object
        let mut t = 1000;
        for k in 0..2 {
            let _ = writeln!(s, "256,192,{t},1,{}", [0, 8][k]);
            t += 200;
        }
        for (k, ty) in types.iter().enumerate() {
            match ty.as_str() {
                "Center" => { let _ = writeln!(s, "256,192,{t},1,{}", [0, 4][k % 2]); }
                "Rim" => { let _ = writeln!(s, "256,192,{t},1,{}", [8, 2, 10][k % 3]); }
                _ if k % 2 == 0 => { let _ = writeln!(s, "256,192,{t},12,0,{}", t + 60); }
                _ => { let _ = writeln!(s, "100,192,{t},2,0,L|300:192,1,40"); }
            }
            t += 200;
        }
        let mut out: Vec<Value> = Vec::new();
        let mut bad = |what: &str, exp: String, obs: String| {
            out.push(json!({"what": what, "scenario_index": i, "types": types, "osu_text": s, "expected": exp, "observed": obs}));
        };
        let Ok(map) = Beatmap::from_bytes(s.as_bytes()) else {
            bad("machinery:decode", "ok".into(), "error".into());
            return out;
        };
        rosu_pp::verif::trace::start();
        let r = guarded(|| rosu_pp::Difficulty::new().calculate(&map));
        let raw = rosu_pp::verif::trace::take();
        if let Err(p) = r {
            bad("panic", "no panic".into(), p);
            return out;
        }
        let Some(ev) = raw.iter().filter(|e| e.contains("taiko_color")).filter_map(|e| serde_json::from_str::<Value>(e).ok()).next() else {
            if !types.is_empty() {
                bad("machinery:no_event", "a taiko_color event".into(), format!("{} events", raw.len()));
            }
            return out;
        };
        let rows = ev["objects"].as_array().cloned().unwrap_or_default();
        let got_types: Vec<String> = rows.iter().map(|r| r[0].as_str().unwrap_or("").to_string()).collect();
        if got_types != types {
            bad("machinery:types", format!("{types:?}"), format!("{got_types:?}"));
            return out;
        }
        let got: Vec<Vec<i64>> = rows.iter().map(|r| (1..7).map(|c| r[c].as_i64().unwrap_or(-9)).collect()).collect();
        let want: Vec<Vec<i64>> = sc["rows"].as_array().map(|a| a.iter().map(|r| r.as_array().map(|x| x.iter().map(|v| v.as_i64().unwrap_or(-8)).collect()).unwrap_or_default()).collect()).unwrap_or_default();
        if got != want {
            bad("colour_structure", format!("{want:?}"), format!("{got:?}"));
        }
        out
    });
    let mism: Vec<Value> = res.into_iter().flatten().collect();
    let machinery = mism.iter().filter(|m| m["what"].as_str().unwrap_or("").starts_with("machinery")).count();
    std::fs::write(&args[1], serde_json::to_string_pretty(&json!({"scenarios": n, "mismatches": mism.len(), "machinery": machinery, "records": mism.iter().take(12).collect::<Vec<_>>()})).unwrap()).unwrap();
    println!("taikocolour-replay: scenarios={} mismatches={}", n, mism.len());
    0
}

/// `taikorhythm-replay <scenarios.ndjson> <out.json>`: every interval sequence TLC enumerated (MC_TaikoRhythm) as a native taiko
/// map of circles; the same-rhythm groups (length, interval) and same-pattern groups the hook reports (`taiko_rhythm`) must be
/// the model's.  Run in the default and in the `sync` build.
pub fn rhythm_replay_main(args: &[String]) -> i32 {
    silence_panics();
    let scenarios = read_ndjson(&args[0]);
    let n = scenarios.len();
    let ints = |v: &Value| -> Vec<i64> { v.as_array().map(|a| a.iter().map(|x| x.as_f64().map_or(i64::MIN, |f| if f.fract() == 0.0 { f as i64 } else { i64::MIN + 1 })).collect()).unwrap_or_default() };
    let res = par_map(n, n_threads(), |i| {
        let sc = &scenarios[i];
        let ivs = ints(&sc["ivs"]);
        let mut s = String::from("osu file format v14\n\n[General]\nMode: 1\n\n[Difficulty]\nHPDrainRate:5\nCircleSize:4\nOverallDifficulty:5\nApproachRate:5\nSliderMultiplier:1.4\nSliderTickRate:1\n\n[TimingPoints]\n0,500,4,2,0,100,1,0\n\n[HitObjects]\n");
        // the first two objects have no difficulty object
        let mut t = 1000;
        let _ = writeln!(s, "256,192,{t},1,0");
        t += 200;
        let _ = writeln!(s, "256,192,{t},1,8");
        for (k, d) in ivs.iter().enumerate() {
            t += d;
            let _ = writeln!(s, "256,192,{t},1,{}", [0, 8, 0, 0, 8][k % 5]);
        }
        let mut out: Vec<Value> = Vec::new();
        let mut bad = |what: &str, exp: String, obs: String| {
            out.push(json!({"what": what, "scenario_index": i, "ivs": ivs, "osu_text": s, "expected": exp, "observed": obs}));
        };
        let Ok(map) = Beatmap::from_bytes(s.as_bytes()) else {
            bad("machinery:decode", "ok".into(), "error".into());
            return out;
        };
        rosu_pp::verif::trace::start();
        let r = guarded(|| rosu_pp::Difficulty::new().calculate(&map));
        let raw = rosu_pp::verif::trace::take();
        if let Err(p) = r {
            bad("panic", "no panic".into(), p);
            return out;
        }
        let Some(ev) = raw.iter().filter(|e| e.contains("taiko_rhythm")).filter_map(|e| serde_json::from_str::<Value>(e).ok()).next() else {
            bad("machinery:no_event", "a taiko_rhythm event".into(), format!("{} events", raw.len()));
            return out;
        };
        if ints(&ev["intervals"]) != ivs {
            bad("machinery:intervals", format!("{ivs:?}"), format!("{:?}", ints(&ev["intervals"])));
            return out;
        }
        let got_groups: Vec<i64> = ev["groups"].as_array().map(|a| a.iter().map(|g| g[0].as_i64().unwrap_or(-9)).collect()).unwrap_or_default();
        let got_gi: Vec<i64> = ev["groups"].as_array().map(|a| a.iter().map(|g| g[1].as_f64().map_or(-9, |f| if f < 0.0 { 1_000_000_000 } else if f.fract() == 0.0 { f as i64 } else { -8 })).collect()).unwrap_or_default();
        let got_pat = ints(&ev["patterns"]);
        let want = (ints(&sc["groups"]), ints(&sc["intervals"]), ints(&sc["patterns"]));
        if (got_groups.clone(), got_gi.clone(), got_pat.clone()) != want {
            bad("rhythm_grouping", format!("groups {:?} intervals {:?} patterns {:?}", want.0, want.1, want.2), format!("groups {got_groups:?} intervals {got_gi:?} patterns {got_pat:?}"));
        }
        out
    });
    let mism: Vec<Value> = res.into_iter().flatten().collect();
    let machinery = mism.iter().filter(|m| m["what"].as_str().unwrap_or("").starts_with("machinery")).count();
    std::fs::write(&args[1], serde_json::to_string_pretty(&json!({"scenarios": n, "mismatches": mism.len(), "machinery": machinery, "records": mism.iter().take(12).collect::<Vec<_>>()})).unwrap()).unwrap();
    println!("taikorhythm-replay: scenarios={} mismatches={}", n, mism.len());
    0
}
