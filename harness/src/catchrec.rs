//! `catch-record <out.ndjson> --tier quick|thorough`: records real osu!catch conversions (hook events `catch_obj` / `catch_done`
//! of `rosu_pp::verif::trace`) for trace validation against spec/CatchConvert.tla (TraceCatchConvert): fixture maps (native
//! catch and osu! -> catch) and structured-random maps (stacked fruits for the random hard-rock offset, near fruits for the
//! deterministic one, juice streams with ticks / repeats / long gaps, banana showers), each converted by
//!   * the one-shot calculator without and with hard-rock offsets, and with `passed_objects(k)` for several k,
//!   * the gradual calculator (all rows + the attributes after k steps).
//! Values are projected to integers (times truncated like the code does); a conversion with a non-integer position is skipped.

use crate::util::*;
use rosu_pp::{model::mode::GameMode, Beatmap};
use serde_json::{json, Value};
use std::fmt::Write as _;

struct Lcg(u64);
impl Lcg {
    fn n(&mut self, m: u64) -> u64 {
        self.0 = self.0.wrapping_mul(6364136223846793005).wrapping_add(1442695040888963407);
        (self.0 >> 33) % m
    }
    fn pick<T: Copy>(&mut self, xs: &[T]) -> T {
        xs[self.n(xs.len() as u64) as usize]
    }
}

fn gen_map(r: &mut Lcg, n_objects: usize, mode: u8, boundary: bool) -> String {
    // boundary maps: 0.125 px / ms (8 ms per px) and tick rates that put events exactly 80 / 100 / 200 ms apart; fruits exactly
    // 1000 ms apart; positions whose hard-rock offset lands exactly on the playfield edge
    let beat_len = if boundary { 800 } else { r.pick(&[300, 400, 500, 800]) };
    let mult = if boundary { "1" } else { r.pick(&["1", "1.4", "2.2"]) };
    let tick = if boundary { r.pick(&[10, 8, 5, 4, 1]) } else { r.pick(&[1, 2, 4]) };
    let mut s = format!("osu file format v14\n\n[General]\nMode: {mode}\n\n[Difficulty]\nHPDrainRate:5\nCircleSize:{}\nOverallDifficulty:7\nApproachRate:9\nSliderMultiplier:{mult}\nSliderTickRate:{tick}\n\n[TimingPoints]\n0,{beat_len},4,2,0,100,1,0\n\n[HitObjects]\n", r.n(8));
    let mut t: i64 = 400 + r.n(300) as i64;
    let mut px: i64 = r.n(513) as i64;
    for _ in 0..n_objects {
        t += if boundary { r.pick(&[100i64, 200, 999, 1000, 1001, 300]) } else { r.pick(&[60i64, 120, 180, 240, 400, 700, 1100]) };
        match r.n(10) {
            0..=1 => {}                                                  // same x: the random offset branch under HR
            2..=4 if boundary => px = (px + r.pick(&[-64i64, 64, -32, 32])).clamp(0, 512),
            2..=4 => px = (px + r.pick(&[-60i64, -25, -8, 8, 25, 60])).clamp(0, 512),      // near: |dx| < dt/3 or not
            _ if boundary => px = r.pick(&[0i64, 32, 64, 256, 448, 480, 512]),
            _ => px = r.n(513) as i64,
        }
        match r.n(10) {
            0..=5 => { let _ = writeln!(s, "{px},192,{t},1,0"); }
            6..=8 => {
                // boundary lengths in half pixels: 116 ms (head -> last tick 80 ms), 117, 136 (100), 137, 80, 236 (200), 436 (400), long
                let len2 = if boundary { r.pick(&[29i64, 30, 34, 35, 20, 59, 109, 200, 400, 800]) } else { 2 * r.pick(&[30i64, 60, 100, 150, 220, 400, 700]) };
                let len = len2 / 2 + len2 % 2;          // the control point at the next whole pixel, the expected length exact
                let ex = if px + len <= 512 { px + len } else { px - len };
                let slides = r.pick(&[1u32, 1, 2, 3]);
                // a third of the boundary streams: fractional event times that straddle a whole millisecond (start x.7 ms, gaps of
                // 80.6 / 100.6 / 200.6 / 400.6 ms): the code truncates each event time, not the difference
                if boundary && r.n(3) == 0 {
                    let flen = r.pick(&[14.575f64, 17.075, 29.575, 54.575]);
                    let _ = writeln!(s, "{px},192,{t}.7,2,0,L|{ex}:192,{slides},{flen}");
                } else {
                    let _ = writeln!(s, "{px},192,{t},2,0,L|{ex}:192,{slides},{}", len2 as f64 / 2.0);
                }
                // the next object starts after (or, sometimes, inside) the stream
                t += r.pick(&[0i64, 200, 900]);
            }
            _ => {
                let dur = if boundary { r.pick(&[100i64, 200, 400, 99, 201, 1600]) } else { r.pick(&[0i64, 40, 100, 101, 350, 800, 1601, 3000]) };
                let _ = writeln!(s, "256,192,{t},12,0,{}", t + dur);
                t += dur;
            }
        }
    }
    s
}

fn int(v: &Value) -> Option<i64> {
    let f = v.as_f64()?;
    (f.fract() == 0.0 && f.abs() < 1.0e9).then_some(f as i64)
}

/// hook events of ONE conversion -> trace events; None if a position is not an integer
fn project(raw: &[String], out: &mut Vec<Value>) -> Option<()> {
    // `last_start_time` as the converter held it BEFORE the current object (exact bits; 0.0 at the start of a conversion)
    let mut prev_last_bits: u64 = 0f64.to_bits();
    for e in raw {
        let Ok(v) = serde_json::from_str::<Value>(e) else { continue };
        match v["g"].as_str() {
            Some("catch_obj") => {
                let common = |m: &mut serde_json::Map<String, Value>| -> Option<()> {
                    m.insert("x".into(), json!(int(&v["x"])?));
                    m.insert("t".into(), json!(v["t"].as_f64()? as i32));
                    m.insert("nested".into(), v["nested"].clone());
                    m.insert("haslast".into(), json!(!v["last_pos"].is_null()));
                    m.insert("lastpos".into(), json!(if v["last_pos"].is_null() { 0 } else { int(&v["last_pos"])? }));
                    m.insert("lastt".into(), json!(v["last_t"].as_f64()? as i32));
                    m.insert("draws".into(), v["draws"].clone());
                    m.insert("bit".into(), v["bit_idx"].clone());
                    Some(())
                };
                let mut m = serde_json::Map::new();
                match v["kind"].as_str()? {
                    "fruit" => {
                        m.insert("ev".into(), json!("fruit"));
                        m.insert("off".into(), json!(int(&v["x_offset"])?));
                        // the code truncates the DIFFERENCE of the two (possibly fractional) times
                        let td = (f64::from_bits(v["t_bits"].as_u64()?) - f64::from_bits(prev_last_bits)) as i32;
                        m.insert("td".into(), json!(td));
                    }
                    "stream" => {
                        m.insert("ev".into(), json!("stream"));
                        m.insert("lastctrlx".into(), json!(int(&v["last_ctrl_x"])?));
                        let evs: Vec<Value> = v["events"].as_array()?.iter().map(|r| json!({"k": r[0], "t": r[1].as_f64().unwrap_or(0.0) as i32, "tiny": r[2]})).collect();
                        m.insert("evs".into(), json!(evs));
                    }
                    _ => {
                        m.insert("ev".into(), json!("shower"));
                        m.insert("n".into(), v["bananas"].clone());
                        m.insert("s".into(), json!(v["t"].as_f64()? as i32));
                        m.insert("e".into(), json!(v["end"].as_f64()? as i32));
                    }
                }
                common(&mut m)?;
                prev_last_bits = v["last_t_bits"].as_u64()?;
                out.push(Value::Object(m));
            }
            Some("catch_done") => {
                let palp = v["palpable"].as_array()?;
                let sorted = palp.windows(2).all(|w| w[0][0].as_f64() <= w[1][0].as_f64());
                // the last object has no successor (no hyper dash, no distance); a hyper dash has no distance
                let hyper_ok = palp.last().map_or(true, |l| l[2] == json!(0) && l[3].as_f64() == Some(0.0))
                    && palp.iter().all(|p| p[2] == json!(0) || p[3].as_f64() == Some(0.0))
                    && palp.iter().all(|p| p[1].as_f64().is_some_and(|x| (0.0..=512.0).contains(&x)));
                let mut m = serde_json::Map::new();
                m.insert("ev".into(), json!("done"));
                m.insert("npalp".into(), json!(palp.len()));
                m.insert("sorted".into(), json!(sorted));
                m.insert("hyper_ok".into(), json!(hyper_ok));
                if let Some(c) = v["regular"].as_array() {
                    m.insert("mode".into(), json!("regular"));
                    m.insert("counts".into(), json!([c[0], c[1], c[2]]));
                    let left = c[3].as_u64().unwrap_or(u64::MAX);
                    m.insert("takeleft".into(), json!(if left > 1_000_000_000 { -1 } else { left as i64 }));
                    m.insert("rows".into(), json!([]));
                } else {
                    m.insert("mode".into(), json!("gradual"));
                    m.insert("counts".into(), json!([0, 0, 0]));
                    m.insert("takeleft".into(), json!(-1));
                    m.insert("rows".into(), v["gradual"].clone());
                }
                out.push(Value::Object(m));
            }
            _ => {}
        }
    }
    Some(())
}

fn attrs_ev(a: &rosu_pp::catch::CatchDifficultyAttributes, mode: &str, k: usize) -> Value {
    json!({"ev": "attrs", "mode": mode, "k": k, "fruits": a.n_fruits, "droplets": a.n_droplets, "tiny": a.n_tiny_droplets})
}

pub fn record_main(args: &[String]) -> i32 {
    silence_panics();
    let tier = args.iter().position(|a| a == "--tier").and_then(|i| args.get(i + 1)).map(String::as_str).unwrap_or("quick");
    let seed: u64 = std::env::var("VERIF_SEED").ok().and_then(|s| s.parse().ok()).unwrap_or(0);
    let mut r = Lcg(0x00c0_ffee ^ seed.wrapping_mul(0x9e37_79b9_7f4a_7c15));
    let mut maps: Vec<(String, String)> = Vec::new();
    for id in ["2118524", "2785319"] {
        if let Ok(t) = std::fs::read_to_string(format!("/repo/resources/{id}.osu")) {
            // a window of the fixture keeps the trace short; the whole fixture in the thorough tier
            let cut = if tier == "quick" { 260 } else { usize::MAX };
            let (head, objs) = t.split_once("[HitObjects]").unwrap_or((&t, ""));
            let body: Vec<&str> = objs.lines().filter(|l| !l.trim().is_empty()).take(cut).collect();
            maps.push((format!("fixture {id}"), format!("{head}[HitObjects]\n{}\n", body.join("\n"))));
        }
    }
    let n_random = if tier == "quick" { 40 } else { 400 };
    for i in 0..n_random {
        let n = [6usize, 14, 30, 60][i % 4];
        maps.push((format!("random {i}"), gen_map(&mut r, n, if i % 3 == 0 { 2 } else { 0 }, i % 5 >= 3)));
    }
    let mut out: Vec<Value> = Vec::new();
    let (mut sessions, mut skipped, mut panics) = (0u64, 0u64, Vec::<Value>::new());
    for (label, text) in &maps {
        let Ok(map) = Beatmap::from_bytes(text.as_bytes()) else { continue };
        let Ok(conv) = map.convert_ref(GameMode::Catch, &0u32.into()).map(|c| c.into_owned()) else { continue };
        // (hard-rock offsets, passed_objects)
        let full = rosu_pp::Difficulty::new().calculate_for_mode::<rosu_pp::catch::Catch>(&conv).ok();
        let npalp = full.as_ref().map_or(0, |a| (a.n_fruits + a.n_droplets) as usize);
        let mut runs: Vec<(bool, Option<u32>)> = vec![(false, None), (true, None)];
        for k in [0usize, 1, 2, npalp / 3, npalp / 2, npalp.saturating_sub(1), npalp, npalp + 3] {
            runs.push((k % 2 == 1, Some(k as u32)));
        }
        for (hr, take) in runs {
            let mut d = rosu_pp::Difficulty::new().hardrock_offsets(hr);
            if let Some(k) = take {
                d = d.passed_objects(k);
            }
            rosu_pp::verif::trace::start();
            let res = guarded(|| d.calculate_for_mode::<rosu_pp::catch::Catch>(&conv));
            let raw = rosu_pp::verif::trace::take();
            let attrs = match res {
                Ok(Ok(a)) => a,
                Ok(Err(_)) => continue,
                Err(p) => { panics.push(json!({"label": label, "panic": p, "osu_text": text})); continue; }
            };
            let mut evs = vec![json!({"ev": "reset", "hr": hr, "take": take.map_or(-1, i64::from), "label": format!("{label} one-shot hr={hr} take={take:?}")})];
            if project(&raw, &mut evs).is_none() {
                skipped += 1;
                continue;
            }
            evs.push(attrs_ev(&attrs, "regular", 0));
            sessions += 1;
            out.extend(evs);
        }
        for hr in [false, true] {
            rosu_pp::verif::trace::start();
            let res = guarded(|| {
                let g = rosu_pp::catch::CatchGradualDifficulty::new(rosu_pp::Difficulty::new().hardrock_offsets(hr), &conv).expect("catch map");
                g.enumerate().map(|(i, a)| (i + 1, a)).collect::<Vec<_>>()
            });
            let raw = rosu_pp::verif::trace::take();
            let steps = match res {
                Ok(s) => s,
                Err(p) => { panics.push(json!({"label": label, "panic": p, "osu_text": text})); continue; }
            };
            let mut evs = vec![json!({"ev": "reset", "hr": hr, "take": -1, "label": format!("{label} gradual hr={hr}")})];
            if project(&raw, &mut evs).is_none() {
                skipped += 1;
                continue;
            }
            let n = steps.len();
            for (k, a) in steps.iter().filter(|(k, _)| *k <= 3 || *k + 2 >= n || k % 17 == 0) {
                evs.push(attrs_ev(a, "gradual", *k));
            }
            sessions += 1;
            out.extend(evs);
        }
    }
    let mut f = String::new();
    for e in &out {
        let _ = writeln!(f, "{e}");
    }
    std::fs::write(&args[0], f).unwrap();
    std::fs::write(format!("{}.meta.json", args[0]), serde_json::to_string(&json!({"maps": maps.len(), "sessions": sessions, "skipped_non_integer": skipped, "events": out.len(), "panics": panics})).unwrap()).unwrap();
    println!("catch-record: maps={} sessions={} events={} skipped={} panics={}", maps.len(), sessions, out.len(), skipped, panics.len());
    0
}
