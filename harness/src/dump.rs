//! C10 / C20 helper: a canonical dump of results (difficulty, strains, performance, gradual)
//! over a seeded scenario list.  The same list is evaluated by the harness binaries built
//! with different cargo features; the dumps must be identical.

use crate::absmap::{concretize, profile, AbsObj};
use crate::gradual::{random_objs, score_state};
use crate::settings::{cfgs, Cfg};
use crate::util::*;
use rand::{rngs::StdRng, Rng, SeedableRng};
use rosu_pp::model::mode::GameMode;
use rosu_pp::{Beatmap, GradualDifficulty, GradualPerformance, Performance};

pub struct Job {
    pub label: String,
    pub map: Beatmap,
    pub cfg: Cfg,
}

pub fn jobs(seed: u64, tier: &str) -> Vec<Job> {
    let mut rng = StdRng::seed_from_u64(seed ^ 0xd0_0d);
    let all = cfgs(tier);
    let mut out = Vec::new();
    let n_random = if tier == "thorough" { 60 } else { 10 };
    for i in 0..n_random {
        for mode in ["osu", "taiko", "catch", "mania"] {
            let n = rng.gen_range(0..40);
            let mut objs: Vec<AbsObj> = random_objs(&mut rng, mode, n);
            // long empty stretches -> runs of zero sections
            for o in objs.iter_mut() {
                if rng.gen_range(0..6) == 0 {
                    o.gap = 3;
                }
            }
            let prof = profile(rng.gen_range(0..4));
            let text = concretize(mode, &objs, &prof);
            let Ok(map) = Beatmap::from_bytes(text.as_bytes()) else { continue };
            let cfg = all[rng.gen_range(0..all.len())].clone();
            if mode == "osu" {
                for t in [GameMode::Taiko, GameMode::Catch, GameMode::Mania] {
                    if let Ok(c) = map.clone().convert(t, &cfg.game_mods()) {
                        out.push(Job { label: format!("random osu #{i} as {t:?}"), map: c, cfg: cfg.clone() });
                    }
                }
            }
            out.push(Job { label: format!("random {mode} #{i} n={n}"), map, cfg });
        }
    }
    // (the hand-shaped families below use the first four settings only - plain mods and clock rates: a Random mod would undo the
    //  shape, and the list grows with seeded random settings)
    // long homogeneous runs (one colour / one column / one position): thresholds and caches that only show after dozens of
    // equal objects (mono streaks, repeated patterns, saturating bonuses)
    for (mi, mode) in ["osu", "taiko", "catch", "mania"].iter().enumerate() {
        for (ri, run) in [33usize, 34, 40, 70, 130, 300, 600].iter().enumerate() {
            let gap = [100u32, 250][(ri + mi) % 2];
            let snd = [0u32, 8][ri % 2];
            let mut s = format!("osu file format v14\n\n[General]\nMode: {mi}\n\n[Difficulty]\nHPDrainRate:5\nCircleSize:4\nOverallDifficulty:7\nApproachRate:9\nSliderMultiplier:1.4\nSliderTickRate:1\n\n[TimingPoints]\n0,400,4,2,0,100,1,0\n\n[HitObjects]\n");
            let mut t = 1000u32;
            for _ in 0..*run {
                s += &format!("64,192,{t},1,{snd}\n");
                t += gap;
            }
            for k in 0..6u32 {
                s += &format!("{},100,{t},1,{}\n", 64 + 128 * (k % 4), [8u32, 0, 2][k as usize % 3]);
                t += gap + 30 * k;
            }
            if let Ok(map) = Beatmap::from_bytes(s.as_bytes()) {
                out.push(Job { label: format!("run of {run} equal {mode} objects every {gap} ms"), map, cfg: all[(ri + mi) % 4].clone() });
            }
        }
    }
    // periodic rhythms: an evenly spaced lead-in, then well over 128 objects whose gaps repeat with a short period (windows that
    // look back a fixed number of objects - 64 ratio pairs in the taiko colour evaluator - see nothing but the pattern, and the
    // object just beyond the window is the lead-in), pseudo-random hit sounds
    for (mi, mode) in ["osu", "taiko", "catch", "mania"].iter().enumerate() {
        for (pi, pattern) in [vec![200u32, 200, 100, 100], vec![100, 200], vec![150, 150, 75], vec![120, 120, 120, 60, 60]].iter().enumerate() {
            for lead in [4usize, 9] {
                let mut s = format!("osu file format v14\n\n[General]\nMode: {mi}\n\n[Difficulty]\nHPDrainRate:5\nCircleSize:4\nOverallDifficulty:7\nApproachRate:9\nSliderMultiplier:1.4\nSliderTickRate:1\n\n[TimingPoints]\n0,400,4,2,0,100,1,0\n\n[HitObjects]\n");
                let mut t = 1000u32;
                let mut x = 0x2545_f491u32 ^ (pi as u32 * 977 + lead as u32);
                for k in 0..(lead + 170) {
                    x ^= x << 13;
                    x ^= x >> 17;
                    x ^= x << 5;
                    s += &format!("{},{},{t},1,{}\n", 64 + 128 * (x % 4), 80 + 40 * ((x >> 3) % 5), [0u32, 8, 0, 2, 8, 0][(x >> 7) as usize % 6]);
                    t += if k < lead { 250 } else { pattern[(k - lead) % pattern.len()] };
                }
                if let Ok(map) = Beatmap::from_bytes(s.as_bytes()) {
                    out.push(Job { label: format!("{mode} periodic rhythm {pattern:?} after {lead} even notes"), map, cfg: all[(pi + mi + lead) % 4].clone() });
                }
            }
        }
    }
    // very long breaks: strains decay to exactly zero and hundreds / thousands of empty sections follow before the map goes on
    for (mi, mode) in ["osu", "taiko", "catch", "mania"].iter().enumerate() {
        for (bi, brk) in [120_000u32, 900_000].iter().enumerate() {
            let mut s = format!("osu file format v14\n\n[General]\nMode: {mi}\n\n[Difficulty]\nHPDrainRate:5\nCircleSize:4\nOverallDifficulty:7\nApproachRate:9\nSliderMultiplier:1.4\nSliderTickRate:1\n\n[TimingPoints]\n0,400,4,2,0,100,1,0\n\n[HitObjects]\n");
            let mut t = 1000u32;
            for k in 0..40u32 {
                s += &format!("{},{},{t},1,{}\n", 64 + 128 * ((k * 3) % 4), 60 + 70 * (k % 4), [0u32, 8, 0, 2][k as usize % 4]);
                t += [120u32, 200, 90, 300][k as usize % 4];
            }
            t += brk;
            for k in 0..8u32 {
                s += &format!("{},{},{t},1,{}\n", 64 + 128 * (k % 4), 100 + 50 * (k % 3), [8u32, 0][k as usize % 2]);
                t += 150;
            }
            if let Ok(map) = Beatmap::from_bytes(s.as_bytes()) {
                out.push(Job { label: format!("{mode} map with a break of {} s", brk / 1000), map, cfg: all[(bi + mi) % 4].clone() });
            }
        }
    }
    for (id, w) in [("2785319", 150usize), ("1028484", 200), ("2118524", 150), ("1638954", 200)] {
        if let Ok(mut map) = Beatmap::from_path(format!("/repo/resources/{id}.osu")) {
            let w = w.min(map.hit_objects.len());
            map.hit_objects.truncate(w);
            map.hit_sounds.truncate(w);
            for ci in [0usize, 2] {
                out.push(Job { label: format!("fixture {id} first {w} cfg {ci}"), map: map.clone(), cfg: all[ci].clone() });
            }
            if id == "2785319" {
                for t in [GameMode::Taiko, GameMode::Catch, GameMode::Mania] {
                    if let Ok(c) = map.clone().convert(t, &0u32.into()) {
                        out.push(Job { label: format!("fixture {id} as {t:?}"), map: c, cfg: all[1].clone() });
                    }
                }
            }
        }
    }
    out
}

pub fn eval(job: &Job, k: usize) -> String {
    let d = job.cfg.difficulty();
    let r = guarded(|| {
        let attrs = d.calculate(&job.map);
        let strains = d.strains(&job.map);
        let perf = Performance::new(&job.map).difficulty(d.clone()).accuracy(95.5).misses(1).calculate();
        let n = job.map.hit_objects.len();
        let grad: Vec<String> = GradualDifficulty::new(d.clone(), &job.map).step_by((n / 4).max(1)).map(|a| format!("{a:?}")).collect();
        let gp = GradualPerformance::new(d.clone(), &job.map).last(score_state(k)).map(|a| format!("{a:?}"));
        format!("{attrs:?}\t{strains:?}\t{perf:?}\t{grad:?}\t{gp:?}")
    });
    r.unwrap_or_else(|p| format!("PANIC {p}"))
}

/// `dump-results <out.txt> --tier T`
pub fn main(args: &[String]) -> i32 {
    silence_panics();
    let tier = args.iter().position(|a| a == "--tier").map(|i| args[i + 1].clone()).unwrap_or("quick".into());
    let seed: u64 = std::env::var("VERIF_SEED").ok().and_then(|s| s.parse().ok()).unwrap_or(0);
    let js = jobs(seed, &tier);
    let lines = par_map(js.len(), n_threads(), |i| format!("{}\t{}", js[i].label, eval(&js[i], i)));
    std::fs::write(&args[0], lines.join("\n") + "\n").unwrap();
    println!("dump-results: jobs={}", js.len());
    0
}
