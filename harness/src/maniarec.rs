//! C19 / C05: records the osu! -> mania pattern generators (hook events of `rosu_pp::verif::trace`) for
//! trace validation against spec/ManiaPatterns.tla (TraceManiaPatterns).  One output file per key count.

use crate::util::*;
use rosu_pp::{model::mode::GameMode, Beatmap};
use serde_json::{json, Value};
use std::collections::BTreeMap;
use std::fmt::Write as _;

struct Lcg(u64);
impl Lcg {
    fn n(&mut self, m: u64) -> u64 {
        self.0 = self.0.wrapping_mul(6364136223846793005).wrapping_add(1442695040888963407);
        (self.0 >> 33) % m
    }
    fn pick<T: Copy>(&mut self, xs: &[T]) -> T {
        xs[self.n(xs.len() as u64) as usize]
    }
}

/// a structured-random osu!standard map aimed at the branch conditions of the pattern generators
fn gen_map(r: &mut Lcg, n_objects: usize) -> String {
    let beat_len = r.pick(&[300.0, 375.0, 500.0, 600.0]);
    let mult = r.pick(&["1", "1.4", "2"]);
    let (hp, cs, od, ar) = (r.n(11), r.n(11), r.n(11), r.n(11));
    let mut s = format!("osu file format v14\n\n[General]\nMode: 0\n\n[Difficulty]\nHPDrainRate:{hp}\nCircleSize:{cs}\nOverallDifficulty:{od}\nApproachRate:{ar}\nSliderMultiplier:{mult}\nSliderTickRate:1\n\n");
    // objects first (times decide where the control points go)
    let mut objs = String::new();
    let mut t: i64 = 500 + r.n(500) as i64;
    let (mut px, mut py) = (256i64, 192i64);
    let mut section_times = Vec::new();
    // sparse maps keep the conversion difficulty low, dense ones push it up
    let gaps: &[i64] = match r.n(3) {
        0 => &[40, 70, 85, 100, 115, 130, 145, 200],
        1 => &[85, 100, 130, 145, 200, 400, 800],
        _ => &[145, 400, 800, 1600, 3000],
    };
    for i in 0..n_objects {
        t += r.pick(gaps);
        if r.n(100) < 45 {
            px = (px + r.n(11) as i64 - 5).clamp(0, 512);
            py = (py + r.n(11) as i64 - 5).clamp(0, 384);
        } else {
            px = r.n(513) as i64;
            py = r.n(385) as i64;
        }
        let snd = [0u32, 0, 2, 4, 8, 12, 6, 10, 14][r.n(9) as usize];
        if i % 7 == 3 {
            section_times.push(t);
        }
        match r.n(10) {
            0..=5 => {
                let _ = writeln!(objs, "{px},{py},{t},1,{snd}");
            }
            6..=8 => {
                // half of the sliders aim at a segment duration class of the path generator (<= 90, <= 120, <= 160, <= 200, > 400 ms per span)
                let len = if r.n(2) == 0 {
                    r.pick(&[20u32, 35, 50, 70, 90, 120, 180, 250, 400])
                } else {
                    let target = r.pick(&[70.0, 85.0, 100.0, 115.0, 140.0, 180.0, 190.0, 300.0, 450.0]);
                    ((target * 100.0 * mult.parse::<f64>().unwrap() / beat_len) as u32).max(1)
                };
                let slides = r.pick(&[1u32, 1, 1, 2, 2, 3, 4, 5, 8, 12]);
                let edge = if r.n(2) == 0 {
                    let e: Vec<String> = (0..=slides).map(|_| [0u32, 2, 4, 8, 12][r.n(5) as usize].to_string()).collect();
                    format!(",{}", e.join("|"))
                } else {
                    String::new()
                };
                let _ = writeln!(objs, "{px},{py},{t},2,{snd},L|{}:{py},{slides},{len}{edge}", px + len as i64);
                // rough duration so that the next gap counts from the end
                t += (len as f64 * slides as f64 * beat_len / 100.0 / mult.parse::<f64>().unwrap()) as i64;
            }
            _ => {
                let dur = r.pick(&[50i64, 200, 900, 1500, 5000]);
                let _ = writeln!(objs, "256,192,{t},12,{snd},{}", t + dur);
                t += dur;
            }
        }
    }
    let _ = writeln!(s, "[TimingPoints]\n0,{beat_len},4,2,0,100,1,0");
    for (i, st) in section_times.iter().enumerate() {
        // inherited points: slider velocity changes and kiai toggles
        let sv = r.pick(&[-100, -50, -200, -66]);
        let kiai = (i + r.n(2) as usize) % 2;
        let _ = writeln!(s, "{st},{sv},4,2,0,100,0,{kiai}");
    }
    let _ = writeln!(s, "\n[HitObjects]\n{objs}");
    s
}

fn cls(v: f64, bounds: &[f64]) -> i64 {
    bounds.iter().filter(|b| v > **b).count() as i64
}

fn cols(notes: &Value) -> Vec<i64> {
    notes.as_array().map(|a| a.iter().map(|n| n[0].as_i64().unwrap_or(-1)).collect()).unwrap_or_default()
}

/// raw hook event -> event of TraceManiaPatterns
fn classify(raw: &Value) -> Value {
    let g = raw["g"].as_str().unwrap_or("");
    let ct: Vec<String> = raw["ct"].as_str().unwrap_or("NONE").split(", ").filter(|f| *f != "NONE" && !f.is_empty()).map(String::from).collect();
    let cd = cls(raw["cd"].as_f64().unwrap_or(0.0), &[2.0, 2.5, 3.0, 4.0, 6.5]);
    match g {
        "circle" => json!({"g": "circle", "ct": ct, "finish": raw["finish"], "clap": raw["clap"], "cd": cd, "x0": raw["x0"], "prev": cols(&raw["prev"]),
                           "stair": raw["stair"], "stair_after": raw["stair_after"], "out": cols(&raw["out"])}),
        "slider" => {
            let (span, seg, start, end) = (raw["span"].as_i64().unwrap_or(1), raw["segdur"].as_i64().unwrap_or(0), raw["start"].as_i64().unwrap_or(0), raw["end"].as_i64().unwrap_or(0));
            let parts = raw["parts"].as_array().cloned().unwrap_or_default();
            let single = parts.len() == 1;
            // insertion order of the unsplit pattern: by start time, the end-time part first among equal times (the hold of
            // "hold and normal notes" precedes the notes of its first row)
            let mut all: Vec<(f64, u8, usize, i64)> = Vec::new();
            for (pi, p) in parts.iter().enumerate() {
                for (ni, n) in p.as_array().cloned().unwrap_or_default().iter().enumerate() {
                    let pri = if single || pi == 1 { 0 } else { 1 };
                    all.push((n[1].as_f64().unwrap_or(0.0), pri, ni, n[0].as_i64().unwrap_or(-1)));
                }
            }
            all.sort_by(|a, b| a.0.total_cmp(&b.0).then(a.1.cmp(&b.1)).then(a.2.cmp(&b.2)));
            let endp = if single { Vec::new() } else { cols(&parts[1]) };
            json!({"g": "slider", "low": ct.iter().any(|f| f == "LOW_PROBABILITY"), "span": span, "seg": cls(seg as f64, &[79.0, 90.0, 110.0, 120.0, 160.0, 200.0, 400.0]),
                   "long": end - start >= 4000, "cd": cd, "x0": raw["x0"], "dbl": raw["dbl"], "head": raw["head"], "exact": start + span * seg == end, "zero": seg == 0,
                   "prev": cols(&raw["prev"]), "all": all.iter().map(|a| a.3).collect::<Vec<_>>(), "endp": endp, "single": single,
                   "segdur": seg, "dur": end - start})
        }
        _ => json!({"g": "spinner", "finish": raw["finish"], "short": raw["dur"].as_f64().unwrap_or(0.0) < 1000.0, "prev": cols(&raw["prev"]), "out": cols(&raw["out"])}),
    }
}

/// `mania-record <out-prefix> <summary.json> --tier T` : writes <out-prefix>_K<k>.ndjson for k = 1..10
pub fn main(args: &[String]) -> i32 {
    silence_panics();
    let tier = args.iter().position(|a| a == "--tier").map(|i| args[i + 1].clone()).unwrap_or("quick".into());
    let seed: u64 = std::env::var("VERIF_SEED").ok().and_then(|s| s.parse().ok()).unwrap_or(0);
    let n_maps = if tier == "quick" { 60 } else { 600 };
    let mut texts: Vec<(String, String)> = Vec::new();
    if let Ok(t) = std::fs::read_to_string("/repo/resources/2785319.osu") {
        texts.push(("fixture 2785319".into(), t));
    }
    let mut r = Lcg(0x9E3779B97F4A7C15 ^ seed.wrapping_mul(0x1234567));
    for i in 0..n_maps {
        let n = [6usize, 12, 30, 60][i % 4];
        texts.push((format!("random {i} (seed {seed})"), gen_map(&mut r, n)));
    }
    let jobs: Vec<(usize, u32)> = (0..texts.len()).flat_map(|i| {
        // every map without a key mod, the fixture under every key mod, random maps under three of them
        let ks: Vec<u32> = if i == 0 { (0..=10).collect() } else { vec![0, 1 + (i as u32 % 10), 1 + ((i as u32 * 7 + 3) % 10), 8] };
        ks.into_iter().map(move |k| (i, k))
    }).collect();
    let res = par_map(jobs.len(), n_threads(), |j| {
        let (i, k) = jobs[j];
        let map = match Beatmap::from_bytes(texts[i].1.as_bytes()) {
            Ok(m) => m,
            Err(_) => return (0i64, Vec::new(), None),
        };
        let mods = if k == 0 { crate::settings::Cfg::default().game_mods() } else { crate::settings::Cfg::default().with_acronyms(&format!("{k}K")).game_mods() };
        rosu_pp::verif::trace::start();
        let conv = guarded(|| map.convert_ref(GameMode::Mania, &mods).map(|c| (c.cs as i64, c.hit_objects.len())));
        let raw = rosu_pp::verif::trace::take();
        let label = format!("{} under {}", texts[i].0, if k == 0 { "no key mod".to_string() } else { format!("{k}K") });
        match conv {
            Err(p) => (0, Vec::new(), Some(json!({"what": "panic", "label": label, "panic": p, "osu_text": texts[i].1, "events_before": raw.len()}))),
            Ok(Err(_)) => (0, Vec::new(), None),
            Ok(Ok((keys, n_out))) => {
                let mut evs = vec![json!({"g": "reset", "label": label, "objects_out": n_out})];
                // the object list the difficulty calculation works on, after the mods that rewrite it (HoldOff, Invert, Random):
                // hook event `mania_difficulty_objects`, projected to columns and time ranks
                for (xi, extra) in ["", "IN", "HO", "IN,HO", "RD", "IN+RD", "HO+RD"].iter().enumerate() {
                    if (i + xi) % 2 == 1 && !extra.is_empty() {
                        continue;
                    }
                    let mut cfg = if k == 0 { crate::settings::Cfg::default() } else { crate::settings::Cfg::default().with_acronyms(&format!("{k}K")) };
                    let acr = extra.split('+').next().filter(|a| *a != "RD").unwrap_or("");
                    if !acr.is_empty() {
                        let base = cfg.acronyms.clone().unwrap_or_default();
                        cfg = cfg.with_acronyms(&if base.is_empty() { acr.to_string() } else { format!("{base},{acr}") });
                    }
                    if extra.contains("RD") {
                        // the order in which Random and Invert / HoldOff rewrite the list matters
                        cfg.random_seed = Some(3 + i as i32);
                    }
                    rosu_pp::verif::trace::start();
                    let r = guarded(|| rosu_pp::Difficulty::new().mods(cfg.game_mods()).calculate_for_mode::<rosu_pp::mania::Mania>(&map).is_ok());
                    let raw2 = rosu_pp::verif::trace::take();
                    if let Err(p) = r {
                        return (0, Vec::new(), Some(json!({"what": "panic in the mania difficulty calculation", "label": format!("{label} + {extra}"), "panic": p, "osu_text": texts[i].1})));
                    }
                    // the gradual calculator rewrites the map on its own: it must arrive at the same list
                    rosu_pp::verif::trace::start();
                    let _ = guarded(|| rosu_pp::mania::ManiaGradualDifficulty::new(rosu_pp::Difficulty::new().mods(cfg.game_mods()), &map).map(|g| g.len()));
                    let raw3 = rosu_pp::verif::trace::take();
                    let list_of = |evs: &[String], tag: &str| evs.iter().find(|e| e.contains(tag)).and_then(|e| e.split("\"objects\":").nth(1).map(str::to_string));
                    let (one, grad) = (list_of(&raw2, "mania_difficulty_objects"), list_of(&raw3, "mania_gradual_objects"));
                    if one != grad {
                        return (0, Vec::new(), Some(json!({"what": "one-shot and gradual mania calculators work on different object lists", "label": format!("{label} + {extra}"),
                            "expected": one.map(|x| x.chars().take(600).collect::<String>()), "observed": grad.map(|x| x.chars().take(600).collect::<String>()), "osu_text": texts[i].1})));
                    }
                    for e in raw2.iter().filter(|e| e.contains("mania_difficulty_objects")) {
                        let v: Value = serde_json::from_str(e).expect("hook event is JSON");
                        let cs = v["cs"].as_f64().unwrap_or(1.0);
                        let objs = v["objects"].as_array().cloned().unwrap_or_default();
                        let mut times: Vec<f64> = objs.iter().flat_map(|o| [o[1].as_f64().unwrap_or(f64::NAN), o[2].as_f64().unwrap_or(f64::NAN)]).collect();
                        let finite = times.iter().all(|t| t.is_finite());
                        times.sort_by(|a, b| a.total_cmp(b));
                        times.dedup();
                        let rk = |t: f64| times.binary_search_by(|p| p.total_cmp(&t)).map(|x| x as i64).unwrap_or(-1);
                        let cols: Vec<i64> = objs.iter().map(|o| (o[0].as_f64().unwrap_or(-1.0) / (512.0 / cs)).floor() as i64).collect();
                        evs.push(json!({"g": "objects", "with": extra, "finite": finite, "cols": cols,
                            "starts": objs.iter().map(|o| rk(o[1].as_f64().unwrap_or(f64::NAN))).collect::<Vec<_>>(),
                            "ends": objs.iter().map(|o| rk(o[2].as_f64().unwrap_or(f64::NAN))).collect::<Vec<_>>()}));
                    }
                }
                let mut notes = 0usize;
                for e in &raw {
                    let v: Value = serde_json::from_str(e).expect("hook event is JSON");
                    let c = classify(&v);
                    notes += c["out"].as_array().map_or(0, |a| a.len()) + c["all"].as_array().map_or(0, |a| a.len());
                    evs.push(c);
                }
                let bad = if notes != n_out {
                    Some(json!({"what": "events do not account for the converted objects", "label": label, "expected": n_out, "observed": notes}))
                } else {
                    None
                };
                (keys, evs, bad)
            }
        }
    });
    let mut per_k: BTreeMap<i64, Vec<String>> = BTreeMap::new();
    let mut problems = Vec::new();
    let mut kinds: BTreeMap<String, u64> = BTreeMap::new();
    for (k, evs, bad) in res {
        if let Some(b) = bad {
            problems.push(b);
        }
        for e in &evs {
            *kinds.entry(format!("{}", e["g"].as_str().unwrap_or("?"))).or_default() += 1;
        }
        if !evs.is_empty() {
            per_k.entry(k).or_default().extend(evs.iter().map(|e| e.to_string()));
        }
    }
    let mut files = BTreeMap::new();
    for (k, lines) in &per_k {
        let path = format!("{}_K{}.ndjson", args[0], k);
        std::fs::write(&path, lines.join("\n") + "\n").unwrap();
        files.insert(k.to_string(), json!({"path": path, "events": lines.len()}));
    }
    let total: usize = per_k.values().map(|v| v.len()).sum();
    std::fs::write(&args[1], serde_json::to_string_pretty(&json!({"conversions": jobs.len(), "events": total, "by_kind": kinds, "files": files, "problems": problems})).unwrap()).unwrap();
    println!("mania-record: conversions={} events={} key counts={:?} problems={}", jobs.len(), total, per_k.keys().collect::<Vec<_>>(), problems.len());
    0
}
