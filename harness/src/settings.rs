//! Difficulty settings used by the replays (harness-side dimension: they do not
//! change the abstract machines except where the model says so).

use rosu_pp::Difficulty;
use serde::{Deserialize, Serialize};

#[derive(Clone, Debug, Default, Deserialize, Serialize, PartialEq)]
pub struct Cfg {
    #[serde(default)]
    pub mods: u32,
    #[serde(default)]
    pub clock_rate: Option<f64>,
    #[serde(default)]
    pub ar: Option<(f32, bool)>,
    #[serde(default)]
    pub cs: Option<(f32, bool)>,
    #[serde(default)]
    pub hp: Option<(f32, bool)>,
    #[serde(default)]
    pub od: Option<(f32, bool)>,
    #[serde(default)]
    pub hr_offsets: Option<bool>,
    #[serde(default)]
    pub lazer: Option<bool>,
    /// additional mods given as intermode acronyms (lazer-only mods: "IN", "HO", "4K", "MR", ...)
    #[serde(default)]
    pub acronyms: Option<String>,
    /// lazer taiko DifficultyAdjust with this scroll speed (forces the lazer representation, taiko mode)
    #[serde(default)]
    pub da_scroll: Option<f64>,
    /// lazer Random mod (taiko and mania variants) with this seed (forces the lazer representation)
    #[serde(default)]
    pub random_seed: Option<i32>,
    /// lazer DifficultyAdjust with this circle size, as (value, mode: 0 osu! | 2 catch) (forces the lazer representation of that mode)
    #[serde(default)]
    pub da_cs: Option<(f32, u8)>,
    /// lazer Random mod WITHOUT a seed, in the lazer set of this mode (1 taiko | 3 mania): as the API delivers `{"acronym":"RD"}`
    #[serde(default)]
    pub random_unseeded: Option<u8>,
}

impl Cfg {
    pub fn game_mods(&self) -> rosu_pp::GameMods {
        let mut im = rosu_mods::GameModsIntermode::from_bits(self.mods);
        if let Some(a) = &self.acronyms {
            for acr in a.split(',').filter(|s| !s.is_empty()) {
                im.insert(rosu_mods::GameModIntermode::from_acronym(acr.parse::<rosu_mods::Acronym>().expect("acronym")));
            }
        }
        if let Some(mode) = self.random_unseeded {
            use rosu_mods::generated_mods as gm;
            let mut lazer = im.with_mode(if mode == 3 { rosu_mods::GameMode::Mania } else { rosu_mods::GameMode::Taiko });
            if mode == 3 {
                lazer.insert(rosu_mods::GameMod::RandomMania(gm::RandomMania::default()));
            } else {
                lazer.insert(rosu_mods::GameMod::RandomTaiko(gm::RandomTaiko::default()));
            }
            return lazer.into();
        }
        if let Some((cs, mode)) = self.da_cs {
            use rosu_mods::generated_mods as gm;
            let mut lazer = im.with_mode(if mode == 2 { rosu_mods::GameMode::Catch } else { rosu_mods::GameMode::Osu });
            if mode == 2 {
                lazer.insert(rosu_mods::GameMod::DifficultyAdjustCatch(gm::DifficultyAdjustCatch { circle_size: Some(f64::from(cs)), ..Default::default() }));
            } else {
                lazer.insert(rosu_mods::GameMod::DifficultyAdjustOsu(gm::DifficultyAdjustOsu { circle_size: Some(f64::from(cs)), ..Default::default() }));
            }
            return lazer.into();
        }
        if self.da_scroll.is_some() || self.random_seed.is_some() {
            // mods with settings only exist in the lazer representation
            use rosu_mods::generated_mods as gm;
            let mode = if self.da_scroll.is_some() { rosu_mods::GameMode::Taiko } else { rosu_mods::GameMode::Mania };
            let mut lazer = im.with_mode(mode);
            if let Some(sp) = self.da_scroll {
                lazer.insert(rosu_mods::GameMod::DifficultyAdjustTaiko(gm::DifficultyAdjustTaiko { scroll_speed: Some(sp), ..Default::default() }));
            }
            if let Some(seed) = self.random_seed {
                // a lazer set must hold mods of ONE mode (lookups rely on its ordering): taiko with da_scroll, else mania
                if self.da_scroll.is_some() {
                    lazer.insert(rosu_mods::GameMod::RandomTaiko(gm::RandomTaiko { seed: Some(f64::from(seed)), ..Default::default() }));
                } else {
                    lazer.insert(rosu_mods::GameMod::RandomMania(gm::RandomMania { seed: Some(f64::from(seed)), ..Default::default() }));
                }
            }
            return lazer.into();
        }
        match &self.acronyms {
            None => self.mods.into(),
            Some(_) => im.into(),
        }
    }

    pub fn with_acronyms(&self, a: &str) -> Cfg {
        let mut c = self.clone();
        c.acronyms = Some(a.to_string());
        c
    }

    pub fn difficulty(&self) -> Difficulty {
        let mut d = Difficulty::new().mods(self.game_mods());
        if let Some(c) = self.clock_rate {
            d = d.clock_rate(c);
        }
        if let Some((v, w)) = self.ar {
            d = d.ar(v, w);
        }
        if let Some((v, w)) = self.cs {
            d = d.cs(v, w);
        }
        if let Some((v, w)) = self.hp {
            d = d.hp(v, w);
        }
        if let Some((v, w)) = self.od {
            d = d.od(v, w);
        }
        if let Some(h) = self.hr_offsets {
            d = d.hardrock_offsets(h);
        }
        if let Some(l) = self.lazer {
            d = d.lazer(l);
        }
        d
    }
}

pub const NF: u32 = 1;
pub const EZ: u32 = 2;
pub const TD: u32 = 4;
pub const HD: u32 = 8;
pub const HR: u32 = 16;
pub const DT: u32 = 64;
pub const RX: u32 = 128;
pub const HT: u32 = 256;
pub const FL: u32 = 1024;
pub const SO: u32 = 4096;
pub const AP: u32 = 8192;
pub const MR: u32 = 1 << 30;

/// The settings profiles of a tier. Index 0 is always the default.
pub fn cfgs(tier: &str) -> Vec<Cfg> {
    let c = |mods: u32, clock: Option<f64>| Cfg {
        mods,
        clock_rate: clock,
        ..Default::default()
    };
    let mut v = vec![
        c(0, None),
        c(HR | HD, Some(1.3)),
        c(DT, None),
        c(EZ | FL, Some(0.75)),
        // every Difficulty setter appears at least once in the quick tier, with the
        // overrides set contrary to what the mods imply
        Cfg {
            mods: HR,
            hr_offsets: Some(false),
            ar: Some((7.0, false)),
            cs: Some((6.0, true)),
            ..Default::default()
        },
        Cfg {
            mods: 0,
            hr_offsets: Some(true),
            od: Some((3.0, true)),
            hp: Some((2.0, false)),
            lazer: Some(false),
            ..Default::default()
        },
        // lazer Random mod with a seed (taiko colours / mania columns are reshuffled; counts are not)
        Cfg {
            mods: 0,
            random_seed: Some(42),
            clock_rate: Some(1.2),
            ..Default::default()
        },
        // ... and the taiko variant (a taiko DifficultyAdjust keeps the lazer set in taiko mode)
        Cfg {
            mods: 8,
            random_seed: Some(1337),
            da_scroll: Some(1.0),
            ..Default::default()
        },
        // the lazer-only Classic mod (no legacy bit) on a lazer score
        Cfg {
            mods: HD,
            acronyms: Some("CL".into()),
            lazer: Some(true),
            ..Default::default()
        },
    ];
    // seeded random settings on top of the hand-picked ones: legacy mod bits, a clock rate, overrides anywhere in the setters'
    // range with either with_mods flag, hard-rock offsets and the score origin, each set or not (VERIF_SEED picks them)
    {
        use rand::{rngs::StdRng, Rng, SeedableRng};
        let seed: u64 = std::env::var("VERIF_SEED").ok().and_then(|s| s.parse().ok()).unwrap_or(0);
        let mut rng = StdRng::seed_from_u64(seed ^ 0x5e77_1e95);
        for _ in 0..(if tier == "thorough" { 24 } else { 4 }) {
            let mut mods = 0u32;
            for bit in [1u32, 4, 8, 32, 128, 1024, 4096, 8192, 1 << 30] {
                if rng.gen_range(0..5) == 0 {
                    mods |= bit;
                }
            }
            mods |= [0u32, 0, 2, 16][rng.gen_range(0..4)];
            mods |= [0u32, 0, 64, 256, 64 | 512][rng.gen_range(0..5)];
            if mods & 128 != 0 {
                mods &= !8192;
            }
            let mut attr = |rng: &mut StdRng| -> Option<(f32, bool)> {
                (rng.gen_range(0..10) < 3).then(|| {
                    let v = if rng.gen_bool(0.5) { rng.gen_range(0..=22) as f32 * 0.5 } else { rng.gen_range(-40..=40) as f32 * 0.5 };
                    (v, rng.gen_bool(0.5))
                })
            };
            v.push(Cfg {
                mods,
                clock_rate: [None, None, Some(0.5), Some(0.66), Some(0.8), Some(1.25), Some(1.73), Some(2.0)][rng.gen_range(0..8)],
                ar: attr(&mut rng),
                cs: attr(&mut rng),
                hp: attr(&mut rng),
                od: attr(&mut rng),
                hr_offsets: (rng.gen_range(0..5) == 0).then(|| rng.gen_bool(0.5)),
                lazer: (rng.gen_range(0..10) < 3).then(|| rng.gen_bool(0.5)),
                ..Default::default()
            });
        }
    }
    if tier == "thorough" {
        v.extend([
            c(HT, None),
            c(RX, Some(1.5)),
            c(0, Some(0.9)),
            c(0, Some(1.37)),
            c(HR, Some(2.0)),
            c(MR, Some(0.5)),
            Cfg {
                mods: HD | FL,
                ar: Some((7.0, false)),
                od: Some((3.0, true)),
                cs: Some((6.0, false)),
                hp: Some((2.0, false)),
                lazer: Some(false),
                ..Default::default()
            },
            Cfg {
                mods: HR,
                hr_offsets: Some(false),
                clock_rate: Some(1.1),
                ..Default::default()
            },
        ]);
    }
    v
}
