//! C07: mode dispatch and conversion entry points.  Replays every conversion
//! history TLC enumerated (MC_Dispatch) on real maps: outcome kinds, resulting
//! (mode, is_convert), equality of the three entry points' maps, untouched
//! originals; then every dispatch api on the final handle is compared with the
//! same calculation on the explicitly converted map.

use crate::absmap::{concretize, profile, AbsObj};
use crate::gradual::random_objs;
use crate::settings::Cfg;
use crate::util::*;
use rand::{rngs::StdRng, SeedableRng};
use rosu_pp::catch::Catch;
use rosu_pp::mania::Mania;
use rosu_pp::model::mode::{ConvertError, GameMode};
use rosu_pp::osu::Osu;
use rosu_pp::taiko::Taiko;
use rosu_pp::{Beatmap, Difficulty, GameMods, GradualDifficulty, GradualPerformance, Performance};
use serde::{Deserialize, Serialize};
use serde_json::{json, Value};
use std::collections::BTreeMap;

#[derive(Clone, Debug, Deserialize, Serialize)]
pub struct StepIn {
    pub e: String,
    pub t: String,
}
#[derive(Clone, Debug, Deserialize, Serialize)]
pub struct Outcome {
    pub kind: String,
    #[serde(default)]
    pub mode: String,
    #[serde(default)]
    pub conv: bool,
    #[serde(default)]
    pub from: String,
    #[serde(default)]
    pub to: String,
}
#[derive(Clone, Debug, Deserialize, Serialize)]
pub struct Handle {
    pub mode: String,
    pub conv: bool,
}
#[derive(Clone, Debug, Deserialize, Serialize)]
pub struct StepOut {
    pub r: Outcome,
    pub after: Handle,
}
#[derive(Clone, Debug, Deserialize, Serialize)]
pub struct Try {
    pub ok: bool,
    pub variant: String,
}
#[derive(Clone, Debug, Deserialize, Serialize)]
pub struct Api {
    pub calc: String,
    pub try_ref: Try,
    pub try_own: Try,
    pub try_attrs: Try,
}
#[derive(Clone, Debug, Deserialize, Serialize)]
pub struct Scenario {
    pub native: String,
    pub steps: Vec<StepIn>,
    pub outs: Vec<StepOut>,
    pub h: Handle,
    pub apis: BTreeMap<String, Api>,
}

fn gm(s: &str) -> GameMode {
    match s {
        "osu" => GameMode::Osu,
        "taiko" => GameMode::Taiko,
        "catch" => GameMode::Catch,
        _ => GameMode::Mania,
    }
}
fn gname(m: GameMode) -> &'static str {
    match m {
        GameMode::Osu => "osu",
        GameMode::Taiko => "taiko",
        GameMode::Catch => "catch",
        GameMode::Mania => "mania",
    }
}

fn outcome<T>(r: &Result<T, ConvertError>, map_of: impl Fn(&T) -> (GameMode, bool)) -> Outcome {
    match r {
        Ok(m) => {
            let (mode, conv) = map_of(m);
            Outcome { kind: "ok".into(), mode: gname(mode).into(), conv, from: String::new(), to: String::new() }
        }
        Err(ConvertError::AlreadyConverted) => Outcome { kind: "already".into(), mode: String::new(), conv: false, from: String::new(), to: String::new() },
        Err(ConvertError::Convert { from, to }) => Outcome { kind: "err".into(), mode: String::new(), conv: false, from: gname(*from).into(), to: gname(*to).into() },
    }
}

fn same(a: &Outcome, b: &Outcome) -> bool {
    a.kind == b.kind && (a.kind != "ok" || (a.mode == b.mode && a.conv == b.conv)) && (a.kind != "err" || (a.from == b.from && a.to == b.to))
}

fn calc_for_mode(d: &Difficulty, map: &Beatmap, t: GameMode) -> Result<String, ConvertError> {
    Ok(match t {
        GameMode::Osu => format!("{:?}", d.calculate_for_mode::<Osu>(map)?),
        GameMode::Taiko => format!("{:?}", d.calculate_for_mode::<Taiko>(map)?),
        GameMode::Catch => format!("{:?}", d.calculate_for_mode::<Catch>(map)?),
        GameMode::Mania => format!("{:?}", d.calculate_for_mode::<Mania>(map)?),
    })
}
fn calc_direct(d: &Difficulty, map: &Beatmap) -> String {
    // strip the enum wrapper to compare with the mode-specific Debug text
    let s = format!("{:?}", d.calculate(map));
    s[s.find('(').map(|i| i + 1).unwrap_or(0)..s.len() - 1].to_string()
}
fn strains_for_mode(d: &Difficulty, map: &Beatmap, t: GameMode) -> Result<String, ConvertError> {
    Ok(match t {
        GameMode::Osu => format!("{:?}", d.strains_for_mode::<Osu>(map)?),
        GameMode::Taiko => format!("{:?}", d.strains_for_mode::<Taiko>(map)?),
        GameMode::Catch => format!("{:?}", d.strains_for_mode::<Catch>(map)?),
        GameMode::Mania => format!("{:?}", d.strains_for_mode::<Mania>(map)?),
    })
}
fn strains_direct(d: &Difficulty, map: &Beatmap) -> String {
    let s = format!("{:?}", d.strains(map));
    s[s.find('(').map(|i| i + 1).unwrap_or(0)..s.len() - 1].to_string()
}

fn perf_setters<'a>(p: Performance<'a>, d: &Difficulty, k: usize) -> Performance<'a> {
    let p = p.difficulty(d.clone());
    // every kind of score setting that has to survive a mode change: accuracy, hit results, combo, misses and the priority
    match k % 5 {
        0 => p,
        1 => p.accuracy(93.7).misses(1),
        2 => p.n300(2).n100(1).combo(3).misses(1),
        3 => p.hitresult_priority(rosu_pp::any::HitResultPriority::WorstCase).misses(1).n100(1),
        _ => p.hitresult_priority(rosu_pp::any::HitResultPriority::WorstCase).accuracy(88.0),
    }
}

struct Ctx<'a> {
    sci: usize,
    sc: &'a Scenario,
    mapi: usize,
    cfgi: usize,
    mism: Vec<Value>,
    checks: u64,
}

impl Ctx<'_> {
    fn bad(&mut self, what: &str, step: usize, exp: String, obs: String) {
        self.mism.push(json!({"scenario_index": self.sci, "scenario": self.sc, "map_index": self.mapi, "cfg_index": self.cfgi,
            "what": what, "step": step, "expected": exp, "observed": obs}));
    }
}

fn run(ctx: &mut Ctx, native: &Beatmap, cfg: &Cfg) {
    let sc = ctx.sc;
    let mods: GameMods = cfg.game_mods();
    let d = cfg.difficulty();
    let mut cur = native.clone();
    for (i, (st, exp)) in sc.steps.iter().zip(sc.outs.iter()).enumerate() {
        let t = gm(&st.t);
        let before = cur.clone();
        // all three entry points on the same input
        let r_ref = guarded(|| cur.convert_ref(t, &mods).map(|c| c.into_owned()));
        let mut m_mut = cur.clone();
        let r_mut = guarded(|| m_mut.convert_mut(t, &mods));
        let r_val = guarded(|| cur.clone().convert(t, &mods));
        ctx.checks += 1;
        let (Ok(r_ref), Ok(r_mut), Ok(r_val)) = (r_ref, r_mut, r_val) else {
            ctx.bad("panic", i, "no panic".into(), "panic in a conversion entry point".into());
            return;
        };
        if cur != before {
            ctx.bad("convert_ref_modified_original", i, "unchanged".into(), "changed".into());
        }
        let o_ref = outcome(&r_ref, |m| (m.mode, m.is_convert));
        let o_mut = outcome(&r_mut.map(|()| m_mut.clone()), |m| (m.mode, m.is_convert));
        let o_val = outcome(&r_val, |m| (m.mode, m.is_convert));
        for (name, o) in [("ref", &o_ref), ("mut", &o_mut), ("val", &o_val)] {
            // property: the three agree with each other and with the decision table
            if !same(o, &exp.r) {
                ctx.bad(&format!("outcome_{name}"), i, format!("{:?}", exp.r), format!("{o:?}"));
            }
        }
        if let (Ok(a), Ok(b)) = (&r_ref, &r_val) {
            if a != b || *a != m_mut {
                ctx.bad("entry_points_maps_differ", i, "equal maps".into(), "different maps".into());
            }
            if gname(t) == sc.native && !before.is_convert && *a != before {
                ctx.bad("own_mode_not_identity", i, "identical map".into(), "changed map".into());
            }
        } else if m_mut != before {
            ctx.bad("convert_mut_changed_map_on_error", i, "unchanged".into(), "changed".into());
        }
        // advance the handle the way the caller of this entry point would
        match st.e.as_str() {
            "ref" => {}
            _ => {
                if let Ok(m) = r_val {
                    cur = m;
                }
            }
        }
        if gname(cur.mode) != exp.after.mode || cur.is_convert != exp.after.conv {
            ctx.bad("handle_state", i, format!("{:?}", exp.after), format!("({}, {})", gname(cur.mode), cur.is_convert));
        }
    }
    // dispatch apis on the final handle
    for (tname, api) in sc.apis.iter() {
        let t = gm(tname);
        let conv = cur.clone().convert(t, &mods);
        ctx.checks += 1;
        // generic calculate_for_mode / strains_for_mode
        match guarded(|| calc_for_mode(&d, &cur, t)) {
            Err(p) => ctx.bad("panic_calculate_for_mode", 99, "no panic".into(), p),
            Ok(r) => {
                let kind = match &r {
                    Ok(_) => "ok",
                    Err(ConvertError::AlreadyConverted) => "already",
                    Err(_) => "err",
                };
                if kind != api.calc {
                    ctx.bad("calculate_for_mode_kind", 99, api.calc.clone(), kind.into());
                }
                if let (Ok(a), Ok(cm)) = (&r, &conv) {
                    let b = calc_direct(&d, cm);
                    if *a != b {
                        ctx.bad("calculate_for_mode_value", 99, b, a.clone());
                    }
                    let sa = guarded(|| strains_for_mode(&d, &cur, t)).ok().and_then(|r| r.ok());
                    let sb = strains_direct(&d, cm);
                    if sa.as_deref() != Some(sb.as_str()) {
                        ctx.bad("strains_for_mode_value", 99, sb.chars().take(300).collect(), format!("{:?}", sa.map(|s| s.chars().take(300).collect::<String>())));
                    }
                    // gradual constructors with an explicit mode
                    let ga = guarded(|| GradualDifficulty::new_with_mode(d.clone(), &cur, t).map(|g| g.map(|a| format!("{a:?}")).collect::<Vec<_>>()));
                    let gb = guarded(|| GradualDifficulty::new(d.clone(), cm).map(|a| format!("{a:?}")).collect::<Vec<_>>());
                    match (ga, gb) {
                        (Ok(Ok(a)), Ok(b)) if a == b => {}
                        (a, b) => ctx.bad("gradual_difficulty_with_mode", 99, format!("{:?}", b.map(|v| v.len())), format!("{:?}", a.map(|r| r.map(|v| v.len())))),
                    }
                    let st = crate::gradual::score_state(ctx.sci);
                    let pa = guarded(|| GradualPerformance::new_with_mode(d.clone(), &cur, t).map(|mut g| g.last(st.clone()).map(|a| format!("{a:?}"))));
                    let pb = guarded(|| GradualPerformance::new(d.clone(), cm).last(st.clone()).map(|a| format!("{a:?}")));
                    match (pa, pb) {
                        (Ok(Ok(a)), Ok(b)) if a == b => {}
                        (a, b) => ctx.bad("gradual_performance_with_mode", 99, format!("{b:?}").chars().take(300).collect(), format!("{a:?}").chars().take(300).collect()),
                    }
                } else if r.is_ok() != conv.is_ok() {
                    ctx.bad("calculate_for_mode_vs_convert", 99, format!("{}", conv.is_ok()), format!("{}", r.is_ok()));
                }
            }
        }
        // Performance::try_mode / mode_or_ignore, from a borrowed map, an owned map and attributes
        for (src, want) in [("ref", &api.try_ref), ("own", &api.try_own), ("attrs", &api.try_attrs)] {
            let k = ctx.sci + ctx.mapi;
            let build = || -> Performance<'_> {
                let p = match src {
                    "ref" => Performance::new(&cur),
                    "own" => Performance::new(cur.clone()),
                    _ => Performance::new(d.calculate(&cur)),
                };
                perf_setters(p, &d, k)
            };
            let r = guarded(|| build().try_mode(t));
            let Ok(r) = r else {
                ctx.bad("panic_try_mode", 99, "no panic".into(), format!("{src}"));
                continue;
            };
            if r.is_ok() != want.ok {
                ctx.bad(&format!("try_mode_{src}_ok"), 99, want.ok.to_string(), r.is_ok().to_string());
                continue;
            }
            match r {
                Ok(p) => {
                    let variant = match &p {
                        Performance::Osu(_) => "osu",
                        Performance::Taiko(_) => "taiko",
                        Performance::Catch(_) => "catch",
                        Performance::Mania(_) => "mania",
                    };
                    if variant != want.variant {
                        ctx.bad(&format!("try_mode_{src}_variant"), 99, want.variant.clone(), variant.into());
                    }
                    if src != "attrs" {
                        if let Ok(cm) = &conv {
                            let a = guarded(|| format!("{:?}", p.calculate()));
                            let b = guarded(|| format!("{:?}", perf_setters(Performance::new(cm), &d, k).calculate()));
                            if a != b {
                                ctx.bad(&format!("try_mode_{src}_value"), 99, format!("{b:?}").chars().take(400).collect(), format!("{a:?}").chars().take(400).collect());
                            }
                        }
                    }
                }
                Err(p) => {
                    // fails exactly when conversion fails, and hands the builder back unchanged
                    if p != build() {
                        ctx.bad(&format!("try_mode_{src}_err_changed_builder"), 99, "unchanged builder".into(), "changed".into());
                    }
                }
            }
            // mode_or_ignore
            let m = guarded(|| build().mode_or_ignore(t));
            if let Ok(p) = m {
                let variant = match &p {
                    Performance::Osu(_) => "osu",
                    Performance::Taiko(_) => "taiko",
                    Performance::Catch(_) => "catch",
                    Performance::Mania(_) => "mania",
                };
                if variant != want.variant {
                    ctx.bad(&format!("mode_or_ignore_{src}"), 99, want.variant.clone(), variant.into());
                }
            } else {
                ctx.bad("panic_mode_or_ignore", 99, "no panic".into(), src.into());
            }
        }
    }
}

pub fn conversion_cfgs(tier: &str) -> Vec<Cfg> {
    let base = Cfg::default();
    let mut v = vec![
        base.clone(),
        base.with_acronyms("4K"),
        base.with_acronyms("7K"),
        base.with_acronyms("HO"),
        base.with_acronyms("IN"),
        Cfg { mods: crate::settings::HR, clock_rate: Some(1.5), ..Default::default() },
        // lazer Random with a seed: a mania-mode set and a taiko-mode set (see settings::Cfg::game_mods)
        Cfg { random_seed: Some(42), ..Default::default() },
        Cfg { random_seed: Some(1337), da_scroll: Some(1.0), ..Default::default() },
    ];
    if tier == "thorough" {
        for a in ["1K", "2K", "3K", "5K", "6K", "8K", "9K", "10K", "MR", "IN,HO", "DS"] {
            v.push(base.with_acronyms(a));
        }
        v.push(Cfg { mods: crate::settings::EZ | crate::settings::HT, ..Default::default() });
    }
    v
}

pub fn native_maps(seed: u64, tier: &str) -> BTreeMap<String, Vec<(Vec<AbsObj>, String)>> {
    let mut rng = StdRng::seed_from_u64(seed ^ 0xd15);
    let mut out = BTreeMap::new();
    let n_maps = if tier == "thorough" { 6 } else { 3 };      // 9, 2 and 0 objects (the empty map has its own early returns)
    for mode in ["osu", "taiko", "catch", "mania"] {
        let mut v = Vec::new();
        for i in 0..n_maps {
            let n = [9, 2, 0, 25, 5, 14][i % 6];
            let objs = random_objs(&mut rng, mode, n);
            let text = concretize(mode, &objs, &profile((seed as u32).wrapping_add(i as u32)));
            v.push((objs, text));
        }
        // one longer, hand-shaped map per mode: 40 circles, the first 28 with the same (no) hit sound - a mono-colour run in
        // taiko, one lane in mania - then alternating; conversion-dependent state (is_convert read by a skill) needs such runs
        {
            let m = crate::absmap::mode_num(mode);
            let mut text = format!("osu file format v14\n\n[General]\nMode: {m}\n\n[Difficulty]\nHPDrainRate:5\nCircleSize:4\nOverallDifficulty:7\nApproachRate:8\nSliderMultiplier:1.4\nSliderTickRate:1\n\n[TimingPoints]\n0,400,4,2,0,100,1,0\n\n[HitObjects]\n");
            for k in 0..40u32 {
                let snd = if k < 28 { 0 } else { [8u32, 0, 2][k as usize % 3] };
                text += &format!("{},{},{},1,{snd}\n", 64 + 128 * ((k / 7) % 4), 100 + 30 * (k % 5), 1000 + 150 * k);
            }
            v.push((Vec::new(), text));
        }
        out.insert(mode.to_string(), v);
    }
    out
}

/// `dispatch-replay <scenarios.ndjson> <out.json> --tier T`
pub fn main(args: &[String]) -> i32 {
    silence_panics();
    let tier = args.iter().position(|a| a == "--tier").map(|i| args[i + 1].clone()).unwrap_or("quick".into());
    let seed: u64 = std::env::var("VERIF_SEED").ok().and_then(|s| s.parse().ok()).unwrap_or(0);
    let scenarios: Vec<Scenario> = read_ndjson(&args[0]).into_iter().map(|v| serde_json::from_value(v).expect("scenario shape")).collect();
    let maps = native_maps(seed, &tier);
    let decoded: BTreeMap<String, Vec<Beatmap>> = maps
        .iter()
        .map(|(k, v)| (k.clone(), v.iter().map(|(_, t)| Beatmap::from_bytes(t.as_bytes()).expect("concretised map decodes")).collect()))
        .collect();
    let cfgs = conversion_cfgs(&tier);
    let n = scenarios.len();
    let results = par_map(n, n_threads(), |i| {
        let sc = &scenarios[i];
        let mut all = Vec::new();
        let mut checks = 0;
        for (mi, m) in decoded[&sc.native].iter().enumerate() {
            // every settings profile on the first map, a rotating one on the others
            for (ci, cfg) in cfgs.iter().enumerate() {
                if mi > 0 && ci != (i + mi) % cfgs.len() {
                    continue;
                }
                let mut ctx = Ctx { sci: i, sc, mapi: mi, cfgi: ci, mism: Vec::new(), checks: 0 };
                run(&mut ctx, m, cfg);
                checks += ctx.checks;
                all.extend(ctx.mism);
            }
        }
        (checks, all)
    });
    let mut checks = 0;
    let mut mism = Vec::new();
    for (c, m) in results {
        checks += c;
        mism.extend(m);
    }
    let mut by: BTreeMap<String, u64> = BTreeMap::new();
    for m in &mism {
        *by.entry(m["what"].as_str().unwrap_or("?").to_string()).or_default() += 1;
    }
    let mut seen = BTreeMap::new();
    let mut records = Vec::new();
    for m in &mism {
        let w = m["what"].as_str().unwrap_or("?").to_string();
        let c = seen.entry(w).or_insert(0);
        if *c < 3 {
            *c += 1;
            let mut r = m.clone();
            let native = m["scenario"]["native"].as_str().unwrap().to_string();
            r["osu_text"] = json!(maps[&native][m["map_index"].as_u64().unwrap() as usize].1);
            r["cfg"] = json!(cfgs[m["cfg_index"].as_u64().unwrap() as usize]);
            records.push(r);
        }
    }
    let samples: Vec<Value> = scenarios.iter().filter(|s| s.steps.len() >= 2).take(3).map(|s| json!({"native": s.native, "steps": s.steps, "outs": s.outs})).collect();
    let out = json!({"scenarios": n, "checks": checks, "mismatches": mism.len(), "by_class": by, "records": records, "samples": samples,
        "maps_per_mode": maps.values().next().map(|v| v.len()), "cfgs": cfgs.len()});
    std::fs::write(&args[1], serde_json::to_string_pretty(&out).unwrap()).unwrap();
    println!("dispatch-replay: scenarios={} checks={} mismatches={}", n, checks, mism.len());
    0
}
