//! `stack-replay <scenarios.ndjson> <out.json>`: every object list TLC enumerated (MC_OsuStacking) is rendered as an osu! map in
//! format v14 (`stacking`) and v5 (`old_stacking`); the stack heights the hook reports (event `osu_stack`) must equal the model's
//!  * for the whole map,
//!  * for every one-shot partial play `passed_objects(k)` (the heights of the WHOLE map: a prefix stacked on its own differs,
//!    the scenarios TLC marks `unstable`),
//!  * for the gradual calculator.

use crate::util::*;
use rosu_pp::Beatmap;
use serde_json::{json, Value};
use std::fmt::Write as _;

fn render(sc: &Value, version: u32) -> String {
    let thr = sc["thr"].as_f64().unwrap_or(600.0);
    // AR 5: preempt 1200 ms
    let mut s = format!("osu file format v{version}\n\n[General]\nStackLeniency: {}\nMode: 0\n\n[Difficulty]\nHPDrainRate:5\nCircleSize:4\nOverallDifficulty:5\nApproachRate:5\nSliderMultiplier:1\nSliderTickRate:1\n\n[TimingPoints]\n0,800,4,2,0,100,1,0\n\n[HitObjects]\n", thr / 1200.0);
    for o in sc["objs"].as_array().map(|a| a.as_slice()).unwrap_or(&[]) {
        let x = 100 + o["pos"].as_i64().unwrap_or(0);
        let t = o["t"].as_i64().unwrap_or(0);
        match o["k"].as_str().unwrap_or("") {
            "c" => { let _ = writeln!(s, "{x},192,{t},1,0"); }
            "s" => {
                let pe = o["ppos"].as_i64().unwrap_or(0);
                let _ = writeln!(s, "{x},192,{t},2,0,L|{}:192,{},{}", 100 + pe, o["rep"].as_i64().unwrap_or(0) + 1, (pe + 100 - x).abs());
            }
            _ => { let _ = writeln!(s, "{x},192,{t},8,0,{}", o["e"].as_i64().unwrap_or(t)); }
        }
    }
    s
}

fn heights_of(events: &[String]) -> Option<(f64, Vec<i64>)> {
    let ev = events.iter().filter(|e| e.contains("osu_stack")).filter_map(|e| serde_json::from_str::<Value>(e).ok()).next()?;
    Some((ev["threshold"].as_f64().unwrap_or(-1.0), ev["heights"].as_array()?.iter().map(|v| v.as_i64().unwrap_or(i64::MIN)).collect()))
}

fn run_one(i: usize, sc: &Value, out: &mut Vec<Value>) -> u64 {
    let mut checks = 0;
    let n = sc["objs"].as_array().map_or(0, |a| a.len());
    for (version, key) in [(14u32, "hnew"), (5u32, "hold")] {
        let text = render(sc, version);
        let want: Vec<i64> = sc[key].as_array().map(|a| a.iter().map(|v| v.as_i64().unwrap_or(i64::MAX)).collect()).unwrap_or_default();
        let mut bad = |what: &str, exp: String, obs: String| {
            out.push(json!({"what": what, "scenario_index": i, "version": version, "unstable": sc["unstable"], "osu_text": text, "expected": exp, "observed": obs}));
        };
        let Ok(map) = Beatmap::from_bytes(text.as_bytes()) else {
            bad("machinery:decode", "ok".into(), "error".into());
            continue;
        };
        if map.hit_objects.len() != n {
            bad("machinery:objects", n.to_string(), map.hit_objects.len().to_string());
            continue;
        }
        // (label, calculation)
        let mut runs: Vec<(String, Box<dyn Fn() + '_>)> = vec![("whole map".into(), Box::new(|| { let _ = rosu_pp::Difficulty::new().calculate(&map); }))];
        for k in 1..n {
            let m = &map;
            runs.push((format!("passed_objects({k})"), Box::new(move || { let _ = rosu_pp::Difficulty::new().passed_objects(k as u32).calculate(m); })));
        }
        runs.push(("gradual".into(), Box::new(|| { let mut g = rosu_pp::GradualDifficulty::new(rosu_pp::Difficulty::new(), &map); let _ = g.next(); })));
        runs.push(("gradual performance".into(), Box::new(|| { let _ = rosu_pp::GradualPerformance::new(rosu_pp::Difficulty::new(), &map); })));
        for (label, f) in runs {
            rosu_pp::verif::trace::start();
            let r = guarded(|| f());
            let raw = rosu_pp::verif::trace::take();
            checks += 1;
            if let Err(p) = r {
                bad("panic", format!("no panic in {label}"), p);
                continue;
            }
            let Some((thr, got)) = heights_of(&raw) else {
                bad("machinery:no_event", format!("an osu_stack event in {label}"), format!("{} events", raw.len()));
                continue;
            };
            if thr != sc["thr"].as_f64().unwrap_or(-2.0) {
                bad("machinery:threshold", sc["thr"].to_string(), thr.to_string());
                continue;
            }
            if got != want {
                bad("stack_heights", format!("{label}: {want:?}"), format!("{got:?}"));
            }
        }
    }
    checks
}

pub fn replay_main(args: &[String]) -> i32 {
    silence_panics();
    use std::io::BufRead;
    let file = std::io::BufReader::new(std::fs::File::open(&args[0]).expect("scenario file"));
    let mut lines = file.lines();
    let (mut n, mut checks, mut unstable) = (0usize, 0u64, 0usize);
    let mut mism: Vec<Value> = Vec::new();
    loop {
        let chunk: Vec<Value> = lines.by_ref().take(100_000).map(|l| serde_json::from_str(&l.expect("readable line")).expect("scenario shape")).collect();
        if chunk.is_empty() {
            break;
        }
        let base = n;
        n += chunk.len();
        unstable += chunk.iter().filter(|s| s["unstable"].as_bool() == Some(true)).count();
        let res = par_map(chunk.len(), n_threads(), |j| {
            let mut out = Vec::new();
            let c = run_one(base + j, &chunk[j], &mut out);
            (c, out)
        });
        for (c, m) in res {
            checks += c;
            if mism.len() < 2000 {
                mism.extend(m);
            }
        }
    }
    let machinery = mism.iter().filter(|m| m["what"].as_str().unwrap_or("").starts_with("machinery")).count();
    std::fs::write(&args[1], serde_json::to_string_pretty(&json!({"scenarios": n, "checks": checks, "unstable": unstable, "mismatches": mism.len(), "machinery": machinery, "records": mism.iter().take(12).collect::<Vec<_>>()})).unwrap()).unwrap();
    println!("stack-replay: scenarios={} checks={} unstable={} mismatches={}", n, checks, unstable, mism.len());
    0
}
