//! C09, performance side: every score-state class TLC enumerated (MC_PerfStates) instantiated on the real
//! difficulty attributes of every mode under mod combinations and both score origins; every float of the
//! performance attributes is projected to {Zero, Pos, Neg, NaN, Inf}.

use crate::util::*;
use rosu_pp::any::{DifficultyAttributes, PerformanceAttributes, ScoreState};
use rosu_pp::model::mode::GameMode;
use rosu_pp::{Beatmap, Difficulty, Performance};
use serde::Deserialize;
use serde_json::{json, Value};
use std::collections::{BTreeMap, HashMap};

#[derive(Clone, Debug, Deserialize)]
struct Scenario {
    n: String,
    dom: String,
    ones: Vec<String>,
    third: String,
    combo: String,
    ticks: String,
}

fn floats(p: &PerformanceAttributes) -> Vec<(&'static str, f64)> {
    match p {
        PerformanceAttributes::Osu(p) => vec![
            ("pp", p.pp), ("pp_acc", p.pp_acc), ("pp_aim", p.pp_aim), ("pp_flashlight", p.pp_flashlight), ("pp_speed", p.pp_speed),
            ("effective_miss_count", p.effective_miss_count), ("speed_deviation", p.speed_deviation.unwrap_or(0.0)),
        ],
        PerformanceAttributes::Taiko(p) => vec![
            ("pp", p.pp), ("pp_acc", p.pp_acc), ("pp_difficulty", p.pp_difficulty), ("effective_miss_count", p.effective_miss_count),
            ("estimated_unstable_rate", p.estimated_unstable_rate.unwrap_or(0.0)),
        ],
        PerformanceAttributes::Catch(p) => vec![("pp", p.pp)],
        PerformanceAttributes::Mania(p) => vec![("pp", p.pp), ("pp_difficulty", p.pp_difficulty)],
    }
}

fn n_of(class: &str, total: u32) -> u32 {
    match class {
        "full" => total,
        c => c[1..].parse::<u32>().unwrap_or(1).min(total),
    }
}

fn total_of(a: &DifficultyAttributes) -> u32 {
    match a {
        DifficultyAttributes::Osu(a) => a.n_objects(),
        DifficultyAttributes::Taiko(a) => a.max_combo,
        DifficultyAttributes::Catch(a) => a.n_fruits + a.n_droplets,
        DifficultyAttributes::Mania(a) => a.n_objects,
    }
}

/// the kinds a mode distributes its objects over (generic field names)
fn kinds_of(a: &DifficultyAttributes) -> &'static [&'static str] {
    match a {
        DifficultyAttributes::Osu(_) => &["n300", "n100", "n50", "miss"],
        DifficultyAttributes::Taiko(_) => &["n300", "n100", "miss"],
        DifficultyAttributes::Catch(_) => &["n300", "n100", "miss"],
        DifficultyAttributes::Mania(_) => &["geki", "n300", "katu", "n100", "n50", "miss"],
    }
}

fn build_state(sc: &Scenario, attrs: &DifficultyAttributes, n: u32) -> Option<ScoreState> {
    let kinds = kinds_of(attrs);
    if !kinds.contains(&sc.dom.as_str()) {
        return None;
    }
    let mut st = ScoreState::new();
    let mut used = 0u32;
    let set = |st: &mut ScoreState, k: &str, v: u32| match k {
        "geki" => st.n_geki = v,
        "n300" => st.n300 = v,
        "katu" => st.n_katu = v,
        "n100" => st.n100 = v,
        "n50" => st.n50 = v,
        _ => st.misses = v,
    };
    for k in kinds.iter() {
        if *k == sc.dom {
            continue;
        }
        let v = if sc.third == *k { n / 3 } else if sc.ones.iter().any(|o| o == k) { 1 } else { 0 };
        let v = v.min(n - used);
        used += v;
        set(&mut st, k, v);
    }
    set(&mut st, &sc.dom, n - used);
    let mc = attrs.max_combo();
    st.max_combo = match sc.combo.as_str() {
        "c0" => 0,
        "c1" => 1,
        "c2" => 2,
        "c10" => 10,
        "half" => mc / 2,
        "over" => mc + 10,
        _ => mc,
    };
    if let DifficultyAttributes::Osu(a) = attrs {
        if sc.ticks == "all" {
            st.slider_end_hits = a.n_sliders;
            st.osu_large_tick_hits = a.n_large_ticks + a.n_sliders;
            st.osu_small_tick_hits = a.n_sliders;
        }
    }
    if let DifficultyAttributes::Catch(a) = attrs {
        // tiny droplets: all caught / none caught
        if sc.ticks == "all" {
            st.n50 = a.n_tiny_droplets;
        } else {
            st.n_katu = a.n_tiny_droplets;
        }
    }
    Some(st)
}

/// `perfgrid-replay <scenarios.ndjson> <out.json> --tier T`
pub fn main(args: &[String]) -> i32 {
    silence_panics();
    let tier = args.iter().position(|a| a == "--tier").map(|i| args[i + 1].clone()).unwrap_or("quick".into());
    let scenarios: Vec<Scenario> = read_ndjson(&args[0]).into_iter().map(|v| serde_json::from_value(v).expect("scenario shape")).collect();
    // maps: the four fixtures (first 400 objects) and the osu fixture's three converts
    let mut maps: Vec<(String, Beatmap)> = Vec::new();
    for id in ["2785319", "1028484", "2118524", "1638954"] {
        if let Ok(mut m) = Beatmap::from_path(format!("/repo/resources/{id}.osu")) {
            m.hit_objects.truncate(400);
            m.hit_sounds.truncate(400);
            if id == "2785319" {
                for t in [GameMode::Taiko, GameMode::Catch, GameMode::Mania] {
                    if let Ok(c) = m.clone().convert(t, &0u32.into()) {
                        maps.push((format!("{id} as {t:?}"), c));
                    }
                }
            }
            maps.push((id.to_string(), m));
        }
    }
    let mods_list: Vec<u32> = if tier == "thorough" {
        let singles = [2u32, 4, 8, 16, 64, 256, 1024, 128, 8192, 4096, 1];
        let mut v = vec![0];
        v.extend(singles);
        for (i, a) in singles.iter().enumerate() {
            for b in &singles[i + 1..] {
                v.push(a | b);
            }
        }
        v
    } else {
        vec![0, 16 | 8, 2 | 1024, 64, 256, 128, 128 | 1024, 8192 | 1024, 4 | 1024, 128 | 2 | 256, 1024 | 64 | 16, 4096]
    };
    // attributes per (map, mods, N class)
    let n_classes: Vec<String> = {
        let mut v: Vec<String> = scenarios.iter().map(|s| s.n.clone()).collect();
        v.sort();
        v.dedup();
        v
    };
    let mut attrs: HashMap<(usize, u32, String), DifficultyAttributes> = HashMap::new();
    for (mi, (_, map)) in maps.iter().enumerate() {
        for &mods in &mods_list {
            let full = Difficulty::new().mods(mods).calculate(map);
            let total = total_of(&full);
            for nc in &n_classes {
                let a = if nc == "full" { full.clone() } else { Difficulty::new().mods(mods).passed_objects(n_of(nc, total)).calculate(map) };
                attrs.insert((mi, mods, nc.clone()), a);
            }
        }
    }
    let n = scenarios.len();
    let res = par_map(n, n_threads(), |i| {
        let sc = &scenarios[i];
        let mut out: Vec<Value> = Vec::new();
        let mut evals = 0u64;
        for (mi, (label, _)) in maps.iter().enumerate() {
            for &mods in &mods_list {
                let a = &attrs[&(mi, mods, sc.n.clone())];
                let nn = total_of(a);
                let Some(st) = build_state(sc, a, nn) else { continue };
                for lazer in [true, false] {
                    evals += 1;
                    let r = guarded(|| Performance::new(a.clone()).mods(mods).lazer(lazer).state(st.clone()).calculate());
                    match r {
                        Err(p) => out.push(json!({"what": "panic", "map": label, "mods": mods, "lazer": lazer, "state": format!("{st:?}"), "class": format!("{sc:?}"), "detail": p})),
                        Ok(pa) => {
                            for (name, x) in floats(&pa) {
                                if !(x == 0.0 || (x > 0.0 && x.is_finite())) {
                                    out.push(json!({"what": "class", "map": label, "mods": mods, "lazer": lazer, "state": format!("{st:?}"), "class": format!("{sc:?}"),
                                        "detail": format!("{name} = {x}")}));
                                }
                            }
                            let hits = st.n300 + st.n100 + st.n50 + st.n_geki + if matches!(a, DifficultyAttributes::Catch(_)) { 0 } else { st.n_katu };
                            if hits == 0 && nn > 0 {
                                // the evaluated state must be judged: the builder may complete it
                                let used = guarded(|| Performance::new(a.clone()).mods(mods).lazer(lazer).state(st.clone()).generate_state());
                                if let Ok(u) = used {
                                    // no hit of any kind (slider ticks / ends hit while every head is missed still count as hits)
                                    if u.n300 + u.n100 + u.n50 + u.n_geki + u.n_katu + u.slider_end_hits + u.osu_large_tick_hits + u.osu_small_tick_hits == 0 && pa.pp() != 0.0 {
                                        out.push(json!({"what": "zero_hits_pp", "map": label, "mods": mods, "lazer": lazer, "state": format!("{st:?}"), "class": format!("{sc:?}"),
                                            "detail": format!("pp = {}", pa.pp())}));
                                    }
                                }
                            }
                        }
                    }
                }
            }
        }
        (evals, out)
    });
    let mut evals = 0;
    let mut mism: Vec<Value> = Vec::new();
    for (e, m) in res {
        evals += e;
        mism.extend(m);
    }
    let mut by: BTreeMap<String, u64> = BTreeMap::new();
    for m in &mism {
        *by.entry(format!("{}/{}", m["what"].as_str().unwrap_or("?"), m["map"].as_str().unwrap_or("-"))).or_default() += 1;
    }
    let mut seen: BTreeMap<String, u32> = BTreeMap::new();
    let mut records = Vec::new();
    for m in &mism {
        let c = seen.entry(format!("{}/{}/{}", m["what"], m["map"], m["detail"].as_str().unwrap_or("").split('=').next().unwrap_or(""))).or_default();
        if *c < 2 {
            *c += 1;
            records.push(m.clone());
        }
    }
    let out = json!({"classes": n, "maps": maps.len(), "mods": mods_list.len(), "evaluations": evals, "problems": mism.len(), "by_class": by, "records": records.iter().take(60).collect::<Vec<_>>()});
    std::fs::write(&args[1], serde_json::to_string_pretty(&out).unwrap()).unwrap();
    println!("perfgrid-replay: state_classes={} maps={} mod_combinations={} evaluations={} problems={}", n, maps.len(), mods_list.len(), evals, mism.len());
    0
}
