//! C12 / C13: score-state generation.  Replays every case TLC enumerated
//! (MC_ScoreGen) on the real performance builders.
//!
//!  * modelled cases (integer branches): the real `generate_state` must equal the
//!    transcription's prediction field by field;
//!  * every case: generating twice gives the same state, and `calculate()` equals
//!    supplying the generated state explicitly (compared through Debug text);
//!  * cases with accuracy (and any case whose real result differs from the
//!    prediction) are written to an NDJSON trace; TLC evaluates the C12
//!    requirement predicates and C13 optimality on the REAL result
//!    (TraceScoreGen.tla).

use crate::util::*;
use rosu_pp::any::{DifficultyAttributes, HitResultPriority, ScoreState};
use rosu_pp::catch::CatchDifficultyAttributes;
use rosu_pp::mania::ManiaDifficultyAttributes;
use rosu_pp::osu::OsuDifficultyAttributes;
use rosu_pp::taiko::TaikoDifficultyAttributes;
use rosu_pp::Performance;
use serde::{Deserialize, Serialize};
use serde_json::{json, Value};
use std::collections::BTreeMap;

#[derive(Clone, Debug, Deserialize, Serialize)]
pub struct Shape {
    pub a: u32,
    pub b: u32,
    pub c: u32,
    pub d: u32,
}

#[derive(Clone, Debug, Deserialize, Serialize, PartialEq, Eq)]
pub struct Res {
    pub geki: i64,
    pub n300: i64,
    pub katu: i64,
    pub n100: i64,
    pub n50: i64,
    pub miss: i64,
    pub combo: i64,
    pub ends: i64,
    pub large: i64,
    pub small: i64,
}

#[derive(Clone, Debug, Deserialize, Serialize)]
pub struct Case {
    pub mode: String,
    pub sh: Shape,
    pub passed: i64,
    pub p: Res,
    pub prio: String,
    pub origin: String,
    pub acc: i64,
}

#[derive(Clone, Debug, Deserialize, Serialize)]
pub struct Pred {
    pub ok: bool,
    pub r: Res,
}

#[derive(Clone, Debug, Deserialize, Serialize)]
pub struct Scenario {
    pub c: Case,
    pub modelled: bool,
    pub pred: Pred,
}

pub fn attrs_of(c: &Case) -> DifficultyAttributes {
    let sh = &c.sh;
    match c.mode.as_str() {
        "osu" => DifficultyAttributes::Osu(OsuDifficultyAttributes {
            aim: 2.1,
            speed: 1.7,
            flashlight: 1.2,
            slider_factor: 0.97,
            speed_note_count: f64::from(sh.a) * 0.7,
            aim_difficult_strain_count: 3.0,
            speed_difficult_strain_count: 2.0,
            aim_difficult_slider_count: 1.0,
            ar: 9.0,
            great_hit_window: 27.0,
            ok_hit_window: 70.0,
            meh_hit_window: 110.0,
            hp: 5.0,
            n_circles: sh.a - sh.b,
            n_sliders: sh.b,
            n_large_ticks: sh.c,
            n_spinners: 0,
            stars: 4.2,
            max_combo: sh.d,
        }),
        "taiko" => DifficultyAttributes::Taiko(TaikoDifficultyAttributes {
            stamina: 2.0,
            rhythm: 1.0,
            color: 1.5,
            reading: 0.5,
            great_hit_window: 30.0,
            ok_hit_window: 70.0,
            mono_stamina_factor: 0.3,
            stars: 3.9,
            max_combo: sh.a,
            is_convert: false,
        }),
        "catch" => DifficultyAttributes::Catch(CatchDifficultyAttributes {
            stars: 3.3,
            ar: 9.0,
            n_fruits: sh.a,
            n_droplets: sh.b,
            n_tiny_droplets: sh.c,
            is_convert: false,
        }),
        _ => DifficultyAttributes::Mania(ManiaDifficultyAttributes {
            stars: 4.4,
            n_objects: sh.a,
            n_hold_notes: sh.b,
            max_combo: sh.a + 3 * sh.b,
            is_convert: false,
        }),
    }
}

fn base_builder<'a>(c: &Case, acc_t: i64) -> Performance<'a> {
    let mut p = Performance::new(attrs_of(c));
    // origin
    p = match c.origin.as_str() {
        "S" => p.lazer(false),
        "L" => p.lazer(true),
        _ => {
            // lazer + Classic, expressed in one of three equivalent ways (chosen by the case): the intermode acronym, the lazer
            // mod struct as the API delivers `{"acronym":"CL"}` (every setting unset), the struct with the default spelled out
            let mut im = rosu_mods::GameModsIntermode::new();
            im.insert(rosu_mods::GameModIntermode::Classic);
            let v = &c.p;
            match (v.n300 + 3 * v.n100 + 5 * v.miss + 7 * v.combo + c.acc + c.passed + i64::from(c.sh.a)).rem_euclid(3) {
                0 => p.lazer(true).mods(im),
                _ if c.mode == "mania" => {
                    use rosu_mods::generated_mods as gm;
                    let mut lazer = rosu_mods::GameMods::new();
                    lazer.insert(rosu_mods::GameMod::ClassicMania(gm::ClassicMania::default()));
                    p.lazer(true).mods(lazer)
                }
                k => {
                    use rosu_mods::generated_mods as gm;
                    let mut lazer = rosu_mods::GameMods::new();
                    lazer.insert(rosu_mods::GameMod::ClassicOsu(if k == 1 {
                        gm::ClassicOsu::default()
                    } else {
                        gm::ClassicOsu { no_slider_head_accuracy: Some(true), ..Default::default() }
                    }));
                    p.lazer(true).mods(lazer)
                }
            }
        }
    };
    if c.passed >= 0 {
        p = p.passed_objects(c.passed as u32);
    }
    p = p.hitresult_priority(if c.prio == "B" {
        HitResultPriority::BestCase
    } else {
        HitResultPriority::WorstCase
    });
    let _ = acc_t;
    p
}

fn builder<'a>(c: &Case, acc_t: i64) -> Performance<'a> {
    let mut p = base_builder(c, acc_t);
    let v = &c.p;
    if v.geki >= 0 {
        p = p.n_geki(v.geki as u32);
    }
    if v.n300 >= 0 {
        p = p.n300(v.n300 as u32);
    }
    if v.katu >= 0 {
        p = p.n_katu(v.katu as u32);
    }
    if v.n100 >= 0 {
        p = p.n100(v.n100 as u32);
    }
    if v.n50 >= 0 {
        p = p.n50(v.n50 as u32);
    }
    if v.miss >= 0 {
        p = p.misses(v.miss as u32);
    }
    if v.combo >= 0 {
        p = p.combo(v.combo as u32);
    }
    if v.ends >= 0 {
        p = p.slider_end_hits(v.ends as u32);
    }
    if v.large >= 0 {
        p = p.large_tick_hits(v.large as u32);
    }
    if v.small >= 0 {
        p = p.small_tick_hits(v.small as u32);
    }
    if c.acc >= 0 {
        p = p.accuracy(100.0 * (c.acc as f64) / (acc_t as f64));
    }
    p
}

fn res_of(s: &ScoreState) -> Res {
    Res {
        geki: s.n_geki as i64,
        n300: s.n300 as i64,
        katu: s.n_katu as i64,
        n100: s.n100 as i64,
        n50: s.n50 as i64,
        miss: s.misses as i64,
        combo: s.max_combo as i64,
        ends: s.slider_end_hits as i64,
        large: s.osu_large_tick_hits as i64,
        small: s.osu_small_tick_hits as i64,
    }
}

#[derive(Default)]
struct Out {
    events: Vec<String>,
    mism: Vec<Value>,
    evaluated: u64,
    exact_ok: u64,
}

fn run_case(i: usize, sc: &Scenario, acc_t: i64, out: &mut Out) {
    let c = &sc.c;
    out.evaluated += 1;
    let mut b = builder(c, acc_t);
    let g1 = guarded(|| b.generate_state());
    let g1 = match g1 {
        Ok(s) => s,
        Err(p) => {
            // a panic: the model predicts it as ok = FALSE (u32 underflow; debug only) - in release it wraps
            out.mism.push(json!({"kind": "property", "what": "panic", "case_index": i, "case": c, "observed": p}));
            return;
        }
    };
    let g2 = guarded(|| b.generate_state()).ok();
    let idem = g2.as_ref() == Some(&g1);
    // calculate() == state(generated).calculate()
    let calc1 = guarded(|| dbg_perf(&builder(c, acc_t).calculate())).unwrap_or_else(|p| format!("PANIC {p}"));
    let calc2 = guarded(|| dbg_perf(&base_builder(c, acc_t).state(g1.clone()).calculate())).unwrap_or_else(|p| format!("PANIC {p}"));
    let uses = calc1 == calc2;
    let r = res_of(&g1);
    if !idem {
        out.mism.push(json!({"kind": "property", "what": "idempotent", "case_index": i, "case": c,
            "expected": format!("{:?}", g1), "observed": format!("{:?}", g2)}));
    }
    if !uses {
        out.mism.push(json!({"kind": "property", "what": "calculate_uses_state", "case_index": i, "case": c,
            "generated": format!("{:?}", g1), "expected": calc2, "observed": calc1}));
    }
    let mut differs = false;
    if sc.modelled {
        if sc.pred.ok && sc.pred.r == r {
            out.exact_ok += 1;
        } else {
            differs = true;
        }
    }
    if !sc.modelled || differs {
        out.events.push(
            json!({"c": c, "r": r, "idem": idem, "uses": uses, "modelled": sc.modelled, "pred": sc.pred.r, "i": i}).to_string(),
        );
    }
}

/// `scoregen-replay <scenarios.ndjson> <trace-prefix> <out.json> --acc-t T --chunks K`
pub fn main(args: &[String]) -> i32 {
    let scen_path = &args[0];
    let trace_prefix = &args[1];
    let out_path = &args[2];
    let mut acc_t = 40i64;
    let mut chunks = 4usize;
    let mut i = 3;
    while i < args.len() {
        match args[i].as_str() {
            "--acc-t" => {
                acc_t = args[i + 1].parse().unwrap();
                i += 1;
            }
            "--chunks" => {
                chunks = args[i + 1].parse().unwrap();
                i += 1;
            }
            _ => {}
        }
        i += 1;
    }
    silence_panics();
    let scenarios: Vec<Scenario> = read_ndjson(scen_path)
        .into_iter()
        .map(|v| serde_json::from_value(v).expect("scenario shape"))
        .collect();
    let n = scenarios.len();
    let nt = n_threads();
    let per = n.div_ceil(nt.max(1)).max(1);
    let parts = par_map(nt, nt, |t| {
        let mut out = Out::default();
        let lo = t * per;
        let hi = ((t + 1) * per).min(n);
        for i in lo..hi {
            run_case(i, &scenarios[i], acc_t, &mut out);
        }
        out
    });
    let mut events = Vec::new();
    let mut mism = Vec::new();
    let mut evaluated = 0;
    let mut exact_ok = 0;
    for p in parts {
        events.extend(p.events);
        mism.extend(p.mism);
        evaluated += p.evaluated;
        exact_ok += p.exact_ok;
    }
    // trace chunks for parallel TLC validation
    let chunks = chunks.max(1);
    let per_chunk = events.len().div_ceil(chunks).max(1);
    let mut files = Vec::new();
    for (k, ch) in events.chunks(per_chunk).enumerate() {
        let f = format!("{trace_prefix}.{k}.ndjson");
        std::fs::write(&f, ch.join("\n") + "\n").unwrap();
        files.push(f);
    }
    let mut by: BTreeMap<String, u64> = BTreeMap::new();
    for m in &mism {
        *by.entry(format!("{}/{}", m["case"]["mode"].as_str().unwrap_or("?"), m["what"].as_str().unwrap_or("?"))).or_default() += 1;
    }
    let samples: Vec<Value> = scenarios.iter().step_by((n / 3).max(1)).take(3).map(|s| json!(s)).collect();
    let out = json!({
        "cases": n, "evaluated": evaluated, "exact_equal_to_model": exact_ok, "trace_events": events.len(),
        "trace_files": files, "mismatches": mism.len(), "by_class": by,
        "records": mism.iter().take(40).collect::<Vec<_>>(), "samples": samples,
    });
    std::fs::write(out_path, serde_json::to_string_pretty(&out).unwrap()).unwrap();
    println!("scoregen-replay: cases={} exact_equal_to_model={} trace_events={} direct_mismatches={}", n, exact_ok, events.len(), mism.len());
    0
}
