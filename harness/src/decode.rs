//! C06: decoder replay.  Every line sequence TLC enumerated (MC_Decoder) is
//! rendered to `.osu` text (several byte-level variants), decoded through
//! bytes / str / path, and the projected map is compared with the model's
//! final map field by field.

use crate::util::*;
use rosu_pp::model::hit_object::HitObjectKind;
use rosu_pp::model::mode::GameMode;
use rosu_pp::Beatmap;
use serde::{Deserialize, Serialize};
use serde_json::{json, Value};
use std::collections::BTreeMap;
use std::str::FromStr;

#[derive(Clone, Debug, Deserialize, Serialize, PartialEq)]
pub struct Line {
    pub k: String,
    #[serde(default)]
    pub m: i64,
    #[serde(default)]
    pub key: String,
    #[serde(default)]
    pub v: String,
    #[serde(default)]
    pub t: i64,
    #[serde(default)]
    pub bl: i64,
    #[serde(default)]
    pub tc: bool,
    #[serde(default)]
    pub kiai: bool,
    #[serde(default)]
    pub kind: String,
    #[serde(default)]
    pub sec: String,
}

#[derive(Clone, Debug, Deserialize, Serialize, PartialEq)]
pub struct Tp {
    pub t: i64,
    pub bl: i64,
}
#[derive(Clone, Debug, Deserialize, Serialize, PartialEq)]
pub struct Dp {
    pub t: i64,
    pub sv: i64,
    pub ticks: bool,
}
#[derive(Clone, Debug, Deserialize, Serialize, PartialEq)]
pub struct Ep {
    pub t: i64,
    pub kiai: bool,
    pub scroll: i64,
}
#[derive(Clone, Debug, Deserialize, Serialize, PartialEq, Eq, PartialOrd, Ord)]
pub struct Obj {
    pub t: i64,
    pub id: i64,
    pub kind: String,
}

#[derive(Clone, Debug, Deserialize, Serialize, PartialEq)]
pub struct FinalMap {
    pub mode: i64,
    pub timing: Vec<Tp>,
    pub difficulty: Vec<Dp>,
    pub effect: Vec<Ep>,
    pub objs: Vec<Obj>,
    pub sounds: Vec<i64>,
    pub hp: i64,
    pub cs: i64,
    pub od: i64,
    pub ar: i64,
    pub sm: i64,
    pub tr: i64,
}

#[derive(Clone, Debug, Deserialize, Serialize)]
pub struct Scenario {
    pub aspect: String,
    pub lines: Vec<Line>,
    #[serde(rename = "final")]
    pub fin: FinalMap,
}

const BAD_TP: [&str; 6] = [
    "abc,def",
    "100",
    "1e99,500",
    "100,500,0",
    "100,500,4,2,0,100,1,xyz",
    ",,,,",
];
const BAD_OBJ: [&str; 8] = [
    "10,10,100,2,0,B|20:20|B|30:30|B|x:y,1,100",
    "1,2,3",
    "a,b,100,1,0",
    "10,10,100,64,0",
    "10,10,100,2,0,B|20:20,99999,100",
    "10,10,100,2,0,B|20:20|B|x:y,1,100",
    "10,10,100,12,0",
    "10,10,nan,1,0",
];
const BAD_DIFF: [&str; 4] = ["HPDrainRate:abc", "CircleSize:", "OverallDifficulty:1e99", "ApproachRate 5"];

fn section_of(l: &Line) -> &'static str {
    match l.k.as_str() {
        "mode" => "General",
        "diff" => "Difficulty",
        "tp" => "TimingPoints",
        "obj" => "HitObjects",
        _ => match l.sec.as_str() {
            "tp" => "TimingPoints",
            "obj" => "HitObjects",
            _ => "Difficulty",
        },
    }
}

fn diff_value(key: &str, v: &str) -> &'static str {
    match (key, v) {
        ("HP" | "OD" | "AR", "lo") | ("CS", "lo") => "-3",
        ("HP" | "OD" | "AR", "mid") | ("CS", "mid") => "4",
        ("HP" | "OD" | "AR", _) => "15",
        ("CS", _) => "25",
        ("SM", "lo") => "0.1",
        ("SM", "mid") => "1.4",
        ("SM", _) => "5",
        ("TR", "lo") => "0.1",
        ("TR", "mid") => "2",
        (_, _) => "20",
    }
}

/// variant bits: 1 = CRLF, 2 = BOM, 4 = comments and blank lines, 8 = repeat section headers,
/// 16 = trailing whitespace, 32 = UTF-16LE with BOM (bytes / path only), 64 = a comment line with a stray Latin-1 byte
/// (not valid UTF-8; bytes / path only), 128 = leading whitespace on every line and "Key : Value" spacing,
/// 256 = a blank first line and no final newline, 512 = an empty and an unknown section before every section header,
/// 1024 = a trailing `// comment` on every content line
pub fn render(lines: &[Line], variant: u32, salt: usize) -> Vec<u8> {
    let nl = if variant & 1 != 0 { "\r\n" } else { "\n" };
    let mut s = String::new();
    s.push_str("osu file format v14");
    s.push_str(nl);
    let mut cur = "";
    for (i, l) in lines.iter().enumerate() {
        let sec = section_of(l);
        if sec != cur || variant & 8 != 0 {
            if variant & 512 != 0 {
                s.push_str(nl);
                s.push_str("[Editor]");
                s.push_str(nl);
                s.push_str(nl);
                s.push_str("[Foo]");
                s.push_str(nl);
                s.push_str("Bar:1");
                s.push_str(nl);
            }
            s.push_str(nl);
            s.push_str(&format!("[{sec}]"));
            s.push_str(nl);
            cur = sec;
        }
        if variant & 4 != 0 {
            s.push_str("// a comment");
            s.push_str(nl);
            s.push_str(nl);
        }
        let id = i + 1;
        let text = match l.k.as_str() {
            "mode" => format!("Mode: {}", l.m),
            "diff" => {
                let name = match l.key.as_str() {
                    "HP" => "HPDrainRate",
                    "CS" => "CircleSize",
                    "OD" => "OverallDifficulty",
                    "AR" => "ApproachRate",
                    "SM" => "SliderMultiplier",
                    _ => "SliderTickRate",
                };
                format!("{name}:{}", diff_value(&l.key, &l.v))
            }
            "tp" => {
                let bl = if l.bl == 0 { "NaN".to_string() } else { l.bl.to_string() };
                format!("{},{},4,2,0,100,{},{}", l.t * 100, bl, u8::from(l.tc), u8::from(l.kiai))
            }
            "obj" => {
                let t = l.t * 100;
                // every other object with an EVEN sound carries an addition with a sample file name: the file name strips the
                // NORMAL bit (1) only, so an even sound is still exactly the one written on the line
                let add = if id % 2 == 0 && (salt + i) % 2 == 0 { [",0:0:0:0:hit.wav", ",1:2:0:60:soft-hitclap2.wav"][(salt / 2 + i) % 2] } else { "" };
                match l.kind.as_str() {
                    "C" => format!("{id},192,{t},1,{id}{add}"),
                    "S" if add.is_empty() => format!("{id},192,{t},2,{id},L|{}:192,1,100", id + 100),
                    "S" => format!("{id},192,{t},2,{id},L|{}:192,1,100,{id}|{id},0:0|0:0{add}", id + 100),
                    "P" => format!("{id},192,{t},12,{id},{}{add}", t + 500),
                    _ => format!("{id},192,{t},128,{id},{}:0:0:0:0:", t + 300),
                }
            }
            _ => match l.sec.as_str() {
                "tp" => BAD_TP[(salt + i) % BAD_TP.len()].to_string(),
                "obj" => BAD_OBJ[(salt + i) % BAD_OBJ.len()].to_string(),
                _ => BAD_DIFF[(salt + i) % BAD_DIFF.len()].to_string(),
            },
        };
        if variant & 128 != 0 {
            s.push_str("  ");
            if matches!(l.k.as_str(), "mode" | "diff") {
                s.push_str(&text.replacen(':', " : ", 1));
            } else {
                s.push_str(&text);
            }
        } else {
            s.push_str(&text);
        }
        if variant & 1024 != 0 {
            s.push_str(if i % 2 == 0 { " // c" } else { "//c" });
        }
        if variant & 16 != 0 {
            s.push_str("  ");
        }
        s.push_str(nl);
    }
    if variant & 256 != 0 {
        s = format!("{nl}{}", s.trim_end_matches(['\r', '\n']));
    }
    if variant & 32 != 0 {
        let mut b = vec![0xFF, 0xFE];
        for u in s.encode_utf16() {
            b.extend_from_slice(&u.to_le_bytes());
        }
        return b;
    }
    let mut b = Vec::new();
    if variant & 2 != 0 {
        b.extend_from_slice(&[0xEF, 0xBB, 0xBF]);
    }
    if variant & 64 != 0 {
        // after the header line: "// caf<E9>"
        let cut = s.find(nl).map_or(s.len(), |p| p + nl.len());
        b.extend_from_slice(s[..cut].as_bytes());
        b.extend_from_slice(b"// caf\xE9");
        b.extend_from_slice(nl.as_bytes());
        b.extend_from_slice(s[cut..].as_bytes());
        return b;
    }
    b.extend_from_slice(s.as_bytes());
    b
}

fn sound_bits(s: &rosu_pp::model::hit_object::HitSoundType) -> i64 {
    let mut v = 0i64;
    for b in 0..8 {
        if s.has_flag(1u8 << b) {
            v |= 1 << b;
        }
    }
    v
}

fn r10(x: f64) -> i64 {
    (x * 10.0).round() as i64
}

/// Project a decoded map to the observation vocabulary of Decoder.tla.
/// Returns Err for values that the vocabulary cannot express (non-finite numbers, ...).
pub fn project(map: &Beatmap) -> Result<FinalMap, String> {
    let fin = |x: f64, what: &str| if x.is_finite() { Ok(x) } else { Err(format!("{what} is not finite: {x}")) };
    let t100 = |x: f64, what: &str| -> Result<i64, String> {
        let x = fin(x, what)?;
        Ok((x / 100.0).round() as i64)
    };
    let mut m = FinalMap {
        mode: match map.mode {
            GameMode::Osu => 0,
            GameMode::Taiko => 1,
            GameMode::Catch => 2,
            GameMode::Mania => 3,
        },
        timing: vec![],
        difficulty: vec![],
        effect: vec![],
        objs: vec![],
        sounds: vec![],
        hp: r10(fin(map.hp as f64, "hp")?),
        cs: r10(fin(map.cs as f64, "cs")?),
        od: r10(fin(map.od as f64, "od")?),
        ar: r10(fin(map.ar as f64, "ar")?),
        sm: r10(fin(map.slider_multiplier, "slider_multiplier")?),
        tr: r10(fin(map.slider_tick_rate, "slider_tick_rate")?),
    };
    for p in &map.timing_points {
        m.timing.push(Tp { t: t100(p.time, "timing time")?, bl: fin(p.beat_len, "beat_len")?.round() as i64 });
    }
    for p in &map.difficulty_points {
        fin(p.bpm_multiplier, "bpm_multiplier")?;
        m.difficulty.push(Dp {
            t: t100(p.time, "difficulty time")?,
            sv: (fin(p.slider_velocity, "slider_velocity")? * 100.0).round() as i64,
            ticks: p.generate_ticks,
        });
    }
    for p in &map.effect_points {
        m.effect.push(Ep {
            t: t100(p.time, "effect time")?,
            kiai: p.kiai,
            scroll: (fin(p.scroll_speed, "scroll_speed")? * 100.0).round() as i64,
        });
    }
    for h in &map.hit_objects {
        fin(h.pos.x as f64, "x")?;
        fin(h.pos.y as f64, "y")?;
        let kind = match &h.kind {
            HitObjectKind::Circle => "C".to_string(),
            HitObjectKind::Slider(s) => {
                // a straight two-point slider; anything else means foreign control points leaked in
                if s.control_points.len() == 2 {
                    "S".to_string()
                } else {
                    format!("S[{} control points]", s.control_points.len())
                }
            }
            HitObjectKind::Spinner(s) => {
                fin(s.duration, "spinner duration")?;
                if s.duration < 0.0 {
                    return Err("negative spinner duration".into());
                }
                "P".to_string()
            }
            HitObjectKind::Hold(s) => {
                fin(s.duration, "hold duration")?;
                if s.duration < 0.0 {
                    return Err("negative hold duration".into());
                }
                "H".to_string()
            }
        };
        m.objs.push(Obj { t: t100(h.start_time, "start_time")?, id: h.pos.x as i64, kind });
    }
    for s in &map.hit_sounds {
        m.sounds.push(sound_bits(s));
    }
    Ok(m)
}

fn compare(want: &FinalMap, got: &FinalMap) -> Option<String> {
    let mut w = want.clone();
    let mut g = got.clone();
    if w.mode == 3 {
        // mania: the legacy sort is not stable and the sounds are not permuted with the objects
        w.objs.sort();
        g.objs.sort();
        w.sounds.sort();
        g.sounds.sort();
    }
    if w == g {
        return None;
    }
    let fields: [(&str, String, String); 6] = [
        ("mode/difficulty", format!("{:?}", (w.mode, w.hp, w.cs, w.od, w.ar, w.sm, w.tr)), format!("{:?}", (g.mode, g.hp, g.cs, g.od, g.ar, g.sm, g.tr))),
        ("timing", format!("{:?}", w.timing), format!("{:?}", g.timing)),
        ("difficulty points", format!("{:?}", w.difficulty), format!("{:?}", g.difficulty)),
        ("effect points", format!("{:?}", w.effect), format!("{:?}", g.effect)),
        ("objects", format!("{:?}", w.objs), format!("{:?}", g.objs)),
        ("sounds", format!("{:?}", w.sounds), format!("{:?}", g.sounds)),
    ];
    for (name, a, b) in fields {
        if a != b {
            return Some(format!("{name}: model {a} real {b}"));
        }
    }
    Some("differs".into())
}

#[derive(Default)]
struct Out {
    decodes: u64,
    mism: Vec<Value>,
}

fn run_one(i: usize, sc: &Scenario, seed: u64, tmp: &str, out: &mut Out) {
    let salt = (hash_str(&format!("{seed}/{i}")) % 1_000_003) as usize;
    let base = render(&sc.lines, 0, salt);
    let text = String::from_utf8(base.clone()).unwrap();
    let mk = |what: &str, exp: String, obs: String| json!({"scenario_index": i, "what": what, "lines": sc.lines, "text": text, "expected": exp, "observed": obs, "model_final": sc.fin});
    // bytes
    let a = guarded(|| Beatmap::from_bytes(&base));
    out.decodes += 1;
    let a = match a {
        Ok(Ok(m)) => m,
        Ok(Err(e)) => {
            out.mism.push(mk("decode_error", "Ok".into(), e.to_string()));
            return;
        }
        Err(p) => {
            out.mism.push(mk("panic", "no panic".into(), p));
            return;
        }
    };
    match project(&a) {
        Ok(got) => {
            if let Some(d) = compare(&sc.fin, &got) {
                out.mism.push(mk("map", d.clone(), d));
            }
        }
        Err(e) => out.mism.push(mk("not_finite", "finite fields".into(), e)),
    }
    // the model state does not depend on WHERE the mode line stands among the difficulty lines, and the model checker keeps one
    // file per state: re-expand the order here (difficulty lines first and the mode last, and the other way round)
    if sc.aspect == "diff" && sc.lines.iter().any(|l| l.k == "mode") && sc.lines.iter().any(|l| l.k == "diff") {
        for mode_last in [true, false] {
            let mut re: Vec<Line> = sc.lines.iter().filter(|l| (l.k == "mode") != mode_last).cloned().collect();
            re.extend(sc.lines.iter().filter(|l| (l.k == "mode") == mode_last).cloned());
            if re == sc.lines {
                continue;
            }
            let bytes = render(&re, 0, salt);
            out.decodes += 1;
            match guarded(|| Beatmap::from_bytes(&bytes)) {
                Ok(Ok(m)) => match project(&m) {
                    Ok(got) => {
                        if let Some(d) = compare(&sc.fin, &got) {
                            out.mism.push(json!({"scenario_index": i, "what": "map (sections reordered)", "lines": re, "text": String::from_utf8_lossy(&bytes), "expected": d, "observed": d, "model_final": sc.fin}));
                        }
                    }
                    Err(e) => out.mism.push(mk("not_finite", "finite fields".into(), e)),
                },
                Ok(Err(e)) => out.mism.push(mk("decode_error", "Ok".into(), e.to_string())),
                Err(p) => out.mism.push(mk("panic", "no panic".into(), p)),
            }
        }
    }
    // str and path must give equal maps
    let b = guarded(|| Beatmap::from_str(&text));
    out.decodes += 1;
    match b {
        Ok(Ok(m)) if m == a => {}
        other => out.mism.push(mk("from_str_differs", "equal map".into(), format!("{:?}", other.map(|r| r.map(|_| "different map"))))),
    }
    if i % 4 == (seed % 4) as usize {
        std::fs::write(tmp, &base).unwrap();
        let c = guarded(|| Beatmap::from_path(tmp));
        out.decodes += 1;
        match c {
            Ok(Ok(m)) if m == a => {}
            other => out.mism.push(mk("from_path_differs", "equal map".into(), format!("{:?}", other.map(|r| r.map(|_| "different map"))))),
        }
    }
    // one byte-level variant of the same content (same bad-line pool entries)
    let variant = [1u32, 2, 4, 8, 16, 32, 1 | 2 | 16, 4 | 8, 64, 64 | 1 | 2, 128, 256, 512, 128 | 256 | 1, 512 | 4 | 16, 1024, 1024 | 1 | 16][(salt / 3) % 17];
    let vb = render(&sc.lines, variant, salt);
    let d = guarded(|| Beatmap::from_bytes(&vb));
    out.decodes += 1;
    match d {
        Ok(Ok(m)) if m == a => {}
        other => out.mism.push(mk(
            "variant_differs",
            "equal map".into(),
            format!("variant {variant}: {:?}", other.map(|r| r.map(|_| "different map"))),
        )),
    }
    // ... and the same bytes read from a file (encodings that are not UTF-8 exist only as bytes / files)
    if i % 3 == (seed % 3) as usize || variant & (32 | 64) != 0 {
        std::fs::write(tmp, &vb).unwrap();
        let c = guarded(|| Beatmap::from_path(tmp));
        out.decodes += 1;
        match c {
            Ok(Ok(m)) if m == a => {}
            other => out.mism.push(mk("variant_from_path_differs", "equal map".into(), format!("variant {variant}: {:?}", other.map(|r| r.map(|_| "different map"))))),
        }
    }
}

/// `decode-replay <scenarios.ndjson> <out.json>`
pub fn main(args: &[String]) -> i32 {
    silence_panics();
    let scenarios: Vec<Scenario> = read_ndjson(&args[0])
        .into_iter()
        .map(|v| serde_json::from_value(v).expect("scenario shape"))
        .collect();
    let seed: u64 = std::env::var("VERIF_SEED").ok().and_then(|s| s.parse().ok()).unwrap_or(0);
    let n = scenarios.len();
    let nt = n_threads();
    let per = n.div_ceil(nt.max(1)).max(1);
    let parts = par_map(nt, nt, |t| {
        let mut out = Out::default();
        let tmp = format!("/verif/out/decode_tmp_{}_{}.osu", std::process::id(), t);
        for i in (t * per)..(((t + 1) * per).min(n)) {
            run_one(i, &scenarios[i], seed, &tmp, &mut out);
        }
        let _ = std::fs::remove_file(&tmp);
        out
    });
    let mut decodes = 0;
    let mut mism = Vec::new();
    for p in parts {
        decodes += p.decodes;
        mism.extend(p.mism);
    }
    let mut by: BTreeMap<String, u64> = BTreeMap::new();
    for m in &mism {
        *by.entry(m["what"].as_str().unwrap_or("?").to_string()).or_default() += 1;
    }
    let samples: Vec<Value> = scenarios
        .iter()
        .filter(|s| s.lines.len() >= 2)
        .step_by((n / 3).max(1))
        .take(3)
        .map(|s| json!({"lines": s.lines, "text": String::from_utf8_lossy(&render(&s.lines, 0, 0)), "model_final": s.fin}))
        .collect();
    let out = json!({"scenarios": n, "decodes": decodes, "mismatches": mism.len(), "by_class": by,
        "records": mism.iter().take(30).collect::<Vec<_>>(), "samples": samples});
    std::fs::write(&args[1], serde_json::to_string_pretty(&out).unwrap()).unwrap();
    println!("decode-replay: scenarios={} decodes={} mismatches={}", n, decodes, mism.len());
    0
}

// ---------------------------------------------------------------------------
// impl -> spec: decode real / mutated / random texts, log the projected maps
// for TraceDecoder.tla (well-formedness evaluated by TLC on the real output).

use rand::{rngs::StdRng, Rng, SeedableRng};

fn ranks(vals: &[f64]) -> Vec<i64> {
    let mut sorted: Vec<f64> = vals.to_vec();
    sorted.sort_by(|a, b| a.total_cmp(b));
    sorted.dedup_by(|a, b| a.total_cmp(b) == std::cmp::Ordering::Equal);
    vals.iter()
        .map(|v| sorted.binary_search_by(|p| p.total_cmp(v)).unwrap() as i64)
        .collect()
}

fn clampi(x: f64) -> i64 {
    if x.is_nan() {
        -999_999
    } else {
        x.round().clamp(-1_000_000.0, 1_000_000.0) as i64
    }
}

/// Projection for arbitrary maps: times as order-preserving ranks (total order), values rounded.
fn project_any(map: &Beatmap, paired: bool) -> Value {
    let mut finite = true;
    let mut chk = |x: f64| {
        if !x.is_finite() {
            finite = false;
        }
    };
    for p in &map.timing_points {
        chk(p.time);
        chk(p.beat_len);
    }
    for p in &map.difficulty_points {
        chk(p.time);
        chk(p.slider_velocity);
        chk(p.bpm_multiplier);
    }
    for p in &map.effect_points {
        chk(p.time);
        chk(p.scroll_speed);
    }
    let mut neg_dur = false;
    for h in &map.hit_objects {
        chk(h.start_time);
        chk(h.pos.x as f64);
        chk(h.pos.y as f64);
        match &h.kind {
            HitObjectKind::Spinner(s) => {
                chk(s.duration);
                neg_dur |= s.duration < 0.0;
            }
            HitObjectKind::Hold(s) => {
                chk(s.duration);
                neg_dur |= s.duration < 0.0;
            }
            HitObjectKind::Slider(s) => {
                if let Some(d) = s.expected_dist {
                    chk(d);
                }
                for c in s.control_points.iter() {
                    chk(c.pos.x as f64);
                    chk(c.pos.y as f64);
                }
            }
            HitObjectKind::Circle => {}
        }
    }
    for b in &map.breaks {
        chk(b.start_time);
        chk(b.end_time);
        // a break never ends before it starts (documented clamp of the [Events] section)
        neg_dur |= b.end_time < b.start_time;
    }
    for v in [map.hp as f64, map.cs as f64, map.od as f64, map.ar as f64, map.slider_multiplier, map.slider_tick_rate, map.stack_leniency as f64] {
        chk(v);
    }
    let tr = ranks(&map.timing_points.iter().map(|p| p.time).collect::<Vec<_>>());
    let dr = ranks(&map.difficulty_points.iter().map(|p| p.time).collect::<Vec<_>>());
    let er = ranks(&map.effect_points.iter().map(|p| p.time).collect::<Vec<_>>());
    let or = ranks(&map.hit_objects.iter().map(|h| h.start_time).collect::<Vec<_>>());
    json!({
        "mode": match map.mode { GameMode::Osu => 0, GameMode::Taiko => 1, GameMode::Catch => 2, GameMode::Mania => 3 },
        "paired": paired,
        "finite": finite,
        "negdur": neg_dur,
        "timing": map.timing_points.iter().zip(tr).map(|(p, r)| json!({"t": r, "bl": clampi(p.beat_len)})).collect::<Vec<_>>(),
        "difficulty": map.difficulty_points.iter().zip(dr).map(|(p, r)| json!({"t": r, "sv": clampi(p.slider_velocity * 100.0), "ticks": p.generate_ticks})).collect::<Vec<_>>(),
        "effect": map.effect_points.iter().zip(er).map(|(p, r)| json!({"t": r, "kiai": p.kiai, "scroll": clampi(p.scroll_speed * 100.0)})).collect::<Vec<_>>(),
        "objs": map.hit_objects.iter().zip(or).map(|(h, r)| json!({"t": r, "id": if paired { clampi(h.pos.x as f64) } else { -1 }, "kind": "x"})).collect::<Vec<_>>(),
        "sounds": map.hit_sounds.iter().map(|s| if paired { sound_bits(s) } else { -1 }).collect::<Vec<_>>(),
        "hp": clampi(map.hp as f64 * 10.0), "cs": clampi(map.cs as f64 * 10.0), "od": clampi(map.od as f64 * 10.0),
        "ar": clampi(map.ar as f64 * 10.0), "sm": clampi(map.slider_multiplier * 10.0), "tr": clampi(map.slider_tick_rate * 10.0),
    })
}

const TOKENS: [&str; 14] = [
    "NaN", "nan", "inf", "-inf", "1e308", "-1e308", "2147483647", "2147483648", "-2147483649", "131072", "-131073", "0", "", "9999999999999999999999",
];

fn mutate(rng: &mut StdRng, text: &str) -> Vec<u8> {
    let mut lines: Vec<String> = text.lines().map(String::from).collect();
    // every fourth mutation also carries break lines whose end lies before their start, and sections in an unusual order (the
    // difficulty section before the general one, a second Mode line at the end)
    if rng.gen_range(0..4) == 0 {
        let at = lines.iter().position(|l| l.trim() == "[Events]").map_or(lines.len(), |i| i + 1);
        if at == lines.len() {
            lines.push("[Events]".into());
        }
        let at = at.min(lines.len());
        lines.insert(at.min(lines.len()), "2,9000,6000".into());
        lines.insert(at.min(lines.len()), "Break,20000,19999.5".into());
        if rng.gen_bool(0.5) {
            let cs = ["0", "18", "14", "-3"][rng.gen_range(0..4)];
            let head = vec!["osu file format v14".to_string(), "[Difficulty]".into(), format!("CircleSize:{cs}"), "[General]".into(), format!("Mode: {}", [0, 3][rng.gen_range(0..2)])];
            lines.retain(|l| !l.starts_with("osu file format") && !l.starts_with("CircleSize"));
            lines.splice(0..0, head);
            lines.push("[General]".into());
            lines.push(format!("Mode: {}", [0, 3, 1][rng.gen_range(0..3)]));
        }
    }
    let n = lines.len().max(1);
    match rng.gen_range(0..9) {
        0 => {
            // shuffle a window of lines
            let a = rng.gen_range(0..n);
            let b = (a + rng.gen_range(2..40)).min(n);
            for i in (a + 1..b).rev() {
                let j = rng.gen_range(a..=i);
                lines.swap(i, j);
            }
        }
        1 => {
            // duplicate lines
            for _ in 0..rng.gen_range(1..20) {
                let a = rng.gen_range(0..lines.len());
                let l = lines[a].clone();
                let b = rng.gen_range(0..=lines.len());
                lines.insert(b, l);
            }
        }
        2 => {
            // truncate at a random byte
            let joined = lines.join("\n");
            let cut = rng.gen_range(0..joined.len().max(1));
            return joined.as_bytes()[..cut].to_vec();
        }
        3 => {
            // corrupt random bytes
            let mut b = lines.join("\r\n").into_bytes();
            for _ in 0..rng.gen_range(1..30) {
                let i = rng.gen_range(0..b.len().max(1));
                if i < b.len() {
                    b[i] = rng.gen();
                }
            }
            return b;
        }
        4 | 5 => {
            // replace numeric fields by extreme tokens
            for _ in 0..rng.gen_range(1..25) {
                let a = rng.gen_range(0..lines.len());
                let mut parts: Vec<String> = lines[a].split(',').map(String::from).collect();
                if parts.len() > 1 {
                    let k = rng.gen_range(0..parts.len());
                    parts[k] = TOKENS[rng.gen_range(0..TOKENS.len())].to_string();
                    lines[a] = parts.join(",");
                } else if let Some((k, _)) = lines[a].split_once(':') {
                    lines[a] = format!("{k}:{}", TOKENS[rng.gen_range(0..TOKENS.len())]);
                }
            }
        }
        6 => {
            // move a section header / delete lines
            for _ in 0..rng.gen_range(1..30) {
                let a = rng.gen_range(0..lines.len());
                lines.remove(a);
                if lines.is_empty() {
                    break;
                }
            }
        }
        7 => {
            // reverse the hit objects (decreasing times)
            if let Some(p) = lines.iter().position(|l| l.trim() == "[HitObjects]") {
                lines[p + 1..].reverse();
            }
        }
        _ => {
            // UTF-16LE
            let s = lines.join("\n");
            let mut b = vec![0xFF, 0xFE];
            for u in s.encode_utf16() {
                b.extend_from_slice(&u.to_le_bytes());
            }
            return b;
        }
    }
    lines.join("\n").into_bytes()
}

fn random_lines(rng: &mut StdRng, n: usize) -> Vec<Line> {
    let mut v = Vec::new();
    for _ in 0..n {
        let k = match rng.gen_range(0..10) {
            0 => "mode",
            1 => "diff",
            2..=4 => "tp",
            5..=8 => "obj",
            _ => "bad",
        };
        v.push(Line {
            k: k.into(),
            m: rng.gen_range(0..4),
            key: ["HP", "CS", "OD", "AR", "SM", "TR"][rng.gen_range(0..6)].into(),
            v: ["lo", "mid", "hi"][rng.gen_range(0..3)].into(),
            t: rng.gen_range(-2..6),
            bl: [500, 400, -50, -100, 0, -1, 1, 70000][rng.gen_range(0..8)],
            tc: rng.gen(),
            kiai: rng.gen(),
            kind: ["C", "S", "P", "H"][rng.gen_range(0..4)].into(),
            sec: ["tp", "obj", "diff"][rng.gen_range(0..3)].into(),
        });
    }
    v
}

/// `decode-record <out.ndjson> --tier T`
pub fn record_main(args: &[String]) -> i32 {
    silence_panics();
    let tier = args.iter().position(|a| a == "--tier").map(|i| args[i + 1].clone()).unwrap_or("quick".into());
    let seed: u64 = std::env::var("VERIF_SEED").ok().and_then(|s| s.parse().ok()).unwrap_or(0);
    let mut rng = StdRng::seed_from_u64(seed ^ 0xdec0de);
    let (n_mut, n_rand, n_noise) = if tier == "thorough" { (400, 3000, 300) } else { (25, 250, 40) };
    let mut lines_out = Vec::new();
    let mut push = |src: String, bytes: &[u8], paired: bool| {
        let r = guarded(|| Beatmap::from_bytes(bytes));
        let ev = match r {
            Err(p) => json!({"src": src, "ok": false, "panic": true, "msg": p}),
            Ok(Err(e)) => json!({"src": src, "ok": false, "panic": false, "msg": e.to_string()}),
            Ok(Ok(m)) => {
                // string entry point must agree when the content is valid UTF-8
                let same = match std::str::from_utf8(bytes) {
                    Ok(s) => matches!(guarded(|| Beatmap::from_str(s)), Ok(Ok(ref m2)) if *m2 == m),
                    Err(_) => true,
                };
                json!({"src": src, "ok": true, "panic": false, "same": same, "map": project_any(&m, paired)})
            }
        };
        lines_out.push(ev.to_string());
    };
    for id in ["2785319", "1028484", "2118524", "1638954"] {
        let path = format!("/repo/resources/{id}.osu");
        let Ok(bytes) = std::fs::read(&path) else {
            eprintln!("cannot read {path}");
            return 2;
        };
        let text = String::from_utf8_lossy(&bytes).to_string();
        // keep the traces small: header + a window of each section
        let short: String = {
            let ls: Vec<&str> = text.lines().collect();
            let ho = ls.iter().position(|l| l.trim() == "[HitObjects]").unwrap_or(ls.len());
            let tp = ls.iter().position(|l| l.trim() == "[TimingPoints]").unwrap_or(0);
            let mut keep: Vec<&str> = ls[..tp.min(ls.len())].to_vec();
            keep.extend(ls[tp..ho].iter().take(40));
            keep.push("");
            keep.extend(ls[ho..].iter().take(if tier == "thorough" { 400 } else { 120 }));
            keep.join("\n")
        };
        push(format!("fixture {id}"), short.as_bytes(), false);
        for k in 0..n_mut {
            let b = mutate(&mut rng, &short);
            push(format!("fixture {id} mutation {k}"), &b, false);
        }
    }
    // shuffled object lines, 6..12 objects, every mode (the final sorts - stable tandem sort, then the legacy sort for mania -
    // see every permutation class): ids in x and in the hit sound
    for k in 0..(if tier == "thorough" { 1500 } else { 240 }) {
        let mode = k % 4;
        let n = 6 + (k / 4) % 7;
        let mut order: Vec<usize> = (0..n).collect();
        for a in (1..n).rev() {
            let b = rng.gen_range(0..=a);
            order.swap(a, b);
        }
        let mut t = String::from("osu file format v14\n\n[General]\nMode: ");
        t += &format!("{mode}\n\n[Difficulty]\nCircleSize:4\n\n[TimingPoints]\n0,500,4,2,0,100,1,0\n\n[HitObjects]\n");
        for &o in &order {
            // a few equal times among them
            let time = 100 * (o as i64 - (o % 3 == 2) as i64);
            t += &format!("{},192,{time},1,{}\n", o + 1, o + 1);
        }
        push(format!("shuffled object lines {k} mode {mode} n={n}"), t.as_bytes(), true);
    }
    for k in 0..n_rand {
        let n = rng.gen_range(0..14);
        let ls = random_lines(&mut rng, n);
        let variant = [0u32, 1, 2, 4, 8, 16, 32, 1 | 4 | 16][rng.gen_range(0..8)];
        let b = render(&ls, variant, rng.gen_range(0..1000));
        push(format!("random lines {k} variant {variant}"), &b, true);
    }
    for k in 0..n_noise {
        let n = rng.gen_range(0..600);
        let mut b: Vec<u8> = (0..n).map(|_| rng.gen()).collect();
        if k % 3 == 0 {
            let mut h = b"osu file format v14\n[HitObjects]\n".to_vec();
            h.append(&mut b);
            b = h;
        }
        push(format!("noise {k}"), &b, false);
    }
    let n = lines_out.len();
    std::fs::write(&args[0], lines_out.join("\n") + "\n").unwrap();
    println!("decode-record: events={n}");
    0
}
