#!/bin/bash
# Run a command against private COPIES of /repo and /verif mounted over the real paths (mount namespace), so that seeded
# changes can be applied and tested while a long check (e.g. a thorough sweep) keeps using the real, unmodified /repo.
#   lib/nsrun.sh python3 lib/seedtest.py <patch-or-dir> Cxx
# The copies live under /tmp (clone of the committed state + the harness build directories) and are refreshed on every call.
# NS=<n> selects another pair of copies (/tmp/repo<n>, /tmp/verif<n>) so that two such runs can go on at the same time.
set -e
NS=${NS:-2}
[ -d /tmp/repo$NS/.git ] || git clone -q /repo /tmp/repo$NS
git -C /tmp/repo$NS checkout -q -- . && git -C /tmp/repo$NS pull -q
if [ ! -d /tmp/verif$NS/.git ]; then
  git clone -q /verif /tmp/verif$NS
  for d in /verif/harness/target /verif/harness/target-raw_strains /verif/harness/target-raw_strains-sync /verif/harness/target-sync; do
    [ -d "$d" ] && cp -a "$d" /tmp/verif$NS/harness/
  done
fi
git -C /tmp/verif$NS checkout -q -- . && git -C /tmp/verif$NS pull -q
mkdir -p /tmp/verif$NS/out /tmp/verif$NS/evidence
exec unshare -m bash -c 'mount --bind /tmp/repo'$NS' /repo && mount --bind /tmp/verif'$NS' /verif && cd /verif && "$@"' ns "$@"
