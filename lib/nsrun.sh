#!/bin/bash
# Run a command against private COPIES of /repo and /verif mounted over the real paths (mount namespace), so that seeded
# changes can be applied and tested while a long check (e.g. a thorough sweep) keeps using the real, unmodified /repo.
#   lib/nsrun.sh python3 lib/seedtest.py <patch-or-dir> Cxx
# The copies live under /tmp (clone of the committed state + the harness build directories) and are refreshed on every call.
set -e
[ -d /tmp/repo2/.git ] || git clone -q /repo /tmp/repo2
git -C /tmp/repo2 checkout -q -- . && git -C /tmp/repo2 pull -q
if [ ! -d /tmp/verif2/.git ]; then
  git clone -q /verif /tmp/verif2
  for d in /verif/harness/target /verif/harness/target-raw_strains /verif/harness/target-raw_strains-sync /verif/harness/target-sync; do
    [ -d "$d" ] && cp -a "$d" /tmp/verif2/harness/
  done
fi
git -C /tmp/verif2 checkout -q -- . && git -C /tmp/verif2 pull -q
mkdir -p /tmp/verif2/out /tmp/verif2/evidence
exec unshare -m bash -c 'mount --bind /tmp/repo2 /repo && mount --bind /tmp/verif2 /verif && cd /verif && "$@"' ns "$@"
