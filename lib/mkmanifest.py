#!/usr/bin/env python3
"""Regenerate /verif/MANIFEST.json from the table below (python3 lib/mkmanifest.py)."""
import json
import os
import subprocess

VERIF = os.path.dirname(os.path.dirname(os.path.abspath(__file__)))

BASELINE = json.load(open("/root/.vp/BASELINE.json"))["cmd"] if os.path.exists("/root/.vp/BASELINE.json") else \
    "cd /repo && cargo test --workspace --no-fail-fast --offline"

TRUSTED = ("Trusted base: TLC/SANY, the transcription of the anchored code into the TLA+ module (bound to the code by replaying "
           "every transition of the model's state graph and by trace validation), the concretiser profiles "
           "(validated by the count-algebra comparison of C14), serde_json, and for differential oracles the other "
           "code path of rosu-pp itself.")

# id -> (engine modules, level, text, design_ref, technique)
CHECKS = {
    "C02": ("spec/Gradual.tla + MC_Gradual.tla + TraceGradual.tla; harness gradual-replay / gradual-record", "model_checking",
            "TLC enumerates every map up to a small number of objects per mode and every call sequence over next/nth; the "
            "invariants (value at position i = one-shot of prefix i, announced length = number of values, final = full) hold in "
            "every state of the model, and every transition of that state graph is replayed on the real calculators, where the "
            "i-th value is compared bit for bit with the real passed_objects(i) calculation under several numeric and settings "
            "profiles; recorded traces on the fixture maps and seeded random maps are validated against the same specification.",
            "DESIGN.md 3/C02", "TLA+ model checking (TLC) + spec-to-impl transition replay + trace validation"),
    "C03": ("spec/Gradual.tla (PerfNth, PerfTuple) + MC_Gradual.tla; harness gradual-replay (api=perf)", "model_checking",
            "Same state graph driven through the gradual performance wrapper (next/nth/last with consistent and inconsistent "
            "score states); the tuple handed to the builder (attributes, passed_objects = idx) equals the declarative one in the "
            "model, and the real result equals the real one-shot Performance with passed_objects(i) and that state bit for bit.",
            "DESIGN.md 3/C03", "TLA+ model checking (TLC) + spec-to-impl transition replay + trace validation"),
    "C14": ("spec/Gradual.tla (count algebra, OneShot) + MC_Gradual.tla; harness gradual-replay", "model_checking",
            "The count algebra (what each object contributes, min(n,total), monotone, n>total = unlimited) is an invariant of the "
            "model for every enumerated map and every n; the real attribute counts are compared with the model's prediction after "
            "every replayed call, and passed_objects(total+1) with the unrestricted calculation.",
            "DESIGN.md 3/C14", "TLA+ model checking (TLC) + spec-to-impl replay of model-predicted counts + trace validation of recorded catch conversions"),
    "C15": ("spec/Gradual.tla + MC_Gradual.tla; harness gradual-replay", "model_checking",
            "The iterator protocol (nth(n) = n+1 next calls, len = values to come, None exactly past the end, fused; wrapper: "
            "min(n+1, remaining), last = all) is an invariant over all call sequences of the model; Some/None and len() of the real "
            "calculators are compared with the model after every transition, including usize-underflow detection.",
            "DESIGN.md 3/C15", "TLA+ model checking (TLC) + spec-to-impl transition replay + std-adaptor traces"),
    "C12": ("spec/ScoreGen.tla + MC_ScoreGen.tla + TraceScoreGen.tla; harness scoregen-replay", "model_checking",
            "TLC enumerates every small attribute shape x provided subset x value x priority x origin x passed_objects case; on the "
            "transcription of the integer branches it checks every requirement (misses, keep, sum, combo, no underflow) and that "
            "generating twice is idempotent (2-step machine with write-back); the real generate_state must equal the transcription "
            "exactly on those branches, and for accuracy branches TLC evaluates the same requirement predicates on the REAL result "
            "(trace validation); calculate() is compared with calculate() on the explicitly supplied generated state for every case.",
            "DESIGN.md 3/C12", "TLA+ model checking (TLC) of the transcribed algorithm + exact replay + trace validation of real results"),
    "C13": ("spec/ScoreGen.tla (AccNum/AccDen/Dists/Optimal) + TraceScoreGen.tla; harness scoregen-replay", "model_checking",
            "For every enumerated shape, miss count, accuracy target k/T, priority and origin, TLC enumerates ALL distributions of the "
            "hit results over the same objects in exact integer arithmetic and checks that the state the real code generated is at "
            "least as close to the target as any of them (ties accepted) and has the given number of misses.",
            "DESIGN.md 3/C13", "TLC evaluates exact-rational optimality over all distributions on results recorded from the real code"),
    "C06": ("spec/Decoder.tla + MC_Decoder.tla + TraceDecoder.tla; harness decode-replay / decode-record", "model_checking",
            "The line-level decoder machine (sections, pending control-point buffer with flush / push_front / push_back, redundancy "
            "checks, binary-search insert/replace, object list with ids, stable tandem sort, clamps) is model checked for ALL line "
            "sequences up to a bound per aspect: every prefix of every file yields a well-formed map and bad lines are no-ops; every "
            "enumerated file is rendered (CRLF / BOM / comments / UTF-16 variants), decoded through bytes, str and path, and the real "
            "map is compared field by field with the model's; maps decoded from fixtures, mutated fixtures and noise are validated by "
            "TLC against the same well-formedness predicate.",
            "DESIGN.md 3/C06", "TLA+ model checking (TLC) + spec-to-impl replay of every enumerated file + trace validation"),
    "C07": ("spec/Dispatch.tla + MC_Dispatch.tla; harness dispatch-replay", "model_checking",
            "The three conversion entry points are three operators whose agreement, own-mode identity, 'only unconverted osu maps "
            "convert and get flagged' and the try_mode decision table are invariants over ALL conversion histories up to a bound from "
            "all four native modes; every history is replayed on real maps (outcome kinds incl. error payloads, equal maps, untouched "
            "originals), and every dispatch api (calculate_for_mode, strains_for_mode, gradual constructors with a mode, try_mode / "
            "mode_or_ignore from borrowed / owned maps and attributes) is compared bitwise with the explicitly converted map.",
            "DESIGN.md 3/C07", "TLA+ model checking (TLC) + spec-to-impl replay of every conversion history"),
    "C19": ("spec/Convert.tla + MC_Convert.tla + TraceConvert.tla; harness convert-replay / convert-record", "model_checking",
            "The mania key-count rule is a decision table checked exhaustively (range 4..7 or the key mod) and replayed row by row on "
            "concretised maps; conversions of generated id-carrying maps (all object mixes, slider lengths/repeats, sounds, timing "
            "setups, versions 5-14, key mods 1K-10K) and fixture windows are recorded and TLC validates each against the well-formedness "
            "predicates (order, durations, taiko originals keep order and their own sound, catch untouched, mania columns, control points).",
            "DESIGN.md 3/C19", "TLC decision-table check + replay, and trace validation of recorded conversions"),
    "C04": ("spec/Builders.tla (MapOrAttrs machine) + MC_Builders.tla aspect entry; harness builders-replay", "model_checking",
            "The performance builder is modelled as holding a map or attributes with a ghost recording which settings the attributes "
            "were made with; TLC enumerates every entry point x history of setter calls and generate_state() and emits what calculate() "
            "must evaluate; every history is replayed through all 8 real entry points in all four modes and compared bitwise with the "
            "reference built from one-shot attributes, and the embedded difficulty attributes with the one-shot difficulty calculation.",
            "DESIGN.md 3/C04", "TLA+ model checking (TLC) + spec-to-impl replay of every entry-point history"),
    "C18": ("spec/Builders.tla (setters, clamps, forwarding table) + MC_Builders.tla aspect setters; harness builders-replay", "model_checking",
            "Clamps, last-write-wins, commutation of independent setters and the inspect round trip are invariants over all setter "
            "sequences; every sequence is replayed on Difficulty (inspect() compared with the model) and on the Performance builder of "
            "every mode (builder equality with the forwarding table, result equality with handing over the Difficulty, so ignored "
            "setters leave the result untouched).",
            "DESIGN.md 3/C18", "TLA+ model checking (TLC) + spec-to-impl replay of every setter sequence"),
    "C08": ("spec/ModsRep.tla + MC_ModsRep.tla; harness mods-replay; hook GameMods::verif_flags", "model_checking",
            "Every crate-internal mod accessor is transcribed per representation (legacy / intermode / lazer with default settings); TLC "
            "checks for all 2^12 selections x key mods x modes x lazer flag that the representations agree on everything a calculator "
            "of that mode reads; the real accessor vectors of u32, GameModsLegacy, owned and borrowed GameModsIntermode and lazer GameMods "
            "are compared with the model through a guarded hook, difficulty / strains / performance are compared bitwise across the "
            "representations, and lazer rate mods / DifficultyAdjust against clock_rate / overrides on a grid.",
            "DESIGN.md 3/C08", "TLA+ model checking (TLC) of the accessor tables + hook-based replay + end-to-end differential"),
    "C17": ("spec/AttrBuilder.tla + MC_AttrBuilder.tla; harness attrs-replay", "model_checking",
            "hit_windows() and build() are transcribed in exact rational arithmetic (the function is case analysis over piecewise-linear "
            "maps); TLC checks round trip, monotonicity, 1/rate scaling and HR >= none >= EZ on a grid of values, mods, clock rates, "
            "modes and convert flags; the real outputs are compared with the model's rationals at every grid point, hit_windows() with "
            "build(), and the AR / OD / HP / hit windows embedded in osu, taiko and catch difficulty attributes with the builder's output.",
            "DESIGN.md 3/C17", "TLA+ model checking (TLC) in exact rationals + replay of every grid point"),
    "C10": ("spec/StrainsVec.tla + MC_StrainsVec.tla; harness strainsvec-replay (default and raw_strains builds), dump-results (4 feature builds)", "model_checking",
            "Both strain-list implementations are modelled side by side; TLC checks for all push sequences over non-negative peaks and "
            "every lifecycle ending (difficulty_value, osu difficulty_value with scaling, sum, into_vec, iter) that they give numerically "
            "equal results; the same sequences are replayed on the real type in the default and the raw_strains build (entries and results "
            "vs the respective model column); a seeded scenario list (maps with long breaks, converts, fixtures, gradual) is evaluated by "
            "four harness binaries (default, raw_strains, sync, both) whose dumps must be identical.",
            "DESIGN.md 3/C10", "TLA+ refinement check (TLC) + replay in two feature builds + 4-build end-to-end differential"),
    "C11": ("spec/StrainsVec.tla (I1-I3) + spec/Lifecycle.tla + MC_*.tla; harness strainsvec-replay, lifecycle-replay, pathbuf-replay, Miri in thorough", "model_checking",
            "TLA+ cannot see memory; each unsafe block's precondition is stated as a state invariant (value entries sign-positive so the "
            "sign bit discriminates the union, no zero-run entry at transmute, zero counts >= 1, the referent of a self-referential "
            "calculator never moves) and checked by TLC for all op sequences over positive/zero/negative/subnormal/NaN pushes and all "
            "lifecycle histories (Box, Vec growth, swap, thread hand-over, drop midway, two interleaved instances); every sequence and "
            "history is replayed on the real types (entries through a guarded hook, outputs vs an undisturbed run), slider paths failing "
            "at every segment are followed by good sliders, and the thorough tier runs the same replays under Miri as a UB observer.",
            "DESIGN.md 3/C11", "TLA+ model checking (TLC) of unsafe preconditions + replay with hooks + Miri observer"),
    "C16": ("spec/StrainSkill.tla + MC_StrainSkill.tla; harness strains-replay", "model_checking",
            "The section machine (first section end, saved peaks, open section pushed once on both export paths) is modelled on integer "
            "times; TLC checks it against the closed form for all small time sequences and clock rates and emits the predicted section "
            "count per mode; the real strain vectors of all four modes must have exactly that length, equal across the skills of a mode, "
            "finite and non-negative, and re-aggregating the returned peaks must reproduce the catch / mania stars and the osu flashlight rating.",
            "DESIGN.md 3/C16", "TLA+ model checking (TLC) of the section machine + replay + numeric re-aggregation from returned peaks"),
    "C01": ("spec/Session.tla + MC_Session.tla + TraceSession.tla + Bpm.tla + MC_Bpm.tla; harness session-record, bpm-replay", "model_checking",
            "The library is specified as pure functions of a call key; TLC enumerates every call history up to a bound (repetitions, "
            "interleavings with another map, two gradual handles, fresh vs reused values); each history is executed in several separate "
            "processes and the recorded (key, digest, map digest) events of all of them are validated by TLC against ONE memo table and "
            "one digest per map; Beatmap::bpm's aggregator is modelled precisely (ties go to the first beat length) and every enumerated "
            "timing setup, a seventh of them ties, is replayed repeatedly.",
            "DESIGN.md 3/C01", "TLA+ model checking (TLC) of call histories + multi-process trace validation against a memo-table specification"),
    "C20": ("spec/MC_Threads.tla (on Session.tla) + TraceSession.tla; harness threads-record (default and sync builds)", "model_checking",
            "TLC enumerates every assignment of a job list to threads, every Begin/End interleaving and every hand-over point of a shared "
            "gradual calculator, with the invariant that each call keeps the key it has in the sequential run; each schedule is replayed "
            "on real threads by a coordinator (overlapping calls are started before either is awaited, calculators travel between threads "
            "in the sync build), plus an uncoordinated 16-thread stress run; all events must be explained by the memo table of the "
            "sequential run.",
            "DESIGN.md 3/C20", "TLA+ model checking (TLC) of schedules + replay on real threads + trace validation"),
    "C05": ("spec/Corners.tla + MC_Corners.tla; harness corner-replay under a stall watchdog (release and dev profiles)", "exploration",
            "Weak fit for the technique, claimed as exploration: the specification contributes the enumeration of the input corners "
            "(TLC enumerates every small map over the numeric-corner alphabet: times near 2^24/2^30/2^31, coordinates at the parser limit, "
            "sliders at the bounded-work limit, spinners up to 10 minutes, timing at the clamps; and the editor-realistic alphabet) and "
            "the acceptance rule (the specification has no Panic and no Timeout action); every public calculation is executed on every "
            "enumerated map inside catch_unwind, in child processes with a progress watchdog and an address-space limit, in release for the "
            "adversarial domain and in release plus overflow-checked dev profile for the realistic one.",
            "DESIGN.md 3/C05", "TLC-enumerated corner inputs + watchdog replay (exploration)"),
    "C09": ("spec/Corners.tla (degenerate and realistic domains) + MC_Corners.tla; harness corner-replay --c09; ScoreGen.tla for accuracies", "exploration",
            "Weak fit, claimed as exploration: TLC enumerates degenerate shapes (empty, single objects, all spinners, stacked, zero and huge "
            "gaps) and realistic corner maps; every f64 of difficulty attributes, strains and performance attributes is projected to "
            "{Zero, Pos, Neg, NaN, Inf} under mods x clock rates in [0.5, 2] x AR/CS/OD/HP in {0, 11} x score states, and anything but "
            "Zero/Pos is reported; a state that evaluates to zero hits must be worth zero pp. Accuracies in [0,1] are decided exactly in "
            "ScoreGen.tla (C12/C13).",
            "DESIGN.md 3/C09", "TLC-enumerated degenerate inputs + class projection of every float (exploration)"),
}

NOT_YET = {
}


def main():
    commits = subprocess.run(["git", "-C", "/repo", "log", "--format=%h %s"], capture_output=True, text=True).stdout.splitlines()
    hook_commits = [c.split()[0] for c in commits if c.split(" ", 1)[1].startswith("verif hook")]
    props = [json.loads(l)["id"] for l in open(os.path.join(VERIF, "properties.jsonl"))]
    checks = []
    for pid in props:
        if pid not in CHECKS:
            continue
        eng, level, text, ref, tech = CHECKS[pid]
        checks.append({
            "property_id": pid,
            "quick_cmd": "./check %s --tier quick" % pid,
            "thorough_cmd": "./check %s --tier thorough" % pid,
            "evidence_file": "/verif/evidence/%s.json" % pid,
            "replay_cmd_template": "./check replay {path}",
            "engine": eng,
            "level_claimed": {"category": level, "text": text, "design_ref": ref},
            "level_note": TRUSTED,
            "technique": tech,
        })
    na = [{"property_id": p, "reason": NOT_YET.get(p, "check not built yet in this tree (work in progress, see DESIGN.md section 9); the TLA+ technique applies")}
          for p in props if p not in CHECKS]
    man = {
        "version": 1,
        "setup_cmd": "./check setup",
        "hooks": {
            "guard": "rosu_pp_verif",
            "enable": "RUSTFLAGS --cfg rosu_pp_verif via /verif/harness/.cargo/config.toml (the harness crate has a path dependency on /repo)",
            "baseline_off_cmd": BASELINE,
            "source_commits": hook_commits,
            "add_only": True,
        },
        "engines": [
            {"name": "TLC", "path": "/opt/veriftools/tla/tla2tools.jar", "serves_properties": sorted(CHECKS),
             "kind_free_text": "explicit-state model checker for the TLA+ modules under /verif/spec"},
            {"name": "verif-harness", "path": "/verif/harness", "serves_properties": sorted(CHECKS),
             "kind_free_text": "Rust conformance harness: replays TLC-generated behaviours on rosu-pp and records traces for validation"},
        ],
        "checks": checks,
        "not_applicable": na,
        "notes": "Driver: ./check <id> --tier quick|thorough; exit 0 held / 1 VIOLATION / 2 tool error. Known findings: known_findings.json.",
    }
    with open(os.path.join(VERIF, "MANIFEST.json"), "w") as f:
        json.dump(man, f, indent=1)
    print("wrote MANIFEST.json with %d checks, %d not_applicable" % (len(checks), len(na)))


if __name__ == "__main__":
    main()
