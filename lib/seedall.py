#!/usr/bin/env python3
"""Regression over every stored seeded change: python3 lib/seedall.py [--only Cxx] [--shard k/n]
Each seed is tested against the property in its meta.json (quick tier); prints MISSED lines for seeds no check catches."""
import json, os, subprocess, sys
only = sys.argv[sys.argv.index("--only") + 1] if "--only" in sys.argv else None
shard = tuple(int(x) for x in sys.argv[sys.argv.index("--shard") + 1].split("/")) if "--shard" in sys.argv else (0, 1)
root = "/verif/seeded"
missed = []
for idx, name in enumerate(sorted(os.listdir(root))):
    if idx % shard[1] != shard[0]:
        continue
    d = os.path.join(root, name)
    meta = json.load(open(os.path.join(d, "meta.json")))
    prop = meta["property"]
    if only and prop != only:
        continue
    props = [prop] + [p for p in meta.get("also_check", [])]
    r = subprocess.run([sys.executable, "/verif/lib/seedtest.py", d] + props, capture_output=True, text=True, cwd="/verif")
    out = r.stdout.strip().splitlines()
    caught = any("exit=1" in l for l in out)
    print(("caught " if caught else "MISSED ") + name + " :: " + " ; ".join(l[:160] for l in out), flush=True)
    if not caught:
        missed.append(name)
print("seeds missed: %d %s" % (len(missed), missed))
sys.exit(1 if missed else 0)
