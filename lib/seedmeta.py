#!/usr/bin/env python3
"""python3 lib/seedmeta.py <seed-dir> <property> "<needs>" "<caught-by>" """
import json, sys, os
d, prop, needs, caught = sys.argv[1:5]
meta = {"property": prop, "needs_to_manifest": needs,
        "confirmed": "applied patch.diff to a scratch worktree of /repo: crate compiles, existing suite unchanged (basic_osu fails before and after), demo.rs fails with the patch and passes without it (run by the authoring sub-agent, outcome re-checked by running the /verif check against the patched /repo)",
        "ran": "python3 lib/seedtest.py %s %s" % (d, prop), "caught_by": caught}
json.dump(meta, open(os.path.join(d, "meta.json"), "w"), indent=1)
