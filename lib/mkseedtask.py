#!/usr/bin/env python3
"""Write the task file for a mutation sub-agent: python3 lib/mkseedtask.py C02 /tmp/wt_c02 [n_changes]"""
import json, sys
pid, wt = sys.argv[1], sys.argv[2]
n = sys.argv[3] if len(sys.argv) > 3 else "2"
extra = sys.argv[4] if len(sys.argv) > 4 else ""
props = {json.loads(l)["id"]: json.loads(l) for l in open("/verif/properties.jsonl")}
p = props[pid]
text = f"""# Task: seed a defect into rosu-pp that breaks one semantic property

You work ONLY inside the scratch git worktree `{wt}` (a checkout of the Rust crate rosu-pp:
osu! difficulty / performance calculation). Never touch or read `/repo` or `/verif`. The sandbox
has no network; build with `CARGO_TARGET_DIR={wt}/target cargo ... --offline`.

## The property

**{p['title']}**

{p['statement']}

Quantifier: {p['quantifier']['text']}

Code the property is anchored in: {', '.join(p['anchors']['files'])}

## What to produce

{n} different, independent source changes (each a realistic bug a developer could introduce:
an off-by-one, a forgotten update in a fast path, a wrong clamp, a swapped operand, a missing
case ...) such that, for each change taken alone:

1. the crate still compiles without errors;
2. the existing test suite still passes: `cargo test --offline --no-fail-fast` (on the unmodified
   tree the test `basic_osu` in tests/difficulty.rs already fails and `rng_mania_hitresults`
   is flaky - ignore those two; everything else that passes before must pass after);
3. the property above is violated for SOME input / call sequence / setting;
4. the violation needs something specific to manifest - an unusual input (e.g. a map with a
   particular object mix or tiny size), a multi-step sequence of calls, a particular setting or
   mod, or two cooperating code sites that each look fine alone. It must NOT be something that
   ordinary use (calculate on a normal map with default settings) exposes at once.

Prefer changes in different files / mechanisms from each other.
{extra}

## Deliverables (all under `{wt}/_seed/`)

For change k in 1..{n}:
- `patch{{k}}.diff` : `git diff` of the source change only (no tests, no _seed files), applicable with
  `git apply` to the unmodified tree;
- `demo{{k}}.rs`    : a Rust integration test file (to be dropped into `tests/`) using only the public API
  of rosu-pp that PASSES on the unmodified tree and FAILS with the change applied;
- `notes{{k}}.md`   : which part of the property it breaks, what exactly is needed to make it manifest,
  and the commands you ran.

Verify everything yourself: run the suite with each change, run each demo with and without its change.
Leave the worktree's tracked source files UNMODIFIED at the end (`git checkout -- .`), with only the
`_seed/` directory added. Finish with a short summary of each change (file, mechanism, trigger).
"""
open(f"{wt}/_TASK.md", "w").write(text)
print("wrote", f"{wt}/_TASK.md")
