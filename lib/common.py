"""Shared machinery of the /verif checks: building the harness from /repo's working
tree, running TLC, extracting scenario lines, trace validation, known findings,
evidence and replay files.  Exit codes: 0 held, 1 VIOLATION, 2 tool error."""
import hashlib
import json
import os
import re
import subprocess
import sys
import time

VERIF = os.path.dirname(os.path.dirname(os.path.abspath(__file__)))
SPEC = os.path.join(VERIF, "spec")
HARNESS = os.path.join(VERIF, "harness")
OUT = os.path.join(VERIF, "out")
EVID = os.path.join(VERIF, "evidence")
REPLAYS = os.path.join(OUT, "replays")
REPO = "/repo"

os.makedirs(OUT, exist_ok=True)
os.makedirs(EVID, exist_ok=True)
os.makedirs(REPLAYS, exist_ok=True)


class ToolError(Exception):
    pass


def log(*a):
    print(*a, flush=True)


def seed():
    try:
        return int(os.environ.get("VERIF_SEED", "0"))
    except ValueError:
        return 0


def sh(cmd, timeout=None, env=None, cwd=None, check=True, capture=True):
    e = dict(os.environ)
    e["CARGO_NET_OFFLINE"] = "true"
    if env:
        e.update(env)
    try:
        p = subprocess.run(cmd, shell=isinstance(cmd, str), cwd=cwd, env=e, timeout=timeout,
                           stdout=subprocess.PIPE if capture else None,
                           stderr=subprocess.STDOUT if capture else None, text=True)
    except subprocess.TimeoutExpired:
        raise ToolError("timeout after %ss: %s" % (timeout, cmd))
    if check and p.returncode != 0:
        raise ToolError("command failed (%d): %s\n%s" % (p.returncode, cmd, (p.stdout or "")[-4000:]))
    return p


# --------------------------------------------------------------------------- harness

_built = {}


DEGRADED = []


def build_harness(features="", profile="release"):
    """(Re)build the harness against /repo's current working tree with the hooks on.
    cargo decides what is stale; always invoked."""
    key = (features, profile)
    if key in _built:
        return _built[key]
    tdir = "target" if not features else "target-" + features.replace(",", "-")
    cmd = ["cargo", "build", "--offline", "--target-dir", tdir]
    if profile == "release":
        cmd.append("--release")
    if features:
        cmd += ["--features", features]
    t0 = time.time()
    p = sh(cmd, cwd=HARNESS, timeout=1800, check=False)
    if p.returncode != 0:
        # the replay modules that drive crate-internal helpers directly (StrainsVec, TandemSorter, LimitedQueue, legacy sort)
        # are written against their current signatures; when one of them changed in /repo, build without those modules
        # (cfg verif_degraded) so that every other part of the checks still runs - and say so
        first = p.stdout
        tdir = tdir + "-degraded"
        cmd[cmd.index("--target-dir") + 1] = tdir
        env = {"RUSTFLAGS": "--cfg rosu_pp_verif --cfg verif_degraded --check-cfg cfg(rosu_pp_verif) --check-cfg cfg(verif_degraded)"}
        p = sh(cmd, cwd=HARNESS, timeout=1800, check=False, env=env)
        if p.returncode != 0:
            raise ToolError("harness build failed:\n" + first[-6000:])
        DEGRADED.append((features, profile))
        log("harness [%s/%s] built in DEGRADED mode: a crate-internal API the direct replays use has changed in /repo:\n%s" % (
            features or "default", profile, "\n".join(l for l in first.splitlines() if l.startswith("error"))[:1500]))
    path = os.path.join(HARNESS, tdir, "release" if profile == "release" else "debug", "verif-harness")
    log("built harness [%s/%s] in %.1fs" % (features or "default", profile, time.time() - t0))
    _built[key] = path
    return path


def run_harness(binpath, args, timeout=3600, env=None, check=True):
    p = sh([binpath] + args, timeout=timeout, env=env, check=False)
    if check and p.returncode not in (0,):
        raise ToolError("harness %s failed (%d):\n%s" % (args[0], p.returncode, p.stdout[-4000:]))
    return p


class HarnessHang(Exception):
    pass


def run_harness_bounded(binpath, args, ref_seconds, env=None):
    """Like run_harness, for a run whose twin (same scenarios, another feature build) took `ref_seconds`: a run that needs more
    than max(240 s, 40 x ref) is a hang / deadlock of the code under test (HarnessHang), not a tool error."""
    limit = max(240.0, 40.0 * ref_seconds)
    e = dict(os.environ)
    e["CARGO_NET_OFFLINE"] = "true"
    if env:
        e.update(env)
    try:
        p = subprocess.run([binpath] + args, env=e, timeout=limit, stdout=subprocess.PIPE, stderr=subprocess.STDOUT, text=True)
    except subprocess.TimeoutExpired:
        raise HarnessHang("no result within %d s (the default build needed %.1f s)" % (limit, ref_seconds))
    if p.returncode != 0:
        raise ToolError("harness %s failed (%d):\n%s" % (args[0], p.returncode, p.stdout[-4000:]))
    return p


# --------------------------------------------------------------------------- TLC

STATS_RE = re.compile(r"(\d+) states generated, (\d+) distinct states found")


def run_tlc(module, cfg, workers=4, timeout=1800, name=None, env=None, extra=None, deque=False, xmx="8g"):
    """Run TLC; returns dict(log, generated, distinct, ok, violated, output_path)."""
    name = name or (module + "_" + os.path.basename(cfg).replace(".cfg", ""))
    name = name + "_%d" % os.getpid()
    logp = os.path.join(OUT, name + ".tlc.log")
    meta = os.path.join(OUT, "tlc_meta_" + name)
    e = dict(os.environ)
    jopts = "-Xss1g"
    if deque:
        jopts += " -Dtlc2.tool.queue.IStateQueue=StateDeque"
    e["JAVA_TOOL_OPTIONS"] = jopts
    if env:
        e.update(env)
    cmd = ["timeout", str(timeout), "java", "-Xmx" + xmx, "-XX:+UseParallelGC", "-cp",
           "/opt/veriftools/tla/tla2tools.jar:/opt/veriftools/tla/CommunityModules-deps.jar",
           "tlc2.TLC", "-workers", str(workers), "-metadir", meta, "-cleanup", "-noGenerateSpecTE",
           "-config", cfg] + (extra or []) + [module + ".tla"]
    t0 = time.time()
    with open(logp, "w") as f:
        p = subprocess.run(cmd, cwd=SPEC, env=e, stdout=f, stderr=subprocess.STDOUT)
    wall = time.time() - t0
    subprocess.run(["rm", "-rf", meta])
    txt = open(logp, errors="replace").read()
    res = {"log": logp, "wall": wall, "rc": p.returncode, "generated": 0, "distinct": 0}
    m = None
    for m in STATS_RE.finditer(txt):
        pass
    if m:
        res["generated"] = int(m.group(1))
        res["distinct"] = int(m.group(2))
    res["violated"] = re.findall(r"Invariant (\S+) is violated", txt)
    res["ok"] = ("Model checking completed. No error has been found." in txt) and p.returncode == 0
    if p.returncode == 124:
        raise ToolError("TLC timeout (%ss) on %s" % (timeout, module))
    if not res["ok"] and not res["violated"] and "is violated" not in txt and "Postcondition" not in txt \
            and "Assumption" not in txt:
        raise ToolError("TLC failed on %s/%s (rc=%d):\n%s" % (module, cfg, p.returncode, tail_nonreplay(txt)))
    res["text"] = txt
    return res


def run_apalache(module, inv, length=0, timeout=1800, name=None):
    """Apalache bounded / symbolic check of `inv` (Init / Next of the module). Returns dict(ok, violated, wall, text)."""
    name = (name or module) + "_%d" % os.getpid()
    outd = os.path.join(OUT, "apalache_" + name)
    cmd = ["timeout", str(timeout), "apalache-mc", "check", "--init=Init", "--next=Next", "--inv=" + inv, "--length=%d" % length,
           "--out-dir=" + outd, module + ".tla"]
    t0 = time.time()
    p = subprocess.run(cmd, cwd=SPEC, capture_output=True, text=True)
    wall = time.time() - t0
    subprocess.run(["rm", "-rf", outd])
    txt = p.stdout + p.stderr
    if p.returncode == 124:
        raise ToolError("Apalache timeout (%ss) on %s" % (timeout, module))
    ok = "The outcome is: NoError" in txt and p.returncode == 0
    violated = "The outcome is: Error" in txt and "violated" in txt
    if not ok and not violated:
        raise ToolError("Apalache failed on %s (rc=%d):\n%s" % (module, p.returncode, txt[-3000:]))
    return {"ok": ok, "violated": violated, "wall": wall, "text": txt}


def tail_nonreplay(txt, n=40):
    lines = [l for l in txt.splitlines() if not l.startswith('<<"REPLAY"')]
    return "\n".join(lines[-n:])


def tlc_classpath_ok():
    return os.path.exists("/opt/veriftools/tla/tla2tools.jar")


def extract_replay(tlc_log, out_path, tag="REPLAY"):
    """Scenario lines printed by the Printer invariant -> NDJSON file. Returns count."""
    n = 0
    prefix = '<<"%s", ' % tag
    with open(out_path, "w") as out:
        for l in open(tlc_log, errors="replace"):
            if l.startswith(prefix):
                s = l.rstrip("\n")
                if not s.endswith(">>"):
                    continue
                out.write(json.loads(s[len(prefix):-2]) + "\n")
                n += 1
    return n


def coverage_zero_actions(txt):
    """Names of actions with zero coverage in a -coverage run (vacuity)."""
    return re.findall(r"<(\w+) line \d+, col \d+ to line \d+, col \d+ of module \w+>: 0:0", txt)


# --------------------------------------------------------------------------- trace validation

def validate_trace(trace_module, cfg, trace_file, name=None, timeout=900, extra_env=None):
    """impl -> spec: TLC consumes the NDJSON trace; POSTCONDITION accepts iff every line matched.
    Returns (accepted, tlc_result)."""
    env = {"TRACE": trace_file}
    if extra_env:
        env.update(extra_env)
    # the time grows with the trace (about 3 000 events per second on an idle core): leave a wide margin for a loaded machine
    try:
        n_events = sum(1 for _ in open(trace_file))
    except OSError:
        n_events = 0
    timeout = max(timeout, min(4 * 3600, 3600 + n_events // 20))
    r = run_tlc(trace_module, cfg, workers=1, timeout=timeout, name=name, env=env, deque=True, xmx="4g")
    accepted = r["ok"]
    return accepted, r


def rejected_at(tlc_text):
    m = re.search(r'"TRACE-REJECTED at line",\s*(\d+),\s*"event",\s*(.*?)>>\s+FALSE', tlc_text, re.S)
    if m:
        return int(m.group(1)), re.sub(r"\s+", " ", m.group(2))[:1500]
    return None, None


def trace_check(res, trace_module, cfg, trace_file, corrupt, label):
    """Validate `trace_file` against the trace spec; then corrupt one recorded field with
    `corrupt(events) -> events'` and require TLC to reject it (canary: the spec constrains more
    than the length of the trace).  Returns (accepted, line, event_text)."""
    ok, r = validate_trace(trace_module, cfg, trace_file, name="%s_%s" % (trace_module, label))
    res.add_tlc(r)
    n_events = sum(1 for _ in open(trace_file))
    res.cov["trace_events"] = res.cov.get("trace_events", 0) + n_events
    line, evtxt = (None, None)
    if not ok:
        line, evtxt = rejected_at(r["text"])
        if line is None:
            raise ToolError("trace validation of %s failed without a rejection line:\n%s" % (trace_file, tail_nonreplay(r["text"])))
        return False, line, evtxt
    events = [json.loads(l) for l in open(trace_file)]
    bad = corrupt(events)
    if bad is not None:
        cpath = trace_file + ".canary"
        with open(cpath, "w") as f:
            for e in bad:
                f.write(json.dumps(e) + "\n")
        ok2, r2 = validate_trace(trace_module, cfg, cpath, name="%s_%s_canary" % (trace_module, label))
        os.remove(cpath)
        if ok2:
            raise ToolError("canary: corrupted trace was ACCEPTED by %s - the trace specification is too weak" % trace_module)
        res.cov["canary_rejected"] = res.cov.get("canary_rejected", 0) + 1
    return True, None, None


# --------------------------------------------------------------------------- known findings

def known_findings():
    p = os.path.join(VERIF, "known_findings.json")
    if not os.path.exists(p):
        return {"open": [], "fixed": []}
    return json.load(open(p))


def open_classes(prop=None):
    kf = known_findings()
    return [f for f in kf.get("open", []) if prop is None or prop in f.get("properties", [f.get("property")])]


# --------------------------------------------------------------------------- results

class Result:
    def __init__(self, prop, tier, level):
        self.prop = prop
        self.tier = tier
        self.level = level
        self.t0 = time.time()
        self.violations = []       # (what, replay_obj)
        self.known_hits = {}       # finding id -> (count, what)
        self.cov = {"states": 0, "transitions": 0, "traces_validated_against_impl": 0, "samples": []}
        self.assumptions = []
        self.notes = []

    def add_tlc(self, r):
        self.cov["states"] += r["distinct"]
        self.cov["transitions"] += r["generated"]

    def violation(self, what, replay_obj):
        self.violations.append((what, replay_obj))

    def known(self, fid, what, n=1):
        c, w = self.known_hits.get(fid, (0, what))
        self.known_hits[fid] = (c + n, w)

    def finish(self):
        wall = time.time() - self.t0
        for fid, (c, w) in sorted(self.known_hits.items()):
            log("KNOWN-FINDING: property=%s %s %s (%d occurrences in this run)" % (self.prop, fid, w, c))
        paths = []
        for i, (what, obj) in enumerate(self.violations[:20]):
            blob = json.dumps(obj, sort_keys=True, default=str)
            h = hashlib.sha1(blob.encode()).hexdigest()[:12]
            path = os.path.join(REPLAYS, "%s-%s.json" % (self.prop, h))
            with open(path, "w") as f:
                json.dump({"property": self.prop, "what": what, "replay": obj}, f, indent=1, default=str)
            paths.append(path)
            log("VIOLATION property=%s replay=%s" % (self.prop, path))
            log("  " + what[:600])
        if len(self.violations) > 20:
            log("  ... and %d more violations" % (len(self.violations) - 20))
        cov = dict(self.cov)
        cov["known_finding_occurrences"] = {k: v[0] for k, v in self.known_hits.items()}
        if self.notes:
            cov["notes"] = self.notes
        if not cov.get("samples"):
            cov["samples"] = ["(no samples recorded)"]
        ev = {
            "property_id": self.prop,
            "tier": self.tier,
            "seed": seed(),
            "level": self.level,
            "coverage": cov,
            "assumptions": self.assumptions,
            "wall_s": round(wall, 2),
            "violations": len(self.violations),
        }
        with open(os.path.join(EVID, self.prop + ".json"), "w") as f:
            json.dump(ev, f, indent=1, default=str)
        log("%s %s: %s in %.1fs (states=%s transitions=%s replays/traces=%s)" % (
            self.prop, self.tier, "VIOLATED" if self.violations else "held", wall,
            cov.get("states"), cov.get("transitions"), cov.get("traces_validated_against_impl")))
        return 1 if self.violations else 0
