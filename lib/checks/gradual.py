"""C02, C03, C14, C15: the gradual calculators (spec/Gradual.tla, MC_Gradual.tla, TraceGradual.tla)."""
import json
import os

import common
from common import Result, log

KNOWN_IDS = ("F2", "F9", "F8", "F11", "F3", "F4")

# which mismatch fields decide which property
PROP_FIELDS = {
    "C02": {"diff": {"value", "announce", "final"}, "perf": set()},
    "C03": {"diff": set(), "perf": {"value"}},
    "C14": {"diff": {"cnt", "above_total"}, "perf": {"cnt", "above_total"}},
    "C15": {"diff": {"some", "len", "panic"}, "perf": {"some", "len", "panic", "announce"}},
}

LEVEL_TEXT = "model_checking"


def open_ids(prop):
    return [f["id"] for f in common.known_findings().get("open", []) if prop in f.get("properties", [])]


def all_open_ids():
    return sorted({f["id"] for f in common.known_findings().get("open", [])} & set(KNOWN_IDS))


def write_cfg(tier, known_on, path):
    maxlen, maxcalls = (3, 4) if tier == "quick" else (5, 5)
    with open(path, "w") as f:
        f.write("CONSTANTS\n  Modes = {\"osu\", \"taiko\", \"catch\", \"mania\"}\n")
        f.write("  OverflowChecks = FALSE\n  MaxLen = %d\n  MaxCalls = %d\n" % (maxlen, maxcalls))
        f.write("  KnownOn = {%s}\n" % ", ".join('"%s"' % k for k in known_on))
        f.write("INIT Init\nNEXT Next\nVIEW StateView\nINVARIANT Printer\nINVARIANT PropertyInv\nINVARIANT AlgebraInv\nCHECK_DEADLOCK FALSE\n")
    return maxlen, maxcalls


def is_alarm(m):
    if m["kind"] == "property":
        return m["class"] is None
    return not m["benign"]


def run(prop, tier):
    res = Result(prop, tier, "model_checking")
    known_on = all_open_ids()
    binp = common.build_harness()
    cfgp = os.path.join(common.OUT, "MC_Gradual_%s_%d.cfg" % (tier, os.getpid()))
    maxlen, maxcalls = write_cfg(tier, known_on, cfgp)
    workers = 4 if tier == "quick" else 12
    t = common.run_tlc("MC_Gradual", cfgp, workers=workers, timeout=600 if tier == "quick" else 7200,
                       name="MC_Gradual_%s_%s" % (prop, tier))
    res.add_tlc(t)
    if not t["ok"]:
        # the model itself violates the property outside the known classes
        res.violation("TLC: invariant %s violated on the model (see %s)" % (t["violated"], t["log"]),
                      {"kind": "tlc", "log_tail": common.tail_nonreplay(t["text"], 60)})
        return res.finish()
    scen = os.path.join(common.OUT, "gradual_%s_%s_%d.ndjson" % (prop, tier, os.getpid()))
    n = common.extract_replay(t["log"], scen)
    if n != t["distinct"]:
        raise common.ToolError("scenario lines (%d) != distinct states (%d)" % (n, t["distinct"]))
    outp = os.path.join(common.OUT, "gradual_%s_%s_%d.res.json" % (prop, tier, os.getpid()))
    p = common.run_harness(binp, ["gradual-replay", scen, outp, "--tier", tier, "--known", ",".join(known_on)])
    log(p.stdout.strip().splitlines()[-1])
    r = json.load(open(outp))
    res.cov["traces_validated_against_impl"] += r["sessions"]
    res.cov["steps_checked"] = r["steps_checked"]
    res.cov["oneshot_calculations"] = r["oneshot_calculations"]
    res.cov["scenarios"] = r["scenarios"]
    res.cov["exhaustive"] = True
    res.cov["samples"] = r["samples"]
    res.cov["bounds"] = {"max_objects": maxlen, "max_calls": maxcalls, "profiles": r["profiles"], "settings_profiles": r["cfgs"]}
    res.cov["by_class"] = r["by_class"]
    fields = PROP_FIELDS[prop]
    machinery = [x for x in r["records"] if x["mismatch"]["kind"] == "machinery"]
    if machinery:
        raise common.ToolError("concretiser broke its own algebra: %s" % json.dumps(machinery[0]["mismatch"]))
    for key, cnt in r["by_class"].items():
        parts = key.split("/")
        kind, api, mode, what, cls = parts[:5]
        if what not in fields[api]:
            continue
        if kind == "property" and cls != "-":
            desc = [f for f in common.known_findings()["open"] if f["id"] == cls]
            res.known(cls, desc[0]["what"] if desc else "", cnt)
    for rec in r["records"]:
        m = rec["mismatch"]
        api = rec["scenario"]["api"]
        if m["what"] not in fields[api] or not is_alarm(m):
            continue
        what = "%s/%s %s %s: map=%s calls=%s then %s: expected %s observed %s (profile %d, settings %s)" % (
            m["kind"], m["what"], api, rec["scenario"]["mode"],
            [o["k"] for o in rec["scenario"]["objs"]], [e["a"] for e in rec["scenario"]["path"]], m["call"],
            m["expected"][:200], m["observed"][:200], m["profile"], json.dumps(rec["cfg"]))
        res.violation(what, {"kind": "gradual", "scenario": rec["scenario"], "profile": m["profile"],
                             "cfg_index": m["cfg"], "cfg": rec["cfg"], "osu_text": rec["osu_text"],
                             "mismatch": m, "tier": tier})
    # ---- osu! stacking (OsuStacking.tla): a partial play and the gradual calculators see the stack heights of the whole map
    if prop in ("C02", "C03"):
        from checks import osustack
        osustack.run_stack(res, tier, binp)
    # ---- catch conversion (CatchConvert.tla): counts of the regular (take = k) and the gradual counter, RNG consumption
    if prop == "C14":
        from checks import catchconv
        catchconv.run_catch(res, tier, binp)
        # ... and which sliders of an osu! map become taiko hits (and so count): recorded conversions against TaikoSplice
        from checks import taikosplice
        taikosplice.run_taiko(res, tier, binp, parts=("trace",))
    # ---- implementation -> specification: recorded traces validated by TLC
    trace = os.path.join(common.OUT, "gradual_trace_%s_%s_%d.ndjson" % (prop, tier, os.getpid()))
    p = common.run_harness(binp, ["gradual-record", trace, "--tier", tier])
    log(p.stdout.strip().splitlines()[-1])
    # differential on the recorded maps (fixture windows, converts, random and tangled timelines; longer than the model's maps):
    # C02 - i-th gradual value = one-shot on the prefix; C03 - i-th gradual performance (Difficulty with a stale passed_objects)
    # = one-shot performance on the prefix
    vals = json.load(open(trace + ".values.json"))
    os.remove(trace + ".values.json")
    res.cov["recorded_map_value_checks"] = vals["checks"]
    want_api = {"C02": "diff", "C03": "perf", "C14": "count"}.get(prop)
    for rec in vals["records"]:
        if rec["api"] == want_api or (rec["what"] in ("panic", "machinery") and prop == "C02"):
            res.violation("recorded map: %s %s at prefix %s: %s: expected %s observed %s" % (rec["api"], rec["what"], rec.get("i"), rec["label"], str(rec.get("expected"))[:300], str(rec.get("observed"))[:300]),
                          {"kind": "gradual-values", "record": rec})

    def corrupt(events):
        idx = [i for i, e in enumerate(events) if e["ev"] == "call" and e.get("some")]
        if not idx:
            return None
        i = idx[(common.seed() * 7 + 3) % len(idx)]
        e = dict(events[i])
        if (common.seed() + len(idx)) % 2 == 0:
            e["cnt"] = [e["cnt"][0] + 1] + e["cnt"][1:]
        else:
            e["len"] = e["len"] + 1
        return events[:i] + [e] + events[i + 1:]

    ok, line, evtxt = common.trace_check(res, "TraceGradual", "TraceGradual.cfg", trace, corrupt, "%s_%s" % (prop, tier))
    sessions = sum(1 for l in open(trace) if '"ev":"reset"' in l or '"ev":"seq"' in l)
    if ok:
        res.cov["traces_validated_against_impl"] += sessions
    else:
        events = [json.loads(l) for l in open(trace)]
        start = max(i for i in range(line) if events[i]["ev"] == "reset")
        res.violation("trace of the real calculators rejected by TraceGradual at event %d: %s (session: %s)" % (
            line, evtxt, events[start].get("label")),
            {"kind": "gradual-trace", "events": events[start:line], "label": events[start].get("label")})
    res.assumptions += [
        "exhaustive for maps <= %d objects over the per-mode alphabet and call sequences <= %d calls; larger maps only via traces" % (maxlen, maxcalls),
        "numbers come from the one-shot code path of rosu-pp itself (differential, Debug text equality = bitwise for finite floats)",
        "concretiser profiles validated by the count-algebra comparison (C14)",
        "release profile (usize underflow wraps); known-finding classes enabled: %s" % ",".join(known_on),
    ]
    for f in (cfgp, scen, trace):
        try:
            os.remove(f)
        except OSError:
            pass
    return res.finish()


def replay(prop, obj):
    rp = obj["replay"]
    if rp.get("kind") != "gradual":
        log(json.dumps(rp, indent=1)[:3000])
        return 2
    binp = common.build_harness()
    scen = os.path.join(common.OUT, "replay_%d.ndjson" % os.getpid())
    with open(scen, "w") as f:
        f.write(json.dumps(rp["scenario"]) + "\n")
    outp = scen + ".res.json"
    common.run_harness(binp, ["gradual-replay", scen, outp, "--tier", rp.get("tier", "quick"), "--known", ",".join(all_open_ids()),
                              "--only-profile", str(rp["profile"]), "--only-cfg", str(rp["cfg_index"])])
    r = json.load(open(outp))
    log("map:\n" + rp["osu_text"])
    log("settings: " + json.dumps(rp["cfg"]))
    bad = 0
    for rec in r["records"]:
        m = rec["mismatch"]
        if is_alarm(m):
            bad += 1
            log("MISMATCH %s/%s after calls %s then %s\n  expected: %s\n  observed: %s" % (
                m["kind"], m["what"], [e["a"] for e in rp["scenario"]["path"]], m["call"], m["expected"], m["observed"]))
    if bad:
        log("VIOLATION property=%s replay=%s" % (prop, "(replayed)"))
        return 1
    log("replay: no mismatch on the current tree")
    return 0


REGISTRY = {p: (lambda tier, p=p: run(p, tier)) for p in PROP_FIELDS}
REPLAY_KINDS = {"gradual", "tlc"}
