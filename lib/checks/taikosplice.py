"""TaikoSplice.tla: the osu! -> taiko splice machine (C19): MC_TaikoSplice (machine = expected result) with replay on the
real converter, and trace validation of recorded conversions (hook: burst events) with a canary."""
import json
import os

import common
from common import log


def run_taiko(res, tier, binp, parts=("mc", "trace")):
    pid = os.getpid()
    if "mc" in parts:
        _model_part(res, tier, binp, pid)
    if "trace" in parts:
        _trace_part(res, tier, binp, pid)


def _model_part(res, tier, binp, pid):
    maxobjs = 3 if tier == "quick" else 4
    cfgp = os.path.join(common.OUT, "MC_TaikoSplice_%s_%d.cfg" % (tier, pid))
    with open(cfgp, "w") as f:
        f.write("CONSTANTS\n  MaxObjs = %d\n  MaxT = 3\nINIT Init\nNEXT Next\nINVARIANT MachineIsExpected\nINVARIANT Printer\nCHECK_DEADLOCK FALSE\n" % maxobjs)
    r = common.run_tlc("MC_TaikoSplice", cfgp, workers=8 if tier == "quick" else 14, timeout=7200, name="MC_TaikoSplice_%s" % tier, xmx="8g")
    res.add_tlc(r)
    os.remove(cfgp)
    if not r["ok"]:
        res.violation("TLC: the taiko splice machine violates %s" % (r["violated"] or "a property"), {"kind": "tlc", "log_tail": common.tail_nonreplay(r["text"], 60)})
    else:
        scen = os.path.join(common.OUT, "taiko_%s_%d.ndjson" % (tier, pid))
        n = common.extract_replay(r["log"], scen)
        if n != r["distinct"]:
            raise common.ToolError("scenario lines (%d) != distinct states (%d)" % (n, r["distinct"]))
        outp = scen + ".res.json"
        p = common.run_harness(binp, ["taiko-replay", scen, outp], timeout=3600)
        log(p.stdout.strip().splitlines()[-1])
        out = json.load(open(outp))
        if out["machinery"]:
            raise common.ToolError("taiko-replay could not build its maps: %s" % out["records"][:2])
        res.cov["traces_validated_against_impl"] += out["scenarios"]
        for rec in out["records"][:8]:
            res.violation("taiko conversion %s: expected %s observed %s\n%s" % (rec["what"], rec["expected"][:400], rec["observed"][:400], rec["osu_text"][-400:]),
                          {"kind": "taiko-replay", "record": rec})
        for fpath in (scen, outp):
            os.remove(fpath)
    try:
        os.remove(r["log"])
    except OSError:
        pass


def _trace_part(res, tier, binp, pid):
    # ---- implementation -> specification
    maxobjs = 3 if tier == "quick" else 4
    trace = os.path.join(common.OUT, "taiko_trace_%s_%d.ndjson" % (tier, pid))
    p = common.run_harness(binp, ["taiko-record", trace, "--tier", tier], timeout=3600)
    log(p.stdout.strip().splitlines()[-1])

    def corrupt(events):
        cand = [i for i, e in enumerate(events) if e["log"] and len(e["out_sounds"]) >= 2]
        if not cand:
            return None
        i = cand[(common.seed() * 3 + 1) % len(cand)]
        e = json.loads(json.dumps(events[i]))
        if common.seed() % 2 == 0:
            e["out_sounds"][0], e["out_sounds"][-1] = e["out_sounds"][-1] + 1, e["out_sounds"][0]      # sounds no longer follow their objects
        else:
            e["log"][0] += 1                                                                        # the slider was visited at another index
        return [e]

    events = [json.loads(l) for l in open(trace)]
    cur = trace
    rounds = 0
    first = True
    while events and rounds < 8:
        ok, line, evtxt = common.trace_check(res, "TraceTaikoSplice", "TraceTaikoSplice.cfg", cur, corrupt if first else (lambda e: None), "C19_taiko_%s_r%d" % (tier, rounds))
        first = False
        if ok:
            break
        ev = events[line - 1]
        res.violation("taiko conversion is not a behaviour of TaikoSplice: %s: src %s log %s out %s sounds %s\n%s" % (
            ev["label"], json.dumps(ev["src"])[:500], ev["log"], json.dumps(ev["out"])[:400], ev["out_sounds"], ev.get("osu_text", "")[-400:]),
            {"kind": "taiko-trace", "event": ev})
        events = events[line:]
        cur = trace + ".rest"
        with open(cur, "w") as f:
            f.write("\n".join(json.dumps(e) for e in events) + ("\n" if events else ""))
        rounds += 1
    res.cov["traces_validated_against_impl"] += sum(1 for _ in open(trace))
    for fpath in (trace, trace + ".rest"):
        try:
            os.remove(fpath)
        except OSError:
            pass
    res.assumptions += [
        "taiko splice machine: exhaustive over source lists up to %d objects (circle / spinner / hold / slider kept / slider replaced by 2..5 hits with 2..3 node sounds, "
        "time ranks with ties and overlaps), replayed on the real converter; recorded conversions of random maps (format versions below and above 8, tick rates, "
        "velocity points, node-sound lists shorter and longer than the hit count) validated against the same machine" % maxobjs,
    ]
