"""C08: representations of equivalent settings (spec/ModsRep.tla, MC_ModsRep.tla)."""
import json
import os

import common
from common import Result, log


def run(prop, tier):
    res = Result(prop, tier, "model_checking")
    binp = common.build_harness()
    pid = os.getpid()
    cfgp = os.path.join(common.OUT, "MC_ModsRep_%s_%d.cfg" % (tier, pid))
    with open(cfgp, "w") as f:
        f.write("INIT Init\nNEXT Next\nINVARIANT AgreeInv\nINVARIANT Printer\nCHECK_DEADLOCK FALSE\n")
    r = common.run_tlc("MC_ModsRep", cfgp, workers=8, timeout=1800, name="MC_ModsRep_%s" % tier)
    res.add_tlc(r)
    if not r["ok"]:
        res.violation("TLC: representations disagree on the model: %s" % (r["violated"] or "a property"), {"kind": "tlc", "log_tail": common.tail_nonreplay(r["text"], 60)})
        return res.finish()
    scen = os.path.join(common.OUT, "modsrep_%s_%d.ndjson" % (tier, pid))
    common.extract_replay(r["log"], scen)
    os.remove(r["log"])
    outp = scen + ".res.json"
    p = common.run_harness(binp, ["mods-replay", scen, outp, "--tier", tier], timeout=7200)
    log(p.stdout.strip().splitlines()[-1])
    out = json.load(open(outp))
    res.cov["traces_validated_against_impl"] += out["scenarios"]
    res.cov["real_checks"] = out["checks"] + out["rate_and_da_checks"]
    res.cov["samples"] = out["samples"]
    res.cov["exhaustive"] = True
    for rec in out["records"][:12]:
        res.violation("%s: %s %s %s: expected %s observed %s" % (
            rec["what"], json.dumps(rec.get("scenario") or {k: rec.get(k) for k in ("mode", "rate", "field", "value")}),
            rec.get("representation", ""), rec.get("field", ""), str(rec.get("expected"))[:300], str(rec.get("observed"))[:300]),
            {"kind": "modsrep", "record": rec})
    res.assumptions += [
        "all 2^12 subsets of the legacy acronyms x key mods x modes x lazer flag on the model; selections that are coherent for the mode (exclusive groups, mod exists in the mode) are replayed",
        "accessor vectors through the rosu_pp_verif hook GameMods::verif_flags; end-to-end results for every selection of <= 2 mods and a seeded sample of larger ones",
        "rate mods: speed_change r vs clock_rate(r) on a grid; DifficultyAdjust x vs override(x, false) on a grid",
    ]
    for f in (cfgp, scen, outp):
        try:
            os.remove(f)
        except OSError:
            pass
    return res.finish()


def replay(prop, obj):
    log(json.dumps(obj["replay"], indent=1)[:4000])
    log("re-run ./check %s to re-evaluate on the current tree" % prop)
    return 2


REGISTRY = {"C08": lambda tier: run("C08", tier)}
REPLAY_KINDS = {"modsrep"}
