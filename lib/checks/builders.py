"""C04 (MapOrAttrs entry points) and C18 (builder settings): spec/Builders.tla, MC_Builders.tla."""
import json
import os

import common
from common import Result, log

ASPECT = {"C18": "setters", "C04": "entry"}
BOUNDS = {"quick": {"setters": (2, "FALSE"), "entry": (3, "FALSE")}, "thorough": {"setters": (3, "TRUE"), "entry": (5, "FALSE")}}


def run(prop, tier):
    res = Result(prop, tier, "model_checking")
    binp = common.build_harness()
    pid = os.getpid()
    aspect = ASPECT[prop]
    maxcalls, rich = BOUNDS[tier][aspect]
    cfgp = os.path.join(common.OUT, "MC_Builders_%s_%s_%d.cfg" % (aspect, tier, pid))
    with open(cfgp, "w") as f:
        f.write('CONSTANTS\n  Aspect = "%s"\n  MaxCalls = %d\n  Rich = %s\n' % (aspect, maxcalls, rich))
        f.write("INIT Init\nNEXT Next\nVIEW View\nINVARIANT ClampInv\nINVARIANT RoundTripInv\nINVARIANT LastWriteInv\nINVARIANT Printer\nCHECK_DEADLOCK FALSE\n")
    r = common.run_tlc("MC_Builders", cfgp, workers=4 if tier == "quick" else 12, timeout=3600, name="MC_Builders_%s_%s" % (aspect, tier))
    res.add_tlc(r)
    if not r["ok"]:
        res.violation("TLC: builders model violates %s" % (r["violated"] or "a property"), {"kind": "tlc", "log_tail": common.tail_nonreplay(r["text"], 60)})
        return res.finish()
    scen = os.path.join(common.OUT, "builders_%s_%s_%d.ndjson" % (aspect, tier, pid))
    n = common.extract_replay(r["log"], scen)
    os.remove(r["log"])
    outp = scen + ".res.json"
    p = common.run_harness(binp, ["builders-replay", scen, outp], timeout=7200)
    log(p.stdout.strip().splitlines()[-1])
    out = json.load(open(outp))
    res.cov["traces_validated_against_impl"] += out["scenarios"]
    res.cov["real_checks"] = out["checks"]
    res.cov["samples"] = out["samples"]
    res.cov["exhaustive"] = True
    res.cov["bounds"] = {"aspect": aspect, "max_calls": maxcalls, "rich_value_classes": rich}
    for rec in out["records"][:12]:
        res.violation("%s [%s%s]: calls %s: expected %s observed %s" % (
            rec["what"], rec.get("mode"), (" entry " + rec["entry"]) if rec.get("entry") else "",
            [(c["f"], c["v"], c["w"]) for c in rec["calls"]], str(rec.get("expected"))[:300], str(rec.get("observed"))[:300]),
            {"kind": "builders", "record": rec, "tier": tier})
    if prop == "C18":
        res.assumptions += [
            "all setter sequences up to %d calls over value classes (below/min/inside/max/above; with_mods both ways); concrete numbers chosen by the harness" % maxcalls,
            "Performance: PartialEq and Difficulty::inspect() are the state projection; results compared through Debug text on one concretised map per mode",
            "NaN setter arguments are not in the alphabet",
        ]
    else:
        res.assumptions += [
            "8 entry points x all histories up to %d calls over 7 setter calls and generate_state(); attributes of attribute entry points are computed with the final settings (the property's premise)" % maxcalls,
            "an accuracy-based score specification is only used when no setter follows generate_state(); otherwise no score specification",
        ]
    for f in (cfgp, scen, outp):
        try:
            os.remove(f)
        except OSError:
            pass
    return res.finish()


def replay(prop, obj):
    log(json.dumps(obj["replay"], indent=1)[:4000])
    log("re-run ./check %s to re-evaluate on the current tree" % prop)
    return 2


REGISTRY = {"C04": lambda tier: run("C04", tier), "C18": lambda tier: run("C18", tier)}
REPLAY_KINDS = {"builders"}
