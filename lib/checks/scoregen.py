"""C12, C13: score-state generation (spec/ScoreGen.tla, MC_ScoreGen.tla, TraceScoreGen.tla)."""
import json
import os
import subprocess
from concurrent.futures import ThreadPoolExecutor

import common
from common import Result, log

TIERS = {
    # ACC_T, MaxN, Rich, AccGrid, BigN, DenseGrid, chunks
    "quick": dict(acc_t=40, maxn=2, rich="FALSE", grid="{0, 13, 39, 40}", bign=9,
                  dense="{0, 1, 9, 17, 20, 27, 33, 38, 39, 40}", chunks=6),
    "thorough": dict(acc_t=200, maxn=3, rich="TRUE", grid="{0, 1, 67, 133, 180, 199, 200}", bign=10,
                     dense="{%s}" % ", ".join(str(i) for i in range(0, 201, 5)), chunks=14),
}

# C12 decides on: requirement flags, idempotence, uses, exact equality with the transcription
# C13 decides on: optimality (and misses) of accuracy-only cases


def write_cfg(t, path, modes='{"osu", "taiko", "catch", "mania"}'):
    with open(path, "w") as f:
        f.write("CONSTANTS\n  ACC_T = %d\n  Modes = %s\n  MaxN = %d\n  Rich = %s\n  AccGrid = %s\n  BigN = %d\n  DenseGrid = %s\n" % (
            t["acc_t"], modes, t["maxn"], t["rich"], t["grid"], t["bign"], t["dense"]))
        f.write("INIT Init\nNEXT Next\nINVARIANT Printer\nINVARIANT NoUnderflow\nINVARIANT Idempotent\nINVARIANT ReqInv\nINVARIANT ApaAgrees\nPROPERTY ReqStep\nCHECK_DEADLOCK FALSE\n")


def run(prop, tier):
    res = Result(prop, tier, "model_checking")
    t = TIERS[tier]
    binp = common.build_harness()
    pid = os.getpid()
    cfgp = os.path.join(common.OUT, "MC_ScoreGen_%s_%d.cfg" % (tier, pid))
    write_cfg(t, cfgp)
    r = common.run_tlc("MC_ApaAgree", cfgp, workers=6 if tier == "quick" else 14, timeout=900 if tier == "quick" else 14400,
                       name="MC_ScoreGen_%s_%s" % (prop, tier), xmx="12g")
    res.add_tlc(r)
    if not r["ok"]:
        res.violation("TLC: the transcription of generate_state violates %s on the model (see %s)" % (
            r["violated"] or "a property", r["log"]), {"kind": "tlc", "log_tail": common.tail_nonreplay(r["text"], 80)})
        return res.finish()
    if prop == "C12":
        # unbounded counts: Apalache shows the requirements for ALL non-negative counts / provided values on the flat modules
        # that the TLC run above (invariant ApaAgrees) ties to the transcription the replay compares with the real code
        apa = {}
        for module in ("ApaScoreStd", "ApaScoreCatch"):
            a = common.run_apalache(module, "Req", length=0, timeout=1800, name="%s_%s" % (module, tier))
            apa[module] = {"outcome": "NoError" if a["ok"] else "Error", "seconds": round(a["wall"], 1)}
            if not a["ok"]:
                res.violation("Apalache: the C12 requirements fail for some counts on %s (unbounded integers)" % module,
                              {"kind": "apalache", "module": module, "log_tail": a["text"][-3000:]})
        res.cov["apalache_unbounded"] = apa
    scen = os.path.join(common.OUT, "scoregen_%s_%s_%d.ndjson" % (prop, tier, pid))
    n = common.extract_replay(r["log"], scen)
    os.remove(r["log"])
    prefix = os.path.join(common.OUT, "scoregen_trace_%s_%s_%d" % (prop, tier, pid))
    outp = prefix + ".res.json"
    p = common.run_harness(binp, ["scoregen-replay", scen, prefix, outp, "--acc-t", str(t["acc_t"]), "--chunks", str(t["chunks"])])
    log(p.stdout.strip().splitlines()[-1])
    out = json.load(open(outp))
    res.cov["traces_validated_against_impl"] += out["evaluated"]
    res.cov["cases"] = out["cases"]
    res.cov["exact_equal_to_model"] = out["exact_equal_to_model"]
    res.cov["exhaustive"] = True
    res.cov["samples"] = out["samples"]
    res.cov["bounds"] = {k: t[k] for k in ("acc_t", "maxn", "rich", "grid", "bign")}
    # direct (harness-side) mismatches: idempotence / uses / panic  -> C12
    if prop == "C12":
        for rec in out["records"]:
            res.violation("%s: case %s: expected %s observed %s" % (rec["what"], json.dumps(rec["case"]), str(rec.get("expected"))[:300], str(rec.get("observed"))[:300]),
                          {"kind": "scoregen", "case": rec["case"], "what": rec["what"], "acc_t": t["acc_t"]})
    # trace validation of the real results, chunks in parallel
    tcfg = os.path.join(common.OUT, "TraceScoreGen_%s_%d.cfg" % (tier, pid))
    with open(tcfg, "w") as f:
        f.write("CONSTANTS\n  ACC_T = %d\nSPECIFICATION TraceSpec\nPOSTCONDITION TraceAccepted\nCHECK_DEADLOCK FALSE\n" % t["acc_t"])

    def validate(tf):
        rejected = []
        cur = tf
        skipped = 0
        events_total = sum(1 for _ in open(tf))
        # after a rejection the rest of the trace is still checked (the rejected line is dropped)
        for attempt in range(12):
            ok, rr = common.validate_trace("TraceScoreGen", tcfg, cur, name="TraceScoreGen_%s_%s" % (prop, os.path.basename(cur)), timeout=3600)
            res.add_tlc(rr)
            if ok:
                break
            line, evtxt = common.rejected_at(rr["text"])
            if line is None:
                raise common.ToolError("trace validation failed without a rejection line: " + common.tail_nonreplay(rr["text"]))
            lines = open(cur).read().splitlines()
            rejected.append((json.loads(lines[line - 1]), evtxt))
            rest = lines[line:]
            if not rest:
                break
            cur = tf + ".rest%d" % attempt
            with open(cur, "w") as f:
                f.write("\n".join(rest) + "\n")
        return events_total, rejected

    with ThreadPoolExecutor(max_workers=min(len(out["trace_files"]), 6 if tier == "quick" else 12) or 1) as ex:
        results = list(ex.map(validate, out["trace_files"]))
    n_events = 0
    stale = 0
    for events_total, rejected in results:
        n_events += events_total
        for ev, evtxt in rejected:
            flags_bad = "optimal" if '"optimal", FALSE' in evtxt.replace("\n", " ") else ""
            is_c13 = bool(flags_bad) and 'keep |-> FALSE' not in evtxt and 'sum |-> FALSE' not in evtxt
            what = "real generate_state result rejected by TraceScoreGen: case %s result %s (%s)" % (
                json.dumps(ev["c"]), json.dumps(ev["r"]), evtxt[-400:])
            optimal_false = ", FALSE" in evtxt[-40:] or evtxt.rstrip().endswith("FALSE")
            req_false = "|-> FALSE" in evtxt
            if prop == "C13" and optimal_false:
                res.violation(what, {"kind": "scoregen", "case": ev["c"], "result": ev["r"], "acc_t": t["acc_t"]})
            if prop == "C12" and (req_false or not ev["idem"] or not ev["uses"]):
                res.violation(what, {"kind": "scoregen", "case": ev["c"], "result": ev["r"], "acc_t": t["acc_t"]})
    res.cov["trace_events"] = n_events
    # modelled cases whose real result differs from the transcription but was accepted: model is stale
    stale = 0
    for tf in out["trace_files"]:
        for l in open(tf):
            if '"modelled":true' in l:
                stale += 1
    if stale:
        res.notes.append("%d modelled cases: real result differs from the transcription (requirements re-checked by TLC on the real result)" % stale)
        log("NOTE: %d modelled cases differ from the transcription in ScoreGen.tla; TLC re-checked the requirements on the real results" % stale)
    # canary: corrupt one accepted event, TLC must reject
    canary_src = out["trace_files"][0] if out["trace_files"] else None
    if canary_src and not res.violations:
        lines = open(canary_src).read().splitlines()
        k = (common.seed() * 13 + 5) % len(lines)
        ev = json.loads(lines[k])
        ev["r"]["miss"] = ev["r"]["miss"] + ev["c"]["sh"]["a"] + ev["c"]["sh"]["b"] + 3
        cpath = prefix + ".canary.ndjson"
        with open(cpath, "w") as f:
            f.write(json.dumps(ev) + "\n")
        ok, rr = common.validate_trace("TraceScoreGen", tcfg, cpath, name="TraceScoreGen_canary_%s" % prop)
        if ok:
            raise common.ToolError("canary: corrupted score state accepted by TraceScoreGen")
        res.cov["canary_rejected"] = 1
        os.remove(cpath)
    res.assumptions += [
        "C12 requirements of the no-accuracy branches for unbounded counts: Apalache (SMT, no bound on the integers) on ApaScoreStd / ApaScoreCatch, flat copies of the transcription that TLC proves equal to it on every bounded case (invariant ApaAgrees); u32 wrap-around above 2^32 is outside the model",
        "exhaustive over the enumerated shapes (<= %d objects; accuracy-only family <= %d objects), provided-value sets and accuracy grids of the tier" % (t["maxn"], t["bign"]),
        "integer branches: real result must equal the TLA+ transcription exactly; accuracy branches: requirement predicates and exact-rational optimality evaluated by TLC on the real result",
        "accuracy targets are k/%d; non-tie distances differ by >= 1/(den*T) >> ulp, ties are in the argmin set" % t["acc_t"],
    ]
    for f in [cfgp, scen, tcfg, outp] + out["trace_files"]:
        for g in [f] + [f + ".rest%d" % i for i in range(12)]:
            try:
                os.remove(g)
            except OSError:
                pass
    return res.finish()


def replay(prop, obj):
    rp = obj["replay"]
    if rp.get("kind") != "scoregen":
        log(json.dumps(rp, indent=1)[:3000])
        return 2
    binp = common.build_harness()
    pid = os.getpid()
    scen = os.path.join(common.OUT, "replay_sg_%d.ndjson" % pid)
    zero = {k: 0 for k in ("geki", "n300", "katu", "n100", "n50", "miss", "combo", "ends", "large", "small")}
    with open(scen, "w") as f:
        f.write(json.dumps({"c": rp["case"], "modelled": False, "pred": {"ok": True, "r": zero}}) + "\n")
    prefix = scen + ".trace"
    outp = scen + ".res.json"
    common.run_harness(binp, ["scoregen-replay", scen, prefix, outp, "--acc-t", str(rp["acc_t"]), "--chunks", "1"])
    out = json.load(open(outp))
    log("case: " + json.dumps(rp["case"]))
    for rec in out["records"]:
        log("MISMATCH %s expected %s observed %s" % (rec["what"], rec.get("expected"), rec.get("observed")))
    tcfg = scen + ".cfg"
    with open(tcfg, "w") as f:
        f.write("CONSTANTS\n  ACC_T = %d\nSPECIFICATION TraceSpec\nPOSTCONDITION TraceAccepted\nCHECK_DEADLOCK FALSE\n" % rp["acc_t"])
    ok, rr = common.validate_trace("TraceScoreGen", tcfg, out["trace_files"][0], name="TraceScoreGen_replay")
    log("real result: " + open(out["trace_files"][0]).read().strip())
    if not ok or out["records"]:
        line, evtxt = common.rejected_at(rr["text"])
        log("rejected by TraceScoreGen: %s" % evtxt)
        log("VIOLATION property=%s replay=(replayed)" % prop)
        return 1
    log("replay: accepted on the current tree")
    return 0


REGISTRY = {"C12": lambda tier: run("C12", tier), "C13": lambda tier: run("C13", tier)}
REPLAY_KINDS = {"scoregen"}
