"""C10 (features never change results) and C11 (unsafe preconditions): spec/StrainsVec.tla, MC_StrainsVec.tla,
spec/Lifecycle.tla; C16 (strain output vs ratings): spec/StrainSkill.tla."""
import json
import os
import time
import re

import common
from common import Result, log

FEATURE_SETS = ["", "raw_strains", "sync", "raw_strains,sync"]


def mc_strainsvec(res, dom, maxpush, tier, tag):
    pid = os.getpid()
    cfgp = os.path.join(common.OUT, "MC_StrainsVec_%s_%s_%d.cfg" % (dom, tier, pid))
    with open(cfgp, "w") as f:
        f.write('CONSTANTS\n  MaxPush = %d\n  Dom = "%s"\nINIT Init\nNEXT Next\nINVARIANT UnsafePreconditions\nINVARIANT Refines\nINVARIANT ExpandIsInput\nINVARIANT Printer\nCHECK_DEADLOCK FALSE\n' % (maxpush, dom))
    r = common.run_tlc("MC_StrainsVec", cfgp, workers=6 if tier == "quick" else 14, timeout=7200, name="MC_StrainsVec_%s_%s_%s" % (tag, dom, tier), xmx="12g")
    res.add_tlc(r)
    os.remove(cfgp)
    if not r["ok"]:
        res.violation("TLC: strain list model (domain %s) violates %s" % (dom, r["violated"] or "a property"), {"kind": "tlc", "log_tail": common.tail_nonreplay(r["text"], 60)})
        return None
    scen = os.path.join(common.OUT, "strainsvec_%s_%s_%s_%d.ndjson" % (tag, dom, tier, pid))
    common.extract_replay(r["log"], scen)
    os.remove(r["log"])
    return scen


SIGNALS = {4: "SIGILL", 6: "SIGABRT", 7: "SIGBUS", 8: "SIGFPE", 11: "SIGSEGV"}


def run_or_crash(res, what, binp, args, **kw):
    """run_harness for C11: a harness process killed by SIGSEGV / SIGABRT / ... while it drives the code under test IS the
    observation the property is about (an invalid memory access, or an abort of a checked precondition), not a tool error"""
    p = common.run_harness(binp, args, check=False, **kw)
    if p.returncode < 0 and -p.returncode in SIGNALS:
        res.violation("%s: the process was killed by %s while driving the code under test: %s" % (what, SIGNALS[-p.returncode], (p.stdout or "")[-600:]),
                      {"kind": "crash", "what": what, "signal": SIGNALS[-p.returncode], "args": args[:1], "output": (p.stdout or "")[-3000:]})
        return None
    if p.returncode != 0:
        raise common.ToolError("harness %s failed (%d):\n%s" % (args[0], p.returncode, (p.stdout or "")[-4000:]))
    return p


def replay_strainsvec(res, scen, features, prop):
    binp = common.build_harness(features)
    outp = scen + ".%s.res.json" % (features.replace(",", "-") or "default")
    if prop == "C11":
        p = run_or_crash(res, "StrainsVec replay [%s build]" % (features or "default"), binp, ["strainsvec-replay", scen, outp])
        if p is None:
            return
    else:
        p = common.run_harness(binp, ["strainsvec-replay", scen, outp])
    log(p.stdout.strip().splitlines()[-1])
    out = json.load(open(outp))
    if out.get("degraded"):
        res.cov["degraded"] = "StrainsVec's internal API changed in /repo: the direct replay of the model's scenarios was skipped for the [%s] build; the end-to-end parts still decide" % (features or "default")
    res.cov["traces_validated_against_impl"] += out["scenarios"]
    if not res.cov["samples"]:
        res.cov["samples"] = out["samples"]
    for rec in out["records"][:8]:
        res.violation("StrainsVec [%s build] %s after pushes %s then %s: expected %s observed %s" % (
            features or "default", rec["what"], rec["pushes"], rec["op"], rec["expected"][:300], rec["observed"][:300]),
            {"kind": "strainsvec", "record": rec, "features": features})
    os.remove(outp)


def norm_dump(text):
    return re.sub(r"-0\.0(?=[,\] }\)])", "0.0", text)


def run_c10(tier):
    res = Result("C10", tier, "model_checking")
    scen = mc_strainsvec(res, "ok", 4 if tier == "quick" else 6, tier, "C10")
    if scen:
        replay_strainsvec(res, scen, "", "C10")
        replay_strainsvec(res, scen, "raw_strains", "C10")
        os.remove(scen)
    # the taiko colour structure (mono streaks / alternating patterns / repeating hit patterns; Rc + Weak without `sync`,
    # Arc + RwLock with it): TaikoColour.tla predicts the index / length / repetition-interval rows of every object for every
    # hit-type sequence up to the bound; the preprocessor of the default AND of the sync build must assign exactly those
    pid = os.getpid()
    tscen = os.path.join(common.OUT, "taikocolour_%s_%d.ndjson" % (tier, pid))
    with open(tscen, "w") as tf:
        for (maxlen, types) in ([(7, '{"Center", "Rim", "NonHit"}'), (11, '{"Center", "Rim"}')] if tier == "quick"
                                else [(10, '{"Center", "Rim", "NonHit"}'), (16, '{"Center", "Rim"}')]):
            cfgp = os.path.join(common.OUT, "MC_TaikoColour_%d_%s_%d.cfg" % (maxlen, tier, pid))
            with open(cfgp, "w") as f:
                f.write("CONSTANTS\n  MaxLen = %d\n  Types = %s\nINIT Init\nNEXT Next\nINVARIANT WellFormed\nINVARIANT Printer\nCHECK_DEADLOCK FALSE\n" % (maxlen, types))
            r = common.run_tlc("MC_TaikoColour", cfgp, workers=4 if tier == "quick" else 12, timeout=7200, name="MC_TaikoColour_%d_%s" % (maxlen, tier))
            res.add_tlc(r)
            os.remove(cfgp)
            if not r["ok"]:
                res.violation("TLC: the taiko colour grouping violates %s" % (r["violated"] or "a property"), {"kind": "tlc", "log_tail": common.tail_nonreplay(r["text"], 60)})
                continue
            part = tscen + ".part"
            common.extract_replay(r["log"], part)
            os.remove(r["log"])
            tf.write(open(part).read())
            os.remove(part)
    ref = 0.0
    for fs in ("", "sync"):
        binp = common.build_harness(fs)
        outp = tscen + ".%s.json" % (fs or "default")
        t0 = time.time()
        try:
            p = common.run_harness(binp, ["taikocolour-replay", tscen, outp], timeout=7200) if fs == "" else common.run_harness_bounded(binp, ["taikocolour-replay", tscen, outp], ref)
        except common.HarnessHang as h:
            res.violation("taiko colour replay in the [%s] build: %s" % (fs, h), {"kind": "feature-hang", "features": fs, "what": "taikocolour-replay"})
            continue
        if fs == "":
            ref = time.time() - t0
        log("[%s] %s" % (fs or "default", p.stdout.strip().splitlines()[-1]))
        out = json.load(open(outp))
        os.remove(outp)
        if out["machinery"]:
            raise common.ToolError("taikocolour-replay could not build its maps: %s" % out["records"][:2])
        res.cov["traces_validated_against_impl"] += out["scenarios"]
        for rec in out["records"][:6]:
            res.violation("taiko colour structure [%s build] for %s: expected %s observed %s" % (fs or "default", rec["types"], rec["expected"][:400], rec["observed"][:400]),
                          {"kind": "taiko-colour", "features": fs, "record": rec})
    os.remove(tscen)
    # the taiko rhythm grouping (util/interval_grouping.rs used twice: notes -> same-rhythm groups -> same-pattern groups; Rc / Weak
    # vs Arc / RwLock): TaikoRhythm.tla predicts both levels for every interval sequence over values 5 and 6 ms apart
    rscen = os.path.join(common.OUT, "taikorhythm_%s_%d.ndjson" % (tier, pid))
    with open(rscen, "w") as tf:
        # (0 = notes on one timestamp: infinite / NaN interval ratios in the groups)
        for (maxlen, ivs) in ([(6, "{100, 105, 106, 111, 200}"), (9, "{100, 105, 111}"), (7, "{0, 4, 100, 200}")] if tier == "quick"
                              else [(8, "{100, 105, 106, 111, 200}"), (12, "{100, 105, 111}"), (9, "{0, 4, 100, 200}")]):
            cfgp = os.path.join(common.OUT, "MC_TaikoRhythm_%d_%s_%d.cfg" % (maxlen, tier, pid))
            with open(cfgp, "w") as f:
                f.write("CONSTANTS\n  MaxLen = %d\n  Ivs = %s\nINIT Init\nNEXT Next\nINVARIANT WellFormed\nINVARIANT Printer\nCHECK_DEADLOCK FALSE\n" % (maxlen, ivs))
            r = common.run_tlc("MC_TaikoRhythm", cfgp, workers=4 if tier == "quick" else 12, timeout=7200, name="MC_TaikoRhythm_%d_%s" % (maxlen, tier))
            res.add_tlc(r)
            os.remove(cfgp)
            if not r["ok"]:
                res.violation("TLC: the taiko rhythm grouping violates %s" % (r["violated"] or "a property"), {"kind": "tlc", "log_tail": common.tail_nonreplay(r["text"], 60)})
                continue
            part = rscen + ".part"
            common.extract_replay(r["log"], part)
            os.remove(r["log"])
            tf.write(open(part).read())
            os.remove(part)
    ref = 0.0
    for fs in ("", "sync"):
        binp = common.build_harness(fs)
        outp = rscen + ".%s.json" % (fs or "default")
        t0 = time.time()
        try:
            p = common.run_harness(binp, ["taikorhythm-replay", rscen, outp], timeout=7200) if fs == "" else common.run_harness_bounded(binp, ["taikorhythm-replay", rscen, outp], ref)
        except common.HarnessHang as h:
            res.violation("taiko rhythm replay in the [%s] build: %s" % (fs, h), {"kind": "feature-hang", "features": fs, "what": "taikorhythm-replay"})
            continue
        if fs == "":
            ref = time.time() - t0
        log("[%s] %s" % (fs or "default", p.stdout.strip().splitlines()[-1]))
        out = json.load(open(outp))
        os.remove(outp)
        if out["machinery"]:
            raise common.ToolError("taikorhythm-replay could not build its maps: %s" % out["records"][:2])
        res.cov["traces_validated_against_impl"] += out["scenarios"]
        for rec in out["records"][:6]:
            res.violation("taiko rhythm grouping [%s build] for intervals %s: expected %s observed %s" % (fs or "default", rec["ivs"], rec["expected"][:400], rec["observed"][:400]),
                          {"kind": "taiko-rhythm", "features": fs, "record": rec})
    os.remove(rscen)
    # end to end: the same seeded scenario list in all four feature builds
    dumps = {}
    ref = 0.0
    for fs in FEATURE_SETS:
        binp = common.build_harness(fs)
        outp = os.path.join(common.OUT, "dump_%s_%s_%d.txt" % (fs.replace(",", "-") or "default", tier, os.getpid()))
        t0 = time.time()
        try:
            p = common.run_harness(binp, ["dump-results", outp, "--tier", tier], timeout=7200) if fs == "" else common.run_harness_bounded(binp, ["dump-results", outp, "--tier", tier], ref)
        except common.HarnessHang as h:
            # a feature build that does not come back where the default build does IS a changed result
            res.violation("end-to-end workload in the [%s] build: %s" % (fs, h), {"kind": "feature-hang", "features": fs, "what": "dump-results"})
            continue
        if fs == "":
            ref = time.time() - t0
        dumps[fs] = norm_dump(open(outp).read()).splitlines()
        os.remove(outp)
    base = dumps[""]
    res.cov["end_to_end_jobs"] = len(base)
    res.cov["feature_builds"] = len(FEATURE_SETS)
    res.cov["traces_validated_against_impl"] += len(base) * len(FEATURE_SETS)
    for fs in FEATURE_SETS[1:]:
        if fs not in dumps:
            continue
        other = dumps[fs]
        if len(other) != len(base):
            raise common.ToolError("dump of build %s has %d lines, default %d" % (fs, len(other), len(base)))
        n = 0
        for a, b in zip(base, other):
            if a != b:
                n += 1
                if n <= 3:
                    fa, fb = a.split("\t"), b.split("\t")
                    col = next((i for i, (x, y) in enumerate(zip(fa, fb)) if x != y), 0)
                    x, y = fa[col], fb[col]
                    k = next((j for j in range(min(len(x), len(y))) if x[j] != y[j]), 0)
                    res.violation("feature build [%s] differs from the default build on '%s' (%s): ...%s vs ...%s" % (
                        fs, fa[0], ["label", "difficulty", "strains", "performance", "gradual difficulty", "gradual performance"][min(col, 5)],
                        x[max(0, k - 120):k + 60], y[max(0, k - 120):k + 60]), {"kind": "feature-dump", "features": fs, "job": fa[0], "default": a[:4000], "other": b[:4000]})
    res.cov["exhaustive"] = True
    res.assumptions += [
        "refinement checked on the domain positive / positive subnormal / +0 / -0 pushes (section peaks are non-negative: monitored by C16 and C09 checks)",
        "results compared as Debug text with -0.0 and 0.0 identified (numerically equal): the empty f64 sum is -0.0 in the compact build and 0.0 in the raw build",
        "end-to-end scenario list is seeded; exhaustive part is the op-sequence enumeration",
    ]
    return res.finish()


def run_c11(tier):
    res = Result("C11", tier, "model_checking")
    scen = mc_strainsvec(res, "all", 4 if tier == "quick" else 5, tier, "C11")
    if scen:
        replay_strainsvec(res, scen, "", "C11")
        os.remove(scen)
    # lifecycles of gradual calculators
    pid = os.getpid()
    cfgp = os.path.join(common.OUT, "MC_Lifecycle_%s_%d.cfg" % (tier, pid))
    with open(cfgp, "w") as f:
        f.write("CONSTANTS\n  MaxSteps = %d\nINIT Init\nNEXT Next\nINVARIANT ReferentStable\nINVARIANT Printer\nCHECK_DEADLOCK FALSE\n" % (4 if tier == "quick" else 6))
    r = common.run_tlc("MC_Lifecycle", cfgp, workers=6, timeout=3600, name="MC_Lifecycle_%s" % tier)
    res.add_tlc(r)
    os.remove(cfgp)
    if not r["ok"]:
        res.violation("TLC: lifecycle model violates %s" % (r["violated"] or "a property"), {"kind": "tlc", "log_tail": common.tail_nonreplay(r["text"], 60)})
    else:
        scen = os.path.join(common.OUT, "lifecycle_%s_%d.ndjson" % (tier, pid))
        common.extract_replay(r["log"], scen)
        os.remove(r["log"])
        for fs in ["", "sync"]:
            binp = common.build_harness(fs)
            outp = scen + ".%s.res.json" % (fs or "default")
            p = run_or_crash(res, "gradual calculator lifecycles [%s build]" % (fs or "default"), binp, ["lifecycle-replay", scen, outp], timeout=7200)
            if p is None:
                continue
            log(p.stdout.strip().splitlines()[-1])
            out = json.load(open(outp))
            res.cov["traces_validated_against_impl"] += out["scenarios"]
            res.cov["lifecycle_steps"] = res.cov.get("lifecycle_steps", 0) + out["steps"]
            for rec in out["records"][:8]:
                res.violation("gradual calculator lifecycle [%s build]: %s mode %s steps %s: expected %s observed %s" % (
                    fs or "default", rec["what"], rec["mode"], rec["steps"], str(rec["expected"])[:300], str(rec["observed"])[:300]),
                    {"kind": "lifecycle", "record": rec, "features": fs})
            os.remove(outp)
        os.remove(scen)
    # decoder scratch buffer: every decode in a dedicated pass with slider paths of failing lines (replayed through C06 pools)
    binp = common.build_harness("")
    outp = os.path.join(common.OUT, "pathbuf_%s_%d.json" % (tier, pid))
    p = run_or_crash(res, "decoder slider-path scratch buffers", binp, ["pathbuf-replay", outp, "--tier", tier])
    if p is not None:
        log(p.stdout.strip().splitlines()[-1])
        out = json.load(open(outp))
        res.cov["traces_validated_against_impl"] += out["cases"]
        for rec in out["records"][:6]:
            res.violation("decoder slider-path scratch buffers: %s: %s" % (rec["what"], rec["text"][:400]), {"kind": "pathbuf", "record": rec})
        os.remove(outp)
    if tier == "thorough":
        miri(res)
    native_driver(res)
    res.cov["exhaustive"] = True
    res.assumptions += [
        "TLA+ cannot see memory: each unsafe block's precondition is a state invariant of the model (value entries sign-positive, no zero run at transmute, zero counts >= 1, referent never moves) and the replay compares the real entries / results after every enumerated op sequence and lifecycle",
        "lifecycle moves (Box, Vec growth, swap, thread hand-over under the sync feature, drop midway) are performed on real calculators and their outputs compared with an undisturbed run",
        "Miri (tree borrows) runs only in the thorough tier, as an observer",
    ]
    return res.finish()


def native_driver(res):
    """the Miri driver, run natively: release (results) and dev profile (debug assertions: the standard library checks the
    preconditions of `new_unchecked`, `get_unchecked`, ... and aborts)"""
    scen = os.path.join(common.OUT, "miri_native_%d.ndjson" % os.getpid())
    common.run_harness(common.build_harness(""), ["miri-scenarios", scen])
    for profile in ("release", "dev"):
        binp = common.build_harness("", profile)
        p = common.run_harness(binp, ["miri-run", scen], check=False, env={"VERIF_THREADS": "1"})
        if p.returncode != 0:
            res.violation("unsafe-code driver fails natively (%s profile, exit %d): %s" % (profile, p.returncode, (p.stdout or "")[-1500:]),
                          {"kind": "miri", "profile": profile, "output": (p.stdout or "")[-4000:]})
        else:
            res.cov["native_driver_" + profile] = (p.stdout.strip().splitlines() or ["ok"])[-1]
    os.remove(scen)


def miri(res):
    """UB observer: the lifecycle and StrainsVec replays of a small scenario file under Miri (tree borrows)."""
    import subprocess
    scen = os.path.join(common.OUT, "miri_%d.ndjson" % os.getpid())
    # a small, fixed selection written by the harness itself
    binp = common.build_harness("")
    common.run_harness(binp, ["miri-scenarios", scen])
    env = dict(os.environ)
    env["MIRIFLAGS"] = "-Zmiri-tree-borrows -Zmiri-disable-isolation"
    env["CARGO_NET_OFFLINE"] = "true"
    env["VERIF_THREADS"] = "1"
    try:
        p = subprocess.run(["cargo", "+nightly", "miri", "run", "--target-dir", "target-miri", "--", "miri-run", scen],
                           cwd=common.HARNESS, env=env, capture_output=True, text=True, timeout=5400)
    except subprocess.TimeoutExpired:
        res.notes.append("miri timed out; skipped")
        return
    os.remove(scen)
    if "Undefined Behavior" in p.stderr or "error: unsupported operation" in p.stderr and "Undefined" in p.stderr:
        res.violation("Miri reports undefined behaviour:\n" + p.stderr[-3000:], {"kind": "miri", "stderr": p.stderr[-6000:]})
    elif p.returncode != 0:
        res.notes.append("miri run did not complete (rc=%d): %s" % (p.returncode, p.stderr[-400:]))
        log("NOTE: miri run did not complete (rc=%d); treated as skipped" % p.returncode)
    else:
        res.cov["miri"] = "completed: " + (p.stdout.strip().splitlines() or ["ok"])[-1]
        log("miri: " + res.cov["miri"])


def run_c16(tier):
    res = Result("C16", tier, "model_checking")
    binp = common.build_harness()
    pid = os.getpid()
    cfgp = os.path.join(common.OUT, "MC_StrainSkill_%s_%d.cfg" % (tier, pid))
    with open(cfgp, "w") as f:
        f.write("CONSTANTS\n  MaxObjs = %d\nINIT Init\nNEXT Next\nINVARIANT ClosedFormInv\nINVARIANT Printer\nCHECK_DEADLOCK FALSE\n" % (4 if tier == "quick" else 6))
    r = common.run_tlc("MC_StrainSkill", cfgp, workers=6 if tier == "quick" else 14, timeout=7200, name="MC_StrainSkill_%s" % tier, xmx="12g")
    res.add_tlc(r)
    os.remove(cfgp)
    if not r["ok"]:
        res.violation("TLC: section machine violates %s" % (r["violated"] or "a property"), {"kind": "tlc", "log_tail": common.tail_nonreplay(r["text"], 60)})
        return res.finish()
    scen = os.path.join(common.OUT, "strains_%s_%d.ndjson" % (tier, pid))
    common.extract_replay(r["log"], scen)
    os.remove(r["log"])
    outp = scen + ".res.json"
    p = common.run_harness(binp, ["strains-replay", scen, outp, "--tier", tier], timeout=7200)
    log(p.stdout.strip().splitlines()[-1])
    out = json.load(open(outp))
    res.cov["traces_validated_against_impl"] += out["scenarios"] * 4 + out["rich_maps"]
    res.cov["samples"] = out["samples"]
    res.cov["exhaustive"] = True
    for rec in out["records"][:12]:
        res.violation("%s: %s: expected %s observed %s" % (rec["what"], rec["label"][:300], rec.get("expected"), rec.get("observed")),
                      {"kind": "strains", "record": rec})
    res.assumptions += [
        "section counts: exhaustive over circle-only maps of the stated size, gaps at and around section edges, long breaks, equal times, negative start times, clock rates 1/2, 1, 2",
        "re-aggregation is computed from the RETURNED peaks: catch sqrt(sum w^i p_i)*4.59 with w = 0.94, mania sum*0.018 with w = 0.9 (relative tolerance 1e-12), osu flashlight sqrt(sum)*0.0675 with the TD/RX/AP factors (1e-9: order of summation)",
        "richer maps (sliders, spinners, holds, breaks, prefixes, mods, converts) are seeded samples",
    ]
    for f in (scen, outp):
        os.remove(f)
    return res.finish()


def replay(prop, obj):
    log(json.dumps(obj["replay"], indent=1)[:4000])
    log("re-run ./check %s to re-evaluate on the current tree" % prop)
    return 2


REGISTRY = {"C10": run_c10, "C11": run_c11, "C16": run_c16}
REPLAY_KINDS = {"strainsvec", "feature-dump", "lifecycle", "pathbuf", "miri", "strains"}
