"""C05 (no panic / hang) and C09 (finite, non-negative): spec/Corners.tla, MC_Corners.tla; harness corner-replay."""
import json
import os
import resource
import subprocess
import time

import common
from common import Result, log

STALL_S = 60          # CPU seconds a single CALL may take at most (budget of the property: "a small time"); the harness writes a heartbeat after calls
MEM_BYTES = 6 * 1024 ** 3
WALL_BACKSTOP_S = 600  # ... and this much wall-clock time without progress whatever the CPU use (blocked process)
MAX_HANGS = 6         # stop a family after this many hanging / dying maps


def limits():
    resource.setrlimit(resource.RLIMIT_AS, (MEM_BYTES, MEM_BYTES))


def cpu_seconds(pid):
    """CPU time (user + system) the process has used; the hang budget is counted in CPU seconds of the worker, so that a loaded
    machine does not turn a slow call into a 'hang' (a spinning loop burns CPU; a blocked process is caught by the wall-clock backstop)"""
    try:
        f = open("/proc/%d/stat" % pid).read().rsplit(")", 1)[1].split()
        return (int(f[11]) + int(f[12])) / os.sysconf("SC_CLK_TCK")
    except (OSError, IndexError, ValueError):
        return 0.0


def run_slices(binp, scen, n, c09, nproc, label, random_family=False):
    """Run corner-replay over [0, n) in nproc parallel slices with a stall watchdog per slice.
    Returns (calls, problems, hangs)."""
    pid = os.getpid()
    # interleaved slices (index % nproc == k): expensive maps are neighbours in the enumeration order
    state = []
    for k in range(nproc):
        state.append({"k": k, "from": 0, "to": n if k < n else 0, "proc": None, "prog": None, "out": None, "last": time.time(), "cur": 0, "size": 0})
    calls, problems, hangs, skipped = 0, [], [], 0

    def start(s):
        s["prog"] = os.path.join(common.OUT, "corner_%s_%d_%d.progress" % (label, pid, s["k"]))
        s["out"] = os.path.join(common.OUT, "corner_%s_%d_%d.json" % (label, pid, s["k"]))
        for f in (s["prog"], s["out"]):
            if os.path.exists(f):
                os.remove(f)
        if random_family:
            args = [binp, "random-replay", str(n), s["out"], s["prog"], "--from", str(s["from"]), "--to", str(s["to"]), "--mod", str(nproc), "--rem", str(s["k"])]
        else:
            args = [binp, "corner-replay", scen, s["out"], s["prog"], "--from", str(s["from"]), "--to", str(s["to"]), "--mod", str(nproc), "--rem", str(s["k"])] + (["--c09"] if c09 else [])
        s["proc"] = subprocess.Popen(args, stdout=subprocess.PIPE, stderr=subprocess.STDOUT, text=True, preexec_fn=limits)
        s["last"] = time.time()
        s["cpu_last"] = 0.0
        s["cur"] = s["from"]
        s["size"] = 0

    for s in state:
        if s["from"] < s["to"]:
            start(s)
    active = [s for s in state if s["proc"]]
    while active:
        time.sleep(0.25)
        if len(hangs) >= MAX_HANGS:
            # enough evidence: every further hang costs STALL_S seconds and a restart
            for s in active:
                s["proc"].kill()
                s["proc"].wait()
                for f in (s["prog"], s["out"]):
                    if f and os.path.exists(f):
                        os.remove(f)
            break
        for s in list(active):
            rc = s["proc"].poll()
            cur = s["cur"]
            size = s["size"]
            try:
                size = os.path.getsize(s["prog"])
                if size != s["size"]:
                    with open(s["prog"], "rb") as pf:
                        pf.seek(max(0, size - 64))
                        lines = pf.read().decode(errors="replace").split()
                    if lines and lines[-1] != "done":
                        cur = int(lines[-1])
            except (OSError, ValueError):
                pass
            # alive = the progress file grew: a new map, or the heartbeat of a finished call within the current map
            if cur != s["cur"] or size != s["size"]:
                s["cur"] = cur
                s["size"] = size
                s["last"] = time.time()
                s["cpu_last"] = cpu_seconds(s["proc"].pid)
            if rc is not None:
                if rc == 0 and os.path.exists(s["out"]):
                    o = json.load(open(s["out"]))
                    calls += o["calls"]
                    skipped += o.get("skipped", 0)
                    problems += o["records"]
                    active.remove(s)
                else:
                    # the process died (abort, out of memory, stack overflow): the current map is the culprit
                    hangs.append({"index": s["cur"], "what": "process died (rc=%s)" % rc, "output": (s["proc"].stdout.read() or "")[-800:]})
                    s["from"] = s["cur"] + 1
                    if s["from"] < s["to"]:
                        start(s)
                    else:
                        active.remove(s)
                for f in (s["prog"], s["out"]):
                    if f and os.path.exists(f) and s not in active:
                        os.remove(f)
            elif cpu_seconds(s["proc"].pid) - s["cpu_last"] > STALL_S or time.time() - s["last"] > WALL_BACKSTOP_S:
                s["proc"].kill()
                s["proc"].wait()
                hangs.append({"index": s["cur"], "what": "no progress for %d CPU seconds (hang)" % STALL_S})
                s["from"] = s["cur"] + 1
                if s["from"] < s["to"]:
                    start(s)
                else:
                    active.remove(s)
    return calls, problems, hangs, skipped


def enumerate_corners(res, domain, maxobjs, rich, tier, tag):
    pid = os.getpid()
    cfgp = os.path.join(common.OUT, "MC_Corners_%s_%s_%d.cfg" % (domain, tier, pid))
    with open(cfgp, "w") as f:
        f.write('CONSTANTS\n  Domain = "%s"\n  MaxObjs = %d\n  Rich = %s\nINIT Init\nNEXT Next\nINVARIANT Printer\nCHECK_DEADLOCK FALSE\n' % (domain, maxobjs, rich))
    r = common.run_tlc("MC_Corners", cfgp, workers=8, timeout=7200, name="MC_Corners_%s_%s_%s" % (tag, domain, tier), xmx="12g")
    res.add_tlc(r)
    os.remove(cfgp)
    if not r["ok"]:
        raise common.ToolError("MC_Corners failed: " + common.tail_nonreplay(r["text"]))
    scen = os.path.join(common.OUT, "corners_%s_%s_%s_%d.ndjson" % (tag, domain, tier, pid))
    n = common.extract_replay(r["log"], scen)
    os.remove(r["log"])
    return scen, n


def report(res, prop, scen, problems, hangs, kinds):
    lines = None
    shown = {}
    for p in problems:
        what = p["what"]
        if not what.startswith(kinds):
            continue
        key = what + "|" + p["detail"].split(":")[0][:60]
        shown[key] = shown.get(key, 0) + 1
        if shown[key] <= 2:
            res.violation("%s: %s on map\n%s" % (what, p["detail"][:400], p["osu_text"]),
                          {"kind": "corner", "what": what, "detail": p["detail"], "scenario": p["scenario"], "osu_text": p["osu_text"]})
    if prop == "C05":
        for h in hangs:
            lines = lines or open(scen).read().splitlines()
            sc = json.loads(lines[h["index"]])
            res.violation("%s on corner map %s" % (h["what"], json.dumps(sc)), {"kind": "corner", "what": h["what"], "scenario": sc, "output": h.get("output", "")})


def run_c05(tier):
    res = Result("C05", tier, "exploration")
    evaluations = 0
    distinct = 0
    samples = []
    plan = [("maniaconv", 2 if tier == "quick" else 3, "FALSE" if tier == "quick" else "TRUE", "release"),
            ("adversarial", 1 if tier == "quick" else 2, "FALSE", "release"),
            ("realistic", 1 if tier == "quick" else 2, "FALSE", "release"),        # (2, rich) would be 10 million maps
            ("realistic", 1 if tier == "quick" else 2, "FALSE", "dev"),
            ("runs", 1, "FALSE", "release"), ("runs", 1, "FALSE", "dev")]        # stacks / streams of 3, 8, 40 equal objects
    for domain, maxobjs, rich, profile in plan:
        scen, n = enumerate_corners(res, domain, maxobjs, rich, tier, "C05")
        binp = common.build_harness("", profile)
        t0 = time.time()
        calls, problems, hangs, skipped = run_slices(binp, scen, n, False, 14, "C05_%s_%s" % (domain, profile))
        log("corner-replay [%s, %s profile]: maps=%d (outside the precondition: %d) calls=%d problems=%d hangs=%d (%.0fs)" % (domain, profile, n, skipped, calls, len(problems), len(hangs), time.time() - t0))
        evaluations += calls
        distinct += n - skipped
        res.cov["maps_outside_precondition"] = res.cov.get("maps_outside_precondition", 0) + skipped
        report(res, "C05", scen, problems, hangs, ("panic", "decode_error"))
        samples.append(json.loads(open(scen).readline()))
        os.remove(scen)
    # second family: structured-random maps and mutated fixtures (seeded), release and dev profile
    nrand = 3000 if tier == "quick" else 60000
    for profile in ("release", "dev"):
        binp = common.build_harness("", profile)
        t0 = time.time()
        nr = nrand if profile == "release" else nrand // 3
        calls, problems, hangs, skipped = run_slices(binp, None, nr, False, 14, "C05_random_%s" % profile, random_family=True)
        log("random-replay [%s profile]: maps=%d (outside the precondition: %d) calls=%d problems=%d hangs=%d (%.0fs)" % (profile, nr, skipped, calls, len(problems), len(hangs), time.time() - t0))
        evaluations += calls
        distinct += nr - skipped
        # adversarial settings (clock rate 0.01 / 100, overrides +-20) are release-only: drop overflow panics of those in dev
        if profile == "dev":
            problems = [p for p in problems if not any(x in p["detail"] for x in ("rate 0.01", "rate 100"))]
        report(res, "C05", None, problems, [], ("panic",))
        for h in hangs:
            res.violation("%s on structured-random map #%d (seed %d, %s profile); regenerate with: verif-harness random-replay %d out.json prog --from %d --to %d" % (
                h["what"], h["index"], common.seed(), profile, nr, h["index"], h["index"] + 1), {"kind": "corner", "what": h["what"], "random_index": h["index"], "profile": profile})
    # third part, derived rather than observed: the mania pattern generators cannot reach `assert!(has_valid_column)`, an endless
    # column search or a wrapped column, whatever the RNG draws (ManiaPatterns.tla; bound to the code by C19's trace validation)
    pid = os.getpid()
    for (k, maxspan) in ([(4, 3), (5, 3)] if tier == "quick" else [(1, 3), (2, 5), (3, 5), (4, 5), (5, 5), (6, 3), (7, 3), (8, 3), (9, 1), (10, 1)]):
        cfgp = os.path.join(common.OUT, "MC_ManiaPatterns_C05_%d_%s_%d.cfg" % (k, tier, pid))
        with open(cfgp, "w") as f:
            f.write("CONSTANTS\n  K = %d\n  MaxSpan = %d\nINIT Init\nNEXT Next\nVIEW StateView\nINVARIANT NoPanicInRange\nINVARIANT PrevInRange\nCHECK_DEADLOCK FALSE\n" % (k, maxspan))
        r = common.run_tlc("MC_ManiaPatterns", cfgp, workers=8 if tier == "quick" else 14, timeout=900 if tier == "quick" else 6 * 3600,
                           name="MC_ManiaPatterns_C05_%d_%s" % (k, tier), xmx="8g")
        res.add_tlc(r)
        os.remove(cfgp)
        try:
            os.remove(r["log"])
        except OSError:
            pass
        if not r["ok"]:
            res.violation("TLC: the mania pattern generators (K=%d) can reach %s" % (k, r["violated"] or "an error"),
                          {"kind": "tlc", "log_tail": common.tail_nonreplay(r["text"], 80)})
    # ... and the introsort of the slider nested objects cannot leave its slice for any tie pattern (CsharpSort.tla, replayed)
    from checks import utilsrep
    utilsrep.run_utils(res, tier, common.build_harness("", "release"), which=("csharpsort",))
    res.cov.update({"evaluations": evaluations, "distinct_nontrivial": distinct, "samples": samples,
                    "rule": "TLC enumerates every map of the corner alphabet (Corners.tla) up to the object bound x global timing/difficulty setups x 4 modes; each distinct enumerated map counts once (all have at least one non-default corner class); evaluations = public calls executed on them (decode, check_suspicion, bpm, convert, difficulty, strains, attributes, gradual iteration, performance with 3-4 states, gradual performance) under the settings of the domain; plus a seeded family of structured-random maps and mutated fixture windows (each counted once) converted under every key mod"})
    res.assumptions += [
        "exploration: termination and absence of panics are observed on the enumerated corners, not derived - except for the mania pattern generators, whose assertion / column-range freedom is model-checked over every reachable (previous pattern, stair) state per key count; maps failing check_suspicion() are skipped (precondition)",
        "adversarial domain in release only; realistic domain in release and with overflow checks (dev profile)",
        "watchdog: a call that uses more than %d CPU seconds (or blocks for %d s), or kills the process, counts as a hang; RLIMIT_AS %d GiB" % (STALL_S, WALL_BACKSTOP_S, MEM_BYTES // 1024 ** 3),
    ]
    return res.finish()


def run_c09(tier):
    res = Result("C09", tier, "exploration")
    evaluations = 0
    distinct = 0
    samples = []
    plan = [("degenerate", 2 if tier == "quick" else 3, "FALSE"), ("realistic", 1 if tier == "quick" else 2, "FALSE"), ("runs", 1, "FALSE")]
    for domain, maxobjs, rich in plan:
        scen, n = enumerate_corners(res, domain, maxobjs, rich, tier, "C09")
        binp = common.build_harness("", "release")
        t0 = time.time()
        calls, problems, hangs, skipped = run_slices(binp, scen, n, True, 14, "C09_%s" % domain)
        log("corner-replay --c09 [%s]: maps=%d calls=%d problems=%d hangs=%d (%.0fs)" % (domain, n, calls, len(problems), len(hangs), time.time() - t0))
        evaluations += calls
        distinct += n - skipped
        report(res, "C09", scen, problems, hangs, ("class",))
        samples.append(json.loads(open(scen).readlines()[min(n - 1, 50)]))
        os.remove(scen)
    # performance side: every score-state class consistent with a prefix, on real attributes of every mode
    pid = os.getpid()
    cfgp = os.path.join(common.OUT, "MC_PerfStates_%s_%d.cfg" % (tier, pid))
    with open(cfgp, "w") as f:
        f.write("CONSTANTS\n  Rich = %s\nINIT Init\nNEXT Next\nINVARIANT Printer\nCHECK_DEADLOCK FALSE\n" % ("FALSE" if tier == "quick" else "TRUE"))
    r = common.run_tlc("MC_PerfStates", cfgp, workers=8, timeout=3600, name="MC_PerfStates_%s" % tier)
    res.add_tlc(r)
    os.remove(cfgp)
    scen = os.path.join(common.OUT, "perfstates_%s_%d.ndjson" % (tier, pid))
    nclasses = common.extract_replay(r["log"], scen)
    os.remove(r["log"])
    outp = scen + ".res.json"
    p = common.run_harness(common.build_harness("", "release"), ["perfgrid-replay", scen, outp, "--tier", tier], timeout=7200)
    log(p.stdout.strip().splitlines()[-1])
    out = json.load(open(outp))
    evaluations += out["evaluations"]
    distinct += nclasses
    for rec in out["records"][:20]:
        res.violation("performance %s: %s on %s mods %s lazer %s state %s" % (rec["what"], rec["detail"], rec["map"], rec["mods"], rec["lazer"], rec["state"]),
                      {"kind": "perfgrid", "record": rec})
    os.remove(scen)
    os.remove(outp)
    res.cov.update({"evaluations": evaluations, "distinct_nontrivial": distinct, "samples": samples,
                    "rule": "TLC enumerates degenerate shapes (empty, single objects of each kind, all spinners, stacked, zero and huge gaps) and realistic corner maps; each distinct map counts once; every f64 of difficulty attributes, strains and performance attributes is projected to {Zero, Pos, Neg, NaN, Inf} under mods x clock rates {0.5,1,2} x AR/CS/OD/HP overrides {none,0,11} x states (zero, full, all-miss) and accuracy-based builders; plus every score-state class of MC_PerfStates (dominant result x ones x third x combo class x tick class x prefix length) on the fixtures and converts under mod combinations and both origins (each class counted once)"})
    res.assumptions += [
        "exploration: finiteness of powf / ln / erf_inv on all realistic geometry is observed on the enumerated corners, not derived by the model",
        "-0.0 counts as zero; accuracies in [0,1] are decided exactly by C12/C13 (ScoreGen.tla)",
    ]
    return res.finish()


def replay(prop, obj):
    log(json.dumps(obj["replay"], indent=1)[:4000])
    log("re-run ./check %s to re-evaluate on the current tree" % prop)
    return 2


REGISTRY = {"C05": run_c05, "C09": run_c09}
REPLAY_KINDS = {"corner"}
