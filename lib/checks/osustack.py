"""OsuStacking.tla: the two osu! stacking passes (src/osu/convert.rs). MC_OsuStacking enumerates object lists over a small
alphabet and predicts the stack heights; `stack-replay` renders each list as a v14 and a v5 map and compares the heights the
hook reports for the whole map, every one-shot partial play and the gradual calculators (C02 / C03: a partial play sees the
heights of the WHOLE map; C05: no panic in the index walks)."""
import json
import os

import common
from common import log

# (name, MaxLen, Gaps, CirclePos, Sliders override, SpinPos, Thr)
TIERS = {
    "quick": [
        ("full3", 3, "{0, 300, 700}", "{0, 2, 4, 100}", "SlidersFull", "{0}", 600),
        ("small4", 4, "{0, 150, 400}", "{0, 2, 100}", "SlidersSmall", "{0}", 300),
        ("tiny5", 5, "{0, 300, 700}", "{0, 100}", "SlidersTiny", "{}", 600),
    ],
    "thorough": [
        ("full4", 4, "{0, 300, 700}", "{0, 2, 4, 100}", "SlidersFull", "{0}", 600),
        ("small5", 5, "{0, 400}", "{0, 2, 100}", "SlidersSmall", "{0}", 300),
        ("tiny6", 6, "{0, 300, 700}", "{0, 100}", "SlidersTiny", "{}", 600),
        ("wide3", 3, "{0, 600, 1200, 1300}", "{0, 2, 4, 100}", "SlidersFull", "{0, 100}", 1200),
    ],
}


def run_stack(res, tier, binp):
    pid = os.getpid()
    for (name, maxlen, gaps, cpos, sliders, spos, thr) in TIERS[tier]:
        cfgp = os.path.join(common.OUT, "MC_OsuStacking_%s_%s_%d.cfg" % (name, tier, pid))
        with open(cfgp, "w") as f:
            f.write("CONSTANTS\n  MaxLen = %d\n  Gaps = %s\n  CirclePos = %s\n  Sliders <- %s\n  SpinPos = %s\n  Thr = %d\n"
                    "INIT Init\nNEXT Next\nINVARIANT BoundedOk\nINVARIANT Printer\nCHECK_DEADLOCK FALSE\n" % (maxlen, gaps, cpos, sliders, spos, thr))
        r = common.run_tlc("MC_OsuStacking", cfgp, workers=4 if tier == "quick" else 12, timeout=7200, name="MC_OsuStacking_%s_%s" % (name, tier))
        res.add_tlc(r)
        os.remove(cfgp)
        if not r["ok"]:
            res.violation("TLC: the osu! stacking model violates %s (%s)" % (r["violated"] or "a property", name), {"kind": "tlc", "log_tail": common.tail_nonreplay(r["text"], 60)})
            os.remove(r["log"])
            continue
        scen = os.path.join(common.OUT, "osustack_%s_%s_%d.ndjson" % (name, tier, pid))
        n = common.extract_replay(r["log"], scen)
        os.remove(r["log"])
        if n != r["distinct"] - 1:
            raise common.ToolError("scenario lines (%d) != distinct non-empty states (%d)" % (n, r["distinct"] - 1))
        outp = scen + ".res.json"
        p = common.run_harness(binp, ["stack-replay", scen, outp], timeout=7200)
        log("[%s] %s" % (name, p.stdout.strip().splitlines()[-1]))
        out = json.load(open(outp))
        for fpath in (scen, outp):
            os.remove(fpath)
        if out["machinery"]:
            raise common.ToolError("stack-replay could not build its maps: %s" % out["records"][:2])
        if out["unstable"] == 0:
            raise common.ToolError("stack-replay [%s]: no scenario whose prefix stacks differently on its own (vacuous for partial plays)" % name)
        res.cov["traces_validated_against_impl"] += out["scenarios"]
        res.cov["stack_height_checks"] = res.cov.get("stack_height_checks", 0) + out["checks"]
        res.cov["stack_prefix_sensitive_maps"] = res.cov.get("stack_prefix_sensitive_maps", 0) + out["unstable"]
        for rec in out["records"][:6]:
            res.violation("osu! stack heights (format v%s) %s: expected %s observed %s\n%s" % (rec["version"], rec["what"], rec["expected"][:300], rec["observed"][:300], rec["osu_text"][-300:]),
                          {"kind": "osu-stack", "record": rec})
    res.assumptions.append("stack heights: positions on one line, 'close' = nearer than 3 px; slider ends exact (0.125 px/ms); AR 5 without mods")
