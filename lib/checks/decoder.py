"""C06: decoder (spec/Decoder.tla, MC_Decoder.tla, TraceDecoder.tla)."""
import json
import os

import common
from common import Result, log

ASPECTS = {
    "quick": {"cp": (3, 3), "obj": (4, 3), "diff": (3, 3)},        # aspect -> (MaxLines, NTimes)
    "thorough": {"cp": (4, 3), "obj": (6, 3), "diff": (5, 3)},
}


def run(prop, tier):
    res = Result(prop, tier, "model_checking")
    binp = common.build_harness()
    pid = os.getpid()
    samples = []
    for aspect, (maxlines, ntimes) in ASPECTS[tier].items():
        cfgp = os.path.join(common.OUT, "MC_Decoder_%s_%s_%d.cfg" % (aspect, tier, pid))
        with open(cfgp, "w") as f:
            f.write('CONSTANTS\n  Aspect = "%s"\n  MaxLines = %d\n  NTimes = %d\n' % (aspect, maxlines, ntimes))
            f.write("INIT Init\nNEXT Next\nVIEW StateView\nINVARIANT WellFormedInv\nINVARIANT Printer\nPROPERTY BadIsNoop\nCHECK_DEADLOCK FALSE\n")
        r = common.run_tlc("MC_Decoder", cfgp, workers=6 if tier == "quick" else 14, timeout=900 if tier == "quick" else 14400,
                           name="MC_Decoder_%s_%s" % (aspect, tier), xmx="12g")
        res.add_tlc(r)
        if not r["ok"]:
            res.violation("TLC: decoder model (%s aspect) violates %s" % (aspect, r["violated"] or "a property"),
                          {"kind": "tlc", "log_tail": common.tail_nonreplay(r["text"], 80)})
            continue
        scen = os.path.join(common.OUT, "decoder_%s_%s_%d.ndjson" % (aspect, tier, pid))
        n = common.extract_replay(r["log"], scen)
        os.remove(r["log"])
        if n != r["distinct"]:
            raise common.ToolError("scenario lines (%d) != distinct states (%d)" % (n, r["distinct"]))
        outp = scen + ".res.json"
        p = common.run_harness(binp, ["decode-replay", scen, outp])
        log("[%s] %s" % (aspect, p.stdout.strip().splitlines()[-1]))
        out = json.load(open(outp))
        res.cov["traces_validated_against_impl"] += out["scenarios"]
        res.cov["decodes"] = res.cov.get("decodes", 0) + out["decodes"]
        samples += out["samples"][:1]
        for rec in out["records"][:10]:
            res.violation("decode %s: file\n%s\n%s" % (rec["what"], rec["text"], rec["expected"][:600]),
                          {"kind": "decode", "lines": rec["lines"], "text": rec["text"], "what": rec["what"],
                           "model_final": rec["model_final"], "aspect": aspect})
        for f in (cfgp, scen, outp):
            try:
                os.remove(f)
            except OSError:
                pass
    res.cov["samples"] = samples
    res.cov["exhaustive"] = True
    # the two sorts the decoder ends with (tandem sort of objects and sounds, legacy sort of mania maps)
    from checks import utilsrep
    utilsrep.run_utils(res, tier, binp, which=("tandem", "legacysort"))
    utilsrep.run_ctrlpoints(res, tier, binp)
    res.cov["bounds"] = {a: {"max_lines": v[0], "time_values": v[1]} for a, v in ASPECTS[tier].items()}
    # ---- implementation -> specification
    trace = os.path.join(common.OUT, "decoder_trace_%s_%d.ndjson" % (tier, pid))
    p = common.run_harness(binp, ["decode-record", trace, "--tier", tier])
    log(p.stdout.strip().splitlines()[-1])

    def corrupt(events):
        idx = [i for i, e in enumerate(events) if e.get("ok") and len(e["map"]["objs"]) >= 2]
        if not idx:
            return None
        i = idx[(common.seed() * 5 + 1) % len(idx)]
        e = json.loads(json.dumps(events[i]))
        if common.seed() % 2 == 0:
            e["map"]["objs"][0]["t"] = e["map"]["objs"][-1]["t"] + 1     # out of order
        else:
            e["map"]["sounds"] = e["map"]["sounds"][:-1]                 # a sound lost
        return [e]

    ok, line, evtxt = common.trace_check(res, "TraceDecoder", "TraceDecoder.cfg", trace, corrupt, "%s_%s" % (prop, tier))
    events = [json.loads(l) for l in open(trace)]
    cur = trace
    rounds = 0
    while not ok and rounds < 8:
        ev = events[line - 1]
        res.violation("decoded map rejected by TraceDecoder: source %s: %s" % (ev["src"], json.dumps(ev)[:500]),
                      {"kind": "decode-trace", "event": ev})
        events = events[line:]
        if not events:
            break
        cur = trace + ".rest"
        with open(cur, "w") as f:
            f.write("\n".join(json.dumps(e) for e in events) + "\n")
        ok, line, evtxt = common.trace_check(res, "TraceDecoder", "TraceDecoder.cfg", cur, lambda e: None, "%s_%s_r%d" % (prop, tier, rounds))
        rounds += 1
    res.cov["traces_validated_against_impl"] += sum(1 for _ in open(trace))
    res.assumptions += [
        "exhaustive over line sequences of the stated length per aspect (control points / objects / difficulty) and 3 time values incl. a negative one",
        "only the slice of .osu syntax that decode.rs reads is modelled; slider path parsing is observed only through the control point count",
        "bad lines are instantiated from a fixed pool per section, selected by seed",
    ]
    for f in (trace, trace + ".rest"):
        try:
            os.remove(f)
        except OSError:
            pass
    return res.finish()


def replay(prop, obj):
    rp = obj["replay"]
    binp = common.build_harness()
    pid = os.getpid()
    if rp.get("kind") == "decode":
        scen = os.path.join(common.OUT, "replay_dec_%d.ndjson" % pid)
        with open(scen, "w") as f:
            f.write(json.dumps({"aspect": rp["aspect"], "lines": rp["lines"], "final": rp["model_final"]}) + "\n")
        outp = scen + ".res.json"
        common.run_harness(binp, ["decode-replay", scen, outp])
        out = json.load(open(outp))
        log("file:\n" + rp["text"])
        for rec in out["records"]:
            log("MISMATCH %s: %s" % (rec["what"], rec["expected"]))
        if out["records"]:
            log("VIOLATION property=%s replay=(replayed)" % prop)
            return 1
        log("replay: decoded map equals the model's on the current tree")
        return 0
    log(json.dumps(rp, indent=1)[:3000])
    return 2


REGISTRY = {"C06": lambda tier: run("C06", tier)}
REPLAY_KINDS = {"decode", "decode-trace"}
