"""Utils.tla / LegacySort.tla: TandemSorter, LimitedQueue and the legacy mania sort, shared by C06 and C19."""
import json
import os

import common
from common import log

# (module, constants, invariants, replayable on the real code)
def _runs(tier):
    q = tier == "quick"
    return [
        ("MC_Utils", {"Aspect": '"tandem"', "MaxLen": 7 if q else 9}, ["Inv"], True),
        ("MC_Utils", {"Aspect": '"queue"', "MaxLen": 16 if q else 24}, ["Inv"], True),
        ("MC_LegacySort", {"Aspect": '"sorted"', "MaxLen": 16 if q else 26, "NKeys": 4, "DepthThreshold": 32, "OverflowChecks": "TRUE"},
         ["ReferenceGood", "RustGood", "RustIsReference"], True),
        ("MC_LegacySort", {"Aspect": '"any"', "MaxLen": 7 if q else 9, "NKeys": 3, "DepthThreshold": 32, "OverflowChecks": "TRUE"},
         ["ReferenceGood"], True),
        # the .NET-style introsort of the slider nested objects: every sequence over two key values at the lengths right above
        # the insertion-sort threshold (ties everywhere: the unguarded scans lean on their sentinels) ...
        ("MC_CsharpSort", {"Aspect": '"csharpsort"', "MaxLen": 17 if q else 19, "MinLen": 17, "NKeys": 2, "Threshold": 16}, ["SortGood"], True),
        # ... and, model-only, the partition / heap code on short lists (threshold lowered to 3), three key values
        ("MC_CsharpSort", {"Aspect": '"csharpsort"', "MaxLen": 7 if q else 9, "MinLen": 0, "NKeys": 3, "Threshold": 3}, ["SortGood"], False),
        # the heap-sort fallback: reached in the code only after 32 nested partitions, so model-only
        ("MC_LegacySort", {"Aspect": '"sorted"', "MaxLen": 12 if q else 16, "NKeys": 3, "DepthThreshold": 2, "OverflowChecks": "TRUE"},
         ["ReferenceGood", "RustGood", "RustIsReference"], False),
    ]


def run_utils(res, tier, binp, which=("tandem", "queue", "legacysort")):
    """adds TLC runs + the replay on the real helpers to `res` (violations carry kind 'utils')"""
    pid = os.getpid()
    scen = os.path.join(common.OUT, "utils_%s_%s_%d.ndjson" % (res.prop if hasattr(res, "prop") else "x", tier, pid))
    total = 0
    with open(scen, "w") as sf:
        for k, (module, consts, invs, replayable) in enumerate(_runs(tier)):
            aspect = consts["Aspect"].strip('"')
            kind = aspect if module == "MC_Utils" else ("csharpsort" if module == "MC_CsharpSort" else "legacysort")
            if kind not in which:
                continue
            cfgp = os.path.join(common.OUT, "%s_%d_%s_%d.cfg" % (module, k, tier, pid))
            with open(cfgp, "w") as f:
                f.write("CONSTANTS\n" + "".join("  %s = %s\n" % kv for kv in consts.items() if not (module == "MC_CsharpSort" and kv[0] == "Aspect")))
                f.write("INIT Init\nNEXT Next\n" + "".join("INVARIANT %s\n" % i for i in invs) + "INVARIANT Printer\nCHECK_DEADLOCK FALSE\n")
            r = common.run_tlc(module, cfgp, workers=4, timeout=3600, name="%s_%d_%s" % (module, k, tier))
            res.add_tlc(r)
            os.remove(cfgp)
            if not r["ok"]:
                res.violation("TLC: %s (%s) violates %s" % (module, consts, r["violated"] or "a property"),
                              {"kind": "tlc", "log_tail": common.tail_nonreplay(r["text"], 60)})
                continue
            if replayable:
                part = scen + ".part"
                n = common.extract_replay(r["log"], part)
                if n != r["distinct"] and module != "MC_CsharpSort":        # MC_CsharpSort prints only the lengths at / above MinLen
                    raise common.ToolError("scenario lines (%d) != distinct states (%d)" % (n, r["distinct"]))
                sf.write(open(part).read())
                os.remove(part)
                total += n
            os.remove(r["log"])
    outp = scen + ".res.json"
    p = common.run_harness(binp, ["utils-replay", scen, outp])
    log(p.stdout.strip().splitlines()[-1])
    out = json.load(open(outp))
    if out.get("degraded"):
        res.cov["degraded"] = "internal helper API (TandemSorter / LimitedQueue / legacy sort) changed in /repo: the direct replay was skipped; the decoder / converter level parts still decide"
    res.cov["traces_validated_against_impl"] += out["scenarios"]
    res.cov["utils_scenarios"] = out["by_kind"]
    res.cov["utils_benign_conformance_differences"] = out["benign"]
    for rec in out["records"][:10]:
        res.violation("helper %s: keys %s hist %s: expected %s observed %s" % (rec["what"], rec["keys"], rec.get("hist"), rec["expected"][:300], rec["observed"][:300]),
                      {"kind": "utils", "record": rec})
    for f in (scen, outp):
        try:
            os.remove(f)
        except OSError:
            pass
    res.assumptions += [
        "helpers: TandemSorter on every key sequence up to the bound (3 key values, 4 applications), LimitedQueue<_, N> for N in {1,2,3,7} up to the bound, "
        "sort::osu_legacy on every non-decreasing key sequence up to the bound (the only inputs the library produces: a stable sort runs first) and, for conformance only, on every sequence up to a smaller bound",
        "the heap-sort fallback of the legacy sort (32 nested partitions) is checked in the model only",
    ]
    return total


def run_ctrlpoints(res, tier, binp):
    """ControlPoints.tla: the 'active control point' lookups (binary search + adjustment = declarative lookup, by TLC) replayed on
    the real functions for every strictly ordered list and query time."""
    pid = os.getpid()
    cfgp = os.path.join(common.OUT, "MC_ControlPoints_%s_%d.cfg" % (tier, pid))
    times = "{0, 10, 20, 30, 40, 50, 60, 70}" if tier == "quick" else "{0, 10, 20, 30, 40, 50, 60, 70, 80, 90, 100}"
    with open(cfgp, "w") as f:
        f.write("CONSTANTS\n  MaxLen = %d\n  Times = %s\nINIT Init\nNEXT Next\nINVARIANT Agree\nINVARIANT Printer\nCHECK_DEADLOCK FALSE\n" % (8 if tier == "quick" else 11, times))
    r = common.run_tlc("MC_ControlPoints", cfgp, workers=4, timeout=3600, name="MC_ControlPoints_%s" % tier)
    res.add_tlc(r)
    os.remove(cfgp)
    if not r["ok"]:
        res.violation("TLC: the control point lookup (binary search + adjustment) is not the declarative lookup: %s" % (r["violated"] or "a property"),
                      {"kind": "tlc", "log_tail": common.tail_nonreplay(r["text"], 60)})
        os.remove(r["log"])
        return
    scen = os.path.join(common.OUT, "ctrlpoints_%s_%d.ndjson" % (tier, pid))
    common.extract_replay(r["log"], scen)
    os.remove(r["log"])
    outp = scen + ".res.json"
    p = common.run_harness(binp, ["ctrlpoints-replay", scen, outp])
    log(p.stdout.strip().splitlines()[-1])
    out = json.load(open(outp))
    for f in (scen, outp):
        os.remove(f)
    res.cov["traces_validated_against_impl"] += out["scenarios"]
    res.cov["control_point_lookups"] = out["checks"]
    for rec in out["records"][:6]:
        res.violation("%s: points at %s, time %s: expected %s observed %s" % (rec["what"], rec["times"], rec["query"], rec["expected"], rec["observed"]), {"kind": "ctrlpoints", "record": rec})
