"""Registry of property checks."""
import json
import os

import common
from . import gradual, scoregen, decoder, convert, builders, modsrep, attrs, strains, session, corners

REGISTRY = {}
REGISTRY.update(gradual.REGISTRY)
REGISTRY.update(scoregen.REGISTRY)
REGISTRY.update(decoder.REGISTRY)
REGISTRY.update(convert.REGISTRY)
REGISTRY.update(builders.REGISTRY)
REGISTRY.update(modsrep.REGISTRY)
REGISTRY.update(attrs.REGISTRY)
REGISTRY.update(strains.REGISTRY)
REGISTRY.update(session.REGISTRY)
REGISTRY.update(corners.REGISTRY)


def setup():
    """Build the harness (default features) and parse every spec module with SANY."""
    for fs in ("", "raw_strains", "sync", "raw_strains,sync"):
        common.build_harness(fs)
    bad = 0
    for f in sorted(os.listdir(common.SPEC)):
        if f.endswith(".tla"):
            p = common.sh(["java", "-cp", "/opt/veriftools/tla/tla2tools.jar:/opt/veriftools/tla/CommunityModules-deps.jar",
                           "tla2sany.SANY", f], cwd=common.SPEC, check=False, timeout=300)
            ok = p.returncode == 0 and "Semantic errors" not in p.stdout and "Parse Error" not in p.stdout \
                and "Fatal errors" not in p.stdout and "Could not parse" not in p.stdout
            common.log("SANY %-28s %s" % (f, "ok" if ok else "FAILED"))
            if not ok:
                common.log(p.stdout[-2000:])
                bad += 1
    return 2 if bad else 0


def replay(path):
    obj = json.load(open(path))
    prop = obj["property"]
    kind = obj["replay"].get("kind")
    for mod in (gradual, scoregen, decoder, convert, builders, modsrep, attrs, strains, session, corners):
        if kind in mod.REPLAY_KINDS:
            return mod.replay(prop, obj)
    # kinds without a dedicated re-execution (TLC / Apalache counterexamples, helper / converter records): show the record
    common.log(json.dumps(obj["replay"], indent=1)[:6000])
    common.log("re-run ./check %s to re-evaluate on the current tree" % prop)
    return 2
