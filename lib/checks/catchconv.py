"""CatchConvert.tla: the osu!catch conversion (juice stream events -> fruits / droplets / tiny droplets, banana showers, the two
book-keeping modes of the object counter, RNG consumption, hard-rock offsets).  MC_CatchConvert checks at design level that the
regular counter with take = k equals the first k gradual rows; `catch-record` + TraceCatchConvert validate real conversions
(hook events `catch_obj` / `catch_done`, public attributes of one-shot / partial / gradual calculations) with a canary."""
import json
import os

import common
from common import log


def run_catch(res, tier, binp):
    pid = os.getpid()
    cfgp = os.path.join(common.OUT, "MC_CatchConvert_%s_%d.cfg" % (tier, pid))
    with open(cfgp, "w") as f:
        f.write("CONSTANTS\n  MaxLen = %d\nINIT Init0\nNEXT Next\nINVARIANT PrefixConsistent\nINVARIANT RowsArePalpable\nINVARIANT NoErr\nCHECK_DEADLOCK FALSE\n" % (4 if tier == "quick" else 5))
    r = common.run_tlc("MC_CatchConvert", cfgp, workers=6 if tier == "quick" else 12, timeout=7200, name="MC_CatchConvert_%s" % tier)
    res.add_tlc(r)
    os.remove(cfgp)
    if not r["ok"]:
        res.violation("TLC: the catch conversion model violates %s" % (r["violated"] or "a property"), {"kind": "tlc", "log_tail": common.tail_nonreplay(r["text"], 60)})
    os.remove(r["log"])
    # ---- implementation -> specification
    trace = os.path.join(common.OUT, "catch_trace_%s_%d.ndjson" % (tier, pid))
    p = common.run_harness(binp, ["catch-record", trace, "--tier", tier], timeout=3600)
    log(p.stdout.strip().splitlines()[-1])
    meta = json.load(open(trace + ".meta.json"))
    os.remove(trace + ".meta.json")
    for pn in meta["panics"][:3]:
        res.violation("catch conversion panicked: %s: %s" % (pn["label"], pn["panic"][:300]), {"kind": "catch-panic", "record": pn})
    if meta["sessions"] == 0:
        raise common.ToolError("catch-record recorded no conversion")

    def corrupt(events):
        s = common.seed()
        kinds = [("stream", "draws"), ("stream", "tiny"), ("done", "counts"), ("fruit", "lastpos"), ("shower", "n"), ("attrs", "tiny")]
        ev, field = kinds[s % len(kinds)]
        cand = [i for i, e in enumerate(events) if e["ev"] == ev and (field != "tiny" or ev != "stream" or len(e["evs"]) > 1)
                and (ev != "done" or e["mode"] == "regular") and (ev != "fruit" or e["haslast"])]
        if not cand:
            return None
        i = cand[(s * 5 + 2) % len(cand)]
        e = json.loads(json.dumps(events[i]))
        if ev == "stream" and field == "tiny":
            e["evs"][1]["tiny"] += 1
        elif field == "counts":
            e["counts"][2] += 1
        else:
            e[field] += 1
        return events[:i] + [e] + events[i + 1:]

    events = [json.loads(l) for l in open(trace)]
    cur = trace
    rounds = 0
    first = True
    while events and rounds < 6:
        ok, line, evtxt = common.trace_check(res, "TraceCatchConvert", "TraceCatchConvert.cfg", cur, corrupt if first else (lambda e: None), "catch_%s_%s_r%d" % (res.prop, tier, rounds))
        first = False
        if ok:
            break
        start = max(i for i in range(line) if events[i]["ev"] == "reset")
        res.violation("catch conversion is not a behaviour of CatchConvert: %s: event %d %s" % (events[start].get("label"), line - start, json.dumps(events[line - 1])[:600]),
                      {"kind": "catch-trace", "label": events[start].get("label"), "events": events[start:line][-12:]})
        # continue after the rejected conversion
        nxt = next((i for i in range(line, len(events)) if events[i]["ev"] == "reset"), len(events))
        events = events[nxt:]
        cur = trace + ".rest"
        with open(cur, "w") as f:
            f.write("\n".join(json.dumps(e) for e in events) + ("\n" if events else ""))
        rounds += 1
    res.cov["traces_validated_against_impl"] += meta["sessions"]
    res.cov["catch_conversions_recorded"] = meta["sessions"]
    for fpath in (trace, trace + ".rest"):
        try:
            os.remove(fpath)
        except OSError:
            pass
    res.assumptions.append("catch conversion: slider events (kind, time) are inputs (rosu-map's SliderEventsIter is a dependency); integer positions; hyper-dash numerics only as consistency facts")
