"""C01 (determinism / purity: spec/Session.tla, Bpm.tla) and C20 (threads: MC_Threads.tla)."""
import json
import os
import subprocess

import common
from common import Result, log


def corrupt_digest(events):
    idx = [i for i, e in enumerate(events) if i > 0]
    # a later occurrence of an already seen key with a different digest
    seen = {}
    for i, e in enumerate(events):
        if e["key"] in seen:
            c = dict(e)
            c["digest"] = "0" * 16
            return events[:i] + [c] + events[i + 1:]
        seen[e["key"]] = i
    return None


def validate(res, trace, label, what, prop):
    ok, line, evtxt = common.trace_check(res, "TraceSession", "TraceSession.cfg", trace, corrupt_digest, label)
    events = None
    rounds = 0
    cur = trace
    while not ok and rounds < 6:
        events = events or [json.loads(l) for l in open(trace)]
        ev = events[line - 1]
        first = next((e for e in events[:line - 1] if e["key"] == ev["key"]), None)
        res.violation("%s: call %s returned digest %s in %s but %s in %s%s" % (
            what, ev["key"], ev["digest"], ev["proc"], first["digest"] if first else "?", first["proc"] if first else "?",
            " (panic)" if ev.get("panic") else ""), {"kind": "session-trace", "event": ev, "first": first})
        events = events[:line - 1] + events[line:]
        cur = trace + ".rest"
        with open(cur, "w") as f:
            f.write("\n".join(json.dumps(e) for e in events) + "\n")
        ok, line, evtxt = common.trace_check(res, "TraceSession", "TraceSession.cfg", cur, lambda e: None, label + "_r%d" % rounds)
        rounds += 1
    if os.path.exists(trace + ".rest"):
        os.remove(trace + ".rest")


def run_c01(tier):
    res = Result("C01", tier, "model_checking")
    binp = common.build_harness()
    pid = os.getpid()
    # --- bpm: the choice among equally common beat lengths is a function of the timing points
    cfgp = os.path.join(common.OUT, "MC_Bpm_%s_%d.cfg" % (tier, pid))
    with open(cfgp, "w") as f:
        f.write("CONSTANTS\n  MaxPoints = %d\nINIT Init\nNEXT Next\nINVARIANT ChoiceInv\nINVARIANT Printer\nCHECK_DEADLOCK FALSE\n" % (4 if tier == "quick" else 6))
    r = common.run_tlc("MC_Bpm", cfgp, workers=4 if tier == "quick" else 12, timeout=3600, name="MC_Bpm_%s" % tier)
    res.add_tlc(r)
    os.remove(cfgp)
    if r["ok"]:
        scen = os.path.join(common.OUT, "bpm_%s_%d.ndjson" % (tier, pid))
        common.extract_replay(r["log"], scen)
        os.remove(r["log"])
        outp = scen + ".res.json"
        p = common.run_harness(binp, ["bpm-replay", scen, outp])
        log(p.stdout.strip().splitlines()[-1])
        out = json.load(open(outp))
        res.cov["traces_validated_against_impl"] += out["scenarios"]
        res.cov["bpm_tie_scenarios"] = out["tie_scenarios"]
        res.cov["samples"] = out["samples"]
        for rec in out["records"][:6]:
            res.violation("Beatmap::bpm: %s expected %s observed %s on\n%s" % (rec["what"], rec.get("expected"), rec.get("observed"), rec["text"]),
                          {"kind": "bpm", "record": rec})
        os.remove(scen)
        os.remove(outp)
    else:
        res.violation("TLC: bpm model violates %s" % (r["violated"] or "a property"), {"kind": "tlc", "log_tail": common.tail_nonreplay(r["text"], 60)})
    # --- call histories, executed in several processes
    cfgp = os.path.join(common.OUT, "MC_Session_%s_%d.cfg" % (tier, pid))
    hist = os.path.join(common.OUT, "session_%s_%d.ndjson" % (tier, pid))
    nh = 0
    open(hist, "w").close()
    # thorough: every history of 4 calls over the core alphabet and every history of 3 calls over the wide one (4 calls over the
    # wide alphabet are 700 000 histories x 8 processes: an hour of replay for little more than the two together)
    for (maxlen, wide) in ([(3, "FALSE")] if tier == "quick" else [(4, "FALSE"), (3, "TRUE")]):
        with open(cfgp, "w") as f:
            f.write("CONSTANTS\n  MaxLen = %d\n  Wide = %s\n  Lockstep = \"\"\nINIT Init\nNEXT Next\nINVARIANT KeysFunctional\nINVARIANT Printer\nCHECK_DEADLOCK FALSE\n" % (maxlen, wide))
        r = common.run_tlc("MC_Session", cfgp, workers=4 if tier == "quick" else 12, timeout=3600, name="MC_Session_%s_%d%s" % (tier, maxlen, wide))
        res.add_tlc(r)
        if not r["ok"]:
            res.violation("TLC: session model violates %s" % (r["violated"] or "a property"), {"kind": "tlc", "log_tail": common.tail_nonreplay(r["text"], 60)})
            return res.finish()
        part = hist + ".main"
        nh += common.extract_replay(r["log"], part)
        os.remove(r["log"])
        with open(hist, "a") as f:
            f.write(open(part).read())
        os.remove(part)
    # long histories over two calculators with different settings on the same map (every interleaving, incl. lockstep), per mode
    # ... and the histories over ONE map value overwritten in place by maps of the same size ("slot")
    for lm in ("m2", "m1", "m3", "m4", "slot"):
        with open(cfgp, "w") as f:
            f.write('CONSTANTS\n  MaxLen = %d\n  Wide = FALSE\n  Lockstep = "%s"\nINIT Init\nNEXT Next\nINVARIANT KeysFunctional\nINVARIANT Printer\nCHECK_DEADLOCK FALSE\n' % (
                (3 if tier == "quick" else 4) if lm == "slot" else ((6 if lm == "m2" else 4) if tier == "quick" else 10), lm))
        r = common.run_tlc("MC_Session", cfgp, workers=4 if tier == "quick" else 12, timeout=3600, name="MC_Session_lock_%s_%s" % (lm, tier))
        res.add_tlc(r)
        os.remove(cfgp)
        part = hist + ".lock"
        nh += common.extract_replay(r["log"], part)
        os.remove(r["log"])
        with open(hist, "a") as f:
            f.write(open(part).read())
        os.remove(part)
    nproc = 3 if tier == "quick" else 6
    trace = os.path.join(common.OUT, "session_trace_%s_%d.ndjson" % (tier, pid))
    with open(trace, "w") as tf:
        for k in range(nproc):
            part = trace + ".p%d" % k
            # separate processes: distinct RandomState keys, address space layouts, allocation histories
            p = common.run_harness(binp, ["session-record", hist, part, "--proc", str(k)], env={"VERIF_THREADS": "1"})
            tf.write(open(part).read())
            os.remove(part)
    log("session-record: %d histories x %d processes" % (nh, nproc))
    res.cov["histories"] = nh
    res.cov["processes"] = nproc
    validate(res, trace, "C01_%s" % tier, "same call, different result", "C01")
    res.cov["traces_validated_against_impl"] += nh * nproc
    res.cov["exhaustive"] = True
    os.remove(hist)
    os.remove(trace)
    res.assumptions += [
        "all call histories up to the bound over the call alphabet (decode, bpm, convert, calculate, strains, performance, two gradual handles; repetitions and interleavings with a second map, fresh vs reused map values)",
        "hash-seed / address dependence is sampled over processes (every HashMap gets fresh RandomState keys even within a process), not enumerated",
        "digests are 64-bit FNV hashes of Debug text",
    ]
    return res.finish()


def run_c20(tier):
    res = Result("C20", tier, "model_checking")
    pid = os.getpid()
    sched = os.path.join(common.OUT, "threads_%s_%d.ndjson" % (tier, pid))
    with open(sched, "w") as sf:
        for jobs in (1, 2, 3, 4, 5, 6, 7, 8, 9, 10, 11, 12):
            for nth in ((2,) if tier == "quick" else (2, 3)):
                cfgp = os.path.join(common.OUT, "MC_Threads_%d_%d_%s_%d.cfg" % (jobs, nth, tier, pid))
                with open(cfgp, "w") as f:
                    f.write("CONSTANTS\n  NThreads = %d\n  Jobs = %d\nINIT Init\nNEXT Next\nINVARIANT NoInterference\nINVARIANT Printer\nCHECK_DEADLOCK FALSE\n" % (nth, jobs))
                r = common.run_tlc("MC_Threads", cfgp, workers=4, timeout=3600, name="MC_Threads_%d_%d_%s" % (jobs, nth, tier))
                res.add_tlc(r)
                os.remove(cfgp)
                if not r["ok"]:
                    res.violation("TLC: thread model violates %s" % (r["violated"] or "a property"), {"kind": "tlc", "log_tail": common.tail_nonreplay(r["text"], 60)})
                    continue
                part = sched + ".part"
                common.extract_replay(r["log"], part)
                os.remove(r["log"])
                sf.write(open(part).read())
                os.remove(part)
    nsched = sum(1 for _ in open(sched))
    trace = os.path.join(common.OUT, "threads_trace_%s_%d.ndjson" % (tier, pid))
    with open(trace, "w") as tf:
        for fs in ("", "sync"):
            binp = common.build_harness(fs)
            part = trace + "." + (fs or "default")
            p = common.run_harness(binp, ["threads-record", sched, part, "--stress", "60" if tier == "quick" else "400"], timeout=7200)
            log(p.stdout.strip().splitlines()[-1])
            tf.write(open(part).read())
            os.remove(part)
    res.cov["schedules"] = nsched
    res.cov["samples"] = [json.loads(open(sched).readline())]
    validate(res, trace, "C20_%s" % tier, "result under concurrency differs from the sequential run", "C20")
    res.cov["traces_validated_against_impl"] += nsched * 2
    res.cov["exhaustive"] = True
    os.remove(sched)
    os.remove(trace)
    res.assumptions += [
        "schedules: all assignments of a 4-call job list to the threads and all Begin/End interleavings (overlap explicit), incl. every hand-over point of a shared gradual calculator (sync build)",
        "interleavings INSIDE a call are not controlled; a 16-thread uncoordinated stress run samples OS schedules",
        "validated against one memo table filled by the sequential run first",
    ]
    return res.finish()


def replay(prop, obj):
    log(json.dumps(obj["replay"], indent=1)[:4000])
    log("re-run ./check %s to re-evaluate on the current tree" % prop)
    return 2


REGISTRY = {"C01": run_c01, "C20": run_c20}
REPLAY_KINDS = {"bpm", "session-trace"}
