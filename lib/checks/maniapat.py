"""ManiaPatterns.tla: the osu! -> mania pattern generators (C19 column bound, C05 assert/hang freedom).
 (1) MC_ManiaPatterns: every reachable (previous pattern, stair) per key count, RNG draws as free choices;
 (2) TraceManiaPatterns: hook events of real conversions validated per key count, with a canary."""
import json
import os

import common
from common import log

# key counts model-checked per tier: (K, MaxSpan)
MC = {
    "quick": [(2, 3), (4, 3), (5, 3)],
    "thorough": [(1, 3), (2, 5), (3, 5), (4, 5), (5, 5), (6, 3), (7, 3), (8, 3), (9, 1), (10, 1)],
}


def _corrupt(events, k):
    """one recorded field changed: a note moved to another column / a note dropped from the kept part"""
    s = common.seed()
    circ = [i for i, e in enumerate(events) if e["g"] == "circle" and len(e["out"]) >= 1 and k > 1]
    objs = [i for i, e in enumerate(events) if e["g"] == "objects" and len(e["starts"]) >= 2]
    if s % 3 == 2 and objs:
        i = objs[(s * 11 + 5) % len(objs)]
        out = json.loads(json.dumps(events))
        out[i]["ends"][0] = out[i]["starts"][0] - 1            # a negative duration
        return out[: i + 1]
    sl = [i for i, e in enumerate(events) if e["g"] == "slider" and not e["single"] and len(e["endp"]) >= 1]
    out = json.loads(json.dumps(events))
    if s % 2 == 0 and circ:
        i = circ[(s * 7 + 3) % len(circ)]
        out[i]["out"][0] = (out[i]["out"][0] + 1) % k
        return out[: i + 1]
    if sl:
        i = sl[(s * 5 + 1) % len(sl)]
        out[i]["endp"] = out[i]["endp"][:-1]
        return out[: i + 2]
    if circ:
        i = circ[s % len(circ)]
        out[i]["out"][0] = (out[i]["out"][0] + 1) % k
        return out[: i + 1]
    return None


def run_mania(res, tier, binp):
    pid = os.getpid()
    # ---- (1) exhaustive over the abstract converter state
    for (k, maxspan) in MC[tier]:
        cfgp = os.path.join(common.OUT, "MC_ManiaPatterns_%d_%s_%d.cfg" % (k, tier, pid))
        with open(cfgp, "w") as f:
            f.write("CONSTANTS\n  K = %d\n  MaxSpan = %d\nINIT Init\nNEXT Next\nVIEW StateView\nINVARIANT NoPanicInRange\nINVARIANT PrevInRange\nCHECK_DEADLOCK FALSE\n" % (k, maxspan))
        r = common.run_tlc("MC_ManiaPatterns", cfgp, workers=8 if tier == "quick" else 14, timeout=900 if tier == "quick" else 6 * 3600,
                           name="MC_ManiaPatterns_%d_%s" % (k, tier), xmx="8g")
        res.add_tlc(r)
        os.remove(cfgp)
        try:
            os.remove(r["log"])
        except OSError:
            pass
        if not r["ok"]:
            res.violation("TLC: mania pattern generators (K=%d) can reach %s" % (k, r["violated"] or "an error"),
                          {"kind": "tlc", "log_tail": common.tail_nonreplay(r["text"], 80)})
    res.cov["mania_pattern_model"] = {"key_counts": [k for k, _ in MC[tier]], "max_span": {str(k): m for k, m in MC[tier]}}
    # ---- (2) real conversions -> specification
    prefix = os.path.join(common.OUT, "mania_trace_%s_%d" % (tier, pid))
    summ = prefix + ".summary.json"
    p = common.run_harness(binp, ["mania-record", prefix, summ, "--tier", tier], timeout=3600)
    log(p.stdout.strip().splitlines()[-1])
    s = json.load(open(summ))
    for rec in s["problems"][:6]:
        res.violation("mania conversion: %s: %s (%s)" % (rec["what"], rec.get("label"), str(rec.get("panic") or rec.get("observed"))[:300]),
                      {"kind": "mania-trace", "record": rec})
    res.cov["mania_trace"] = {"conversions": s["conversions"], "events": s["events"], "by_kind": s["by_kind"]}
    for k, info in sorted(s["files"].items(), key=lambda kv: int(kv[0])):
        k = int(k)
        cfgp = os.path.join(common.OUT, "TraceManiaPatterns_%d_%s_%d.cfg" % (k, tier, pid))
        with open(cfgp, "w") as f:
            f.write("CONSTANTS\n  K = %d\nSPECIFICATION TraceSpec\nPOSTCONDITION TraceAccepted\nCHECK_DEADLOCK FALSE\n" % k)
        cur = info["path"]
        events = [json.loads(l) for l in open(cur)]
        rounds = 0
        first = True
        while events and rounds < 6:
            ok, line, evtxt = common.trace_check(res, "TraceManiaPatterns", cfgp, cur, (lambda ev: _corrupt(ev, k)) if first else (lambda ev: None),
                                                 "K%d_%s_r%d" % (k, tier, rounds))
            first = False
            if ok:
                break
            ev = events[line - 1]
            label = next((e.get("label") for e in reversed(events[:line]) if e["g"] == "reset"), "?")
            res.violation("mania conversion is not a behaviour of ManiaPatterns (K=%d): %s: event %s" % (k, label, json.dumps(ev)[:700]),
                          {"kind": "mania-trace", "k": k, "label": label, "event": ev})
            # resume at the next conversion (the carried state is lost with the rejected step)
            rest = events[line:]
            nxt = next((i for i, e in enumerate(rest) if e["g"] == "reset"), None)
            events = rest[nxt:] if nxt is not None else []
            cur = info["path"] + ".rest"
            with open(cur, "w") as f:
                f.write("\n".join(json.dumps(e) for e in events) + ("\n" if events else ""))
            rounds += 1
        res.cov["traces_validated_against_impl"] += info["events"]
        for fpath in (cfgp, info["path"], info["path"] + ".rest"):
            try:
                os.remove(fpath)
            except OSError:
                pass
    os.remove(summ)
    res.assumptions += [
        "mania pattern generators: the model replaces every RNG draw by a free choice among its possible outcomes and every numeric input (times, density, "
        "conversion difficulty) by the branch it selects; exhaustive over the reachable (previous pattern, stair direction) states per key count for slider span counts up to the bound",
        "recorded conversions: the osu! fixture under every key mod and structured-random maps (all three object kinds, hit-sound flags, kiai / velocity sections, "
        "gaps around the timing thresholds); one TLC trace validation per key count, one corrupted event per key count must be rejected",
    ]
