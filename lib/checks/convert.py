"""C07 (Dispatch.tla) and C19 (Convert.tla)."""
import json
import os

import common
from common import Result, log


def run_c07(tier):
    res = Result("C07", tier, "model_checking")
    binp = common.build_harness()
    pid = os.getpid()
    cfgp = os.path.join(common.OUT, "MC_Dispatch_%s_%d.cfg" % (tier, pid))
    with open(cfgp, "w") as f:
        f.write("CONSTANTS\n  MaxSteps = %d\nINIT Init\nNEXT Next\nINVARIANT Inv\nINVARIANT FlagInv\nINVARIANT NeverBack\nINVARIANT Printer\nCHECK_DEADLOCK FALSE\n" % (3 if tier == "quick" else 4))
    r = common.run_tlc("MC_Dispatch", cfgp, workers=4 if tier == "quick" else 12, timeout=1800, name="MC_Dispatch_%s" % tier)
    res.add_tlc(r)
    if not r["ok"]:
        res.violation("TLC: dispatch model violates %s" % (r["violated"] or "a property"), {"kind": "tlc", "log_tail": common.tail_nonreplay(r["text"], 60)})
        return res.finish()
    scen = os.path.join(common.OUT, "dispatch_%s_%d.ndjson" % (tier, pid))
    n = common.extract_replay(r["log"], scen)
    os.remove(r["log"])
    outp = scen + ".res.json"
    p = common.run_harness(binp, ["dispatch-replay", scen, outp, "--tier", tier], timeout=7200)
    log(p.stdout.strip().splitlines()[-1])
    out = json.load(open(outp))
    res.cov["traces_validated_against_impl"] += out["scenarios"]
    res.cov["real_checks"] = out["checks"]
    res.cov["samples"] = out["samples"]
    res.cov["exhaustive"] = True
    res.cov["bounds"] = {"max_conversion_steps": 3 if tier == "quick" else 4, "maps_per_mode": out["maps_per_mode"], "settings_profiles": out["cfgs"]}
    for rec in out["records"][:12]:
        sc = rec["scenario"]
        res.violation("dispatch %s at step %s: native %s, steps %s, settings %s: expected %s observed %s" % (
            rec["what"], rec["step"], sc["native"], sc["steps"], json.dumps(rec["cfg"]), rec["expected"][:300], rec["observed"][:300]),
            {"kind": "dispatch", "scenario": sc, "what": rec["what"], "cfg": rec["cfg"], "osu_text": rec["osu_text"], "tier": tier})
    res.assumptions += [
        "all conversion histories up to the bound from all four native modes; maps are concretised random abstract maps (2 per mode quick, 6 thorough) under conversion-relevant settings (key mods, HO, IN, HR/clock rate)",
        "values compared with the same calculation on the explicitly converted map (Debug text = bitwise)",
        "Random mod seeds are not covered",
    ]
    for f in (cfgp, scen, outp):
        try:
            os.remove(f)
        except OSError:
            pass
    return res.finish()


def run_c19(tier):
    res = Result("C19", tier, "model_checking")
    binp = common.build_harness()
    pid = os.getpid()
    cfgp = os.path.join(common.OUT, "MC_Convert_%s_%d.cfg" % (tier, pid))
    with open(cfgp, "w") as f:
        f.write("CONSTANTS\n  MaxObjs = %d\nINIT Init\nNEXT Next\nINVARIANT RangeInv\nINVARIANT Printer\nCHECK_DEADLOCK FALSE\n" % (10 if tier == "quick" else 20))
    r = common.run_tlc("MC_Convert", cfgp, workers=4 if tier == "quick" else 12, timeout=1800, name="MC_Convert_%s" % tier)
    res.add_tlc(r)
    if not r["ok"]:
        res.violation("TLC: key-count table violates %s" % (r["violated"] or "a property"), {"kind": "tlc", "log_tail": common.tail_nonreplay(r["text"], 60)})
        return res.finish()
    scen = os.path.join(common.OUT, "convert_%s_%d.ndjson" % (tier, pid))
    common.extract_replay(r["log"], scen)
    os.remove(r["log"])
    outp = scen + ".res.json"
    p = common.run_harness(binp, ["convert-replay", scen, outp])
    log(p.stdout.strip().splitlines()[-1])
    out = json.load(open(outp))
    res.cov["traces_validated_against_impl"] += out["rows"]
    for rec in out["records"][:8]:
        if rec["what"] == "machinery":
            raise common.ToolError("convert-replay could not build its map: %s" % rec)
        res.violation("mania key count: row %s expected %s observed %s" % (rec.get("row"), rec.get("expected"), rec.get("observed")),
                      {"kind": "convert-row", "record": rec})
    trace = os.path.join(common.OUT, "convert_trace_%s_%d.ndjson" % (tier, pid))
    p = common.run_harness(binp, ["convert-record", trace, "--tier", tier])
    log(p.stdout.strip().splitlines()[-1])

    def corrupt(events):
        tk = [i for i, e in enumerate(events) if e.get("ok") and e["target"] == "taiko" and e["src"]["paired"]
              and len([o for o in e["out"]["objs"] if o["id"] > 0]) >= 2]
        mn = [i for i, e in enumerate(events) if e.get("ok") and e["target"] == "mania"]
        if common.seed() % 2 == 0 and tk:
            i = tk[common.seed() % len(tk)]
            e = json.loads(json.dumps(events[i]))
            orig = [o for o in e["out"]["objs"] if o["id"] > 0]
            orig[0]["snd"] = (orig[0]["snd"] + 1) % 16          # an object lost its own sound
            return [e]
        if mn:
            i = mn[common.seed() % len(mn)]
            e = json.loads(json.dumps(events[i]))
            e["out"]["keys"] += 1
            return [e]
        return None

    ok, line, evtxt = common.trace_check(res, "TraceConvert", "TraceConvert.cfg", trace, corrupt, "C19_%s" % tier)
    events = [json.loads(l) for l in open(trace)]
    rounds = 0
    while not ok and rounds < 8:
        ev = events[line - 1]
        res.violation("conversion rejected by TraceConvert: %s -> %s (key mod %s): %s" % (ev["label"], ev["target"], ev["keymod"], json.dumps(ev)[:600]),
                      {"kind": "convert-trace", "event": ev})
        events = events[line:]
        if not events:
            break
        cur = trace + ".rest"
        with open(cur, "w") as f:
            f.write("\n".join(json.dumps(e) for e in events) + "\n")
        ok, line, evtxt = common.trace_check(res, "TraceConvert", "TraceConvert.cfg", cur, lambda e: None, "C19_%s_r%d" % (tier, rounds))
        rounds += 1
    res.cov["traces_validated_against_impl"] += sum(1 for _ in open(trace))
    res.cov["samples"] = [json.loads(open(trace).readline())["label"], "key table rows: [keyMod, n, s, cs, od] -> keys"]
    res.cov["exhaustive"] = True
    # the helpers the converters lean on for "sorted" and "one sound per object": density queue, tandem sort, legacy sort
    from checks import utilsrep
    utilsrep.run_utils(res, tier, binp)
    utilsrep.run_ctrlpoints(res, tier, binp)
    # the pattern generators of the mania converter: model checking + trace validation of real conversions
    from checks import maniapat
    maniapat.run_mania(res, tier, binp)
    # the splice machine of the taiko converter
    from checks import taikosplice
    taikosplice.run_taiko(res, tier, binp)
    res.assumptions += [
        "key-count rule: exhaustive over the decision table rows (objects <= %d); other conversion output is numeric and validated on recorded conversions, not predicted" % (10 if tier == "quick" else 20),
        "generated maps carry object ids in x and a checksum in the hit sound; burst hits of taiko converts have x = 0",
    ]
    for f in (cfgp, scen, outp, trace, trace + ".rest"):
        try:
            os.remove(f)
        except OSError:
            pass
    return res.finish()


def replay(prop, obj):
    log(json.dumps(obj["replay"], indent=1)[:4000])
    log("re-run ./check %s to re-evaluate on the current tree" % prop)
    return 2


REGISTRY = {"C07": run_c07, "C19": run_c19}
REPLAY_KINDS = {"dispatch", "convert-row", "convert-trace"}
