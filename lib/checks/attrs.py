"""C17: attribute builder (spec/AttrBuilder.tla, MC_AttrBuilder.tla)."""
import json
import os

import common
from common import Result, log


def run(prop, tier):
    res = Result(prop, tier, "model_checking")
    binp = common.build_harness()
    pid = os.getpid()
    cfgp = os.path.join(common.OUT, "MC_AttrBuilder_%s_%d.cfg" % (tier, pid))
    with open(cfgp, "w") as f:
        f.write("CONSTANTS\n  Dense = %s\nINIT Init\nNEXT Next\nINVARIANT RoundTrip\nINVARIANT Monotone\nINVARIANT RateScale\nINVARIANT HrEzOrder\nINVARIANT Printer\nCHECK_DEADLOCK FALSE\n" % ("TRUE" if tier == "thorough" else "FALSE"))
    r = common.run_tlc("MC_AttrBuilder", cfgp, workers=8, timeout=3600, name="MC_AttrBuilder_%s" % tier)
    res.add_tlc(r)
    if not r["ok"]:
        res.violation("TLC: attribute builder model violates %s" % (r["violated"] or "a property"), {"kind": "tlc", "log_tail": common.tail_nonreplay(r["text"], 60)})
        return res.finish()
    scen = os.path.join(common.OUT, "attrs_%s_%d.ndjson" % (tier, pid))
    common.extract_replay(r["log"], scen)
    os.remove(r["log"])
    outp = scen + ".res.json"
    p = common.run_harness(binp, ["attrs-replay", scen, outp, "--tier", tier], timeout=7200)
    log(p.stdout.strip().splitlines()[-1])
    out = json.load(open(outp))
    res.cov["traces_validated_against_impl"] += out["scenarios"] + out["calculator_agreement_checks"]
    res.cov["samples"] = out["samples"]
    res.cov["exhaustive"] = True
    for rec in out["records"][:12]:
        res.violation("%s: %s: expected %s observed %s" % (rec["what"], json.dumps(rec.get("case") or {k: rec.get(k) for k in ("field", "mode", "mods", "rate", "value")}),
                                                         str(rec.get("expected"))[:200], str(rec.get("observed"))[:200]), {"kind": "attrs", "record": rec})
    res.assumptions += [
        "grid: AR/OD/CS/HP in {-20..20} (%s), mods none/HR/EZ, with_mods both, 8 clock rates incl. 0.01 and 100, 4 modes x convert flag" % ("step 0.5" if tier == "thorough" else "10 values"),
        "real f64/f32 outputs compared with exact rationals at relative tolerance 1e-5; mania great window +-1 where the model marks a floor/ceil boundary",
        "lazer DifficultyAdjust is covered by C08 (equals the override)",
    ]
    for f in (cfgp, scen, outp):
        try:
            os.remove(f)
        except OSError:
            pass
    return res.finish()


def replay(prop, obj):
    log(json.dumps(obj["replay"], indent=1)[:4000])
    log("re-run ./check %s to re-evaluate on the current tree" % prop)
    return 2


REGISTRY = {"C17": lambda tier: run("C17", tier)}
REPLAY_KINDS = {"attrs"}
