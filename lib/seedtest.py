#!/usr/bin/env python3
"""Run checks against a seeded change: python3 lib/seedtest.py <seed-dir-or-patch> <Cxx> [<Cxx> ...] [--tier T]
Applies the patch to /repo, runs the checks, undoes the patch straight afterwards."""
import os, subprocess, sys
args = sys.argv[1:]
tier = "quick"
if "--tier" in args:
    i = args.index("--tier"); tier = args[i + 1]; del args[i:i + 2]
seed = args[0]
patch = os.path.join(seed, "patch.diff") if os.path.isdir(seed) else seed
props = args[1:]
assert subprocess.run(["git", "-C", "/repo", "status", "--porcelain", "--untracked-files=no"], capture_output=True, text=True).stdout.strip() == "", "/repo dirty"
# hooks added after a seed was written move its context lines: fall back to patch(1) with fuzz
if subprocess.run(["git", "-C", "/repo", "apply", os.path.abspath(patch)]).returncode != 0:
    r = subprocess.run(["patch", "-p1", "--fuzz=3", "--no-backup-if-mismatch", "-i", os.path.abspath(patch)], cwd="/repo", capture_output=True, text=True)
    if r.returncode != 0:
        subprocess.run(["git", "-C", "/repo", "checkout", "--", "."])
        subprocess.run("git -C /repo status --porcelain | grep '^??' | grep -E '\\.(rej|orig)$' | cut -c4- | xargs -r -I{} rm -f /repo/{}", shell=True)
        print("%s: patch does not apply to the current tree:\n%s" % (os.path.basename(seed.rstrip('/')), r.stdout[-600:]))
        sys.exit(3)
try:
    for p in props:
        r = subprocess.run(["./check", p, "--tier", tier], cwd="/verif", capture_output=True, text=True)
        v = [l for l in r.stdout.splitlines() if l.startswith("VIOLATION")]
        print("%s %s: exit=%d violations=%d %s" % (os.path.basename(seed.rstrip('/')), p, r.returncode, len(v), ("| " + r.stdout.splitlines()[r.stdout.splitlines().index(v[0]) + 1][:200]) if v else ""))
        if r.returncode == 2:
            print(r.stdout[-1500:])
finally:
    subprocess.run(["git", "-C", "/repo", "checkout", "--", "."], check=True)
