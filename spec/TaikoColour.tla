----------------------------- MODULE TaikoColour -----------------------------
(***************************************************************************)
(* src/taiko/difficulty/color/preprocessor.rs (+ color/data/*.rs): the     *)
(* three-level grouping of the taiko difficulty objects that the colour    *)
(* and stamina skills read:                                                *)
(*   mono streak            run of notes of one colour                     *)
(*   alternating pattern    consecutive mono streaks of equal length       *)
(*   repeating hit patterns coupled alternating patterns; each knows after *)
(*                          how many patterns it repeats an earlier one    *)
(* Transcribed as written, including how non-hit objects (drum rolls,      *)
(* swells; note index 0) break or join streaks.  ts = sequence over        *)
(* {"Center", "Rim", "NonHit"}, one entry per difficulty object.           *)
(***************************************************************************)
EXTENDS Integers, Sequences, FiniteSets, TLC

MAX_REPETITION_INTERVAL == 16
IsNote(t) == t # "NonHit"

(* TaikoDifficultyObjects::previous_note(curr, 0): the note before curr in note_objects; a non-hit has note index 0 *)
RECURSIVE PrevNoteFrom(_, _)
PrevNoteFrom(ts, j) == IF j < 1 THEN 0 ELSE IF IsNote(ts[j]) THEN j ELSE PrevNoteFrom(ts, j - 1)
PrevNote(ts, i) == IF IsNote(ts[i]) THEN PrevNoteFrom(ts, i - 1) ELSE 0          \* 0 = none

(* encode_mono_streaks: sequences of object indices *)
RECURSIVE MonoFrom(_, _, _)
MonoFrom(ts, i, acc) ==
  IF i > Len(ts) THEN acc
  ELSE LET p == PrevNote(ts, i)
           same == p # 0 /\ ts[p] = ts[i]
       IN IF i = 1 \/ ~same
          THEN MonoFrom(ts, i + 1, Append(acc, <<i>>))
          ELSE MonoFrom(ts, i + 1, [acc EXCEPT ![Len(acc)] = Append(@, i)])
MonoStreaks(ts) == MonoFrom(ts, 1, <<>>)

(* encode_alternating_mono_pattern: sequences of streaks, split where the run length changes *)
RECURSIVE AltFrom(_, _, _)
AltFrom(ms, k, acc) ==
  IF k > Len(ms) THEN acc
  ELSE IF k = 1 \/ Len(ms[k]) # Len(ms[k - 1])
       THEN AltFrom(ms, k + 1, Append(acc, <<ms[k]>>))
       ELSE AltFrom(ms, k + 1, [acc EXCEPT ![Len(acc)] = Append(@, ms[k])])
AltPatterns(ts) == AltFrom(MonoStreaks(ts), 1, <<>>)

HitType(ts, streak) == ts[streak[1]]
AltIsRepetitionOf(ts, a, b) == Len(a[1]) = Len(b[1]) /\ Len(a) = Len(b) /\ HitType(ts, a[1]) = HitType(ts, b[1])

(* encode_repeating_hit_patterns: a queue of alternating patterns; data[0] is "coupled" when data[2] repeats it *)
Coupled(ts, q) == Len(q) >= 3 /\ AltIsRepetitionOf(ts, q[1], q[3])
RECURSIVE TakeCoupled(_, _, _)
TakeCoupled(ts, q, cur) ==          \* pop while coupled, then the next two
  IF Coupled(ts, q) THEN TakeCoupled(ts, Tail(q), Append(cur, q[1]))
  ELSE [cur |-> cur \o SubSeq(q, 1, 2), rest |-> SubSeq(q, 3, Len(q))]
RECURSIVE RepFrom(_, _, _)
RepFrom(ts, q, acc) ==
  IF q = <<>> THEN acc
  ELSE IF Coupled(ts, q)
       THEN LET r == TakeCoupled(ts, q, <<>>) IN RepFrom(ts, r.rest, Append(acc, r.cur))
       ELSE RepFrom(ts, Tail(q), Append(acc, <<q[1]>>))
RepPatterns(ts) == RepFrom(ts, AltPatterns(ts), <<>>)

(* RepeatingHitPatterns::is_repetition_of / find_repetition_interval *)
Min(a, b) == IF a < b THEN a ELSE b
RepIsRepetitionOf(p, q) == Len(p) = Len(q) /\ \A k \in 1..Min(2, Len(p)) : Len(p[k][1]) = Len(q[k][1])
RECURSIVE IntervalFrom(_, _, _, _)
IntervalFrom(rs, n, other, interval) ==      \* other = index of the pattern compared with, 0 = none
  IF other = 0 \/ interval >= MAX_REPETITION_INTERVAL THEN MAX_REPETITION_INTERVAL + 1
  ELSE IF RepIsRepetitionOf(rs[n], rs[other]) THEN Min(interval, MAX_REPETITION_INTERVAL)
  ELSE IntervalFrom(rs, n, other - 1, interval + 1)
RepetitionInterval(rs, n) == IF n = 1 THEN MAX_REPETITION_INTERVAL + 1 ELSE IntervalFrom(rs, n, n - 1, 1)

(* what process_and_assign leaves on every object:                                                              *)
(*   <<streak index in its alternating pattern, run length, alternating index in its repeating pattern,         *)
(*     streaks in the alternating pattern, alternating patterns in the repeating pattern, repetition interval>> *)
Assigned(ts) ==
  LET rs == RepPatterns(ts)
      Row(i) == CHOOSE row \in {<<j - 1, Len(rs[n][a][j]), a - 1, Len(rs[n][a]), Len(rs[n]), RepetitionInterval(rs, n)>> :
                                   <<n, a, j>> \in {t \in (1..Len(rs)) \X (1..Len(ts)) \X (1..Len(ts)) :
                                                       t[2] <= Len(rs[t[1]]) /\ t[3] <= Len(rs[t[1]][t[2]])
                                                       /\ \E x \in 1..Len(rs[t[1]][t[2]][t[3]]) : rs[t[1]][t[2]][t[3]][x] = i}} : TRUE
  IN [i \in 1..Len(ts) |-> Row(i)]

(* structural properties the skills rely on *)
RECURSIVE FlatMono(_, _)
FlatMono(ms, k) == IF k = 0 THEN <<>> ELSE FlatMono(ms, k - 1) \o ms[k]
Partition(ts) == FlatMono(MonoStreaks(ts), Len(MonoStreaks(ts))) = [i \in 1..Len(ts) |-> i]      \* every object in exactly one streak, in order
NoEmptyGroups(ts) == /\ \A k \in 1..Len(MonoStreaks(ts)) : MonoStreaks(ts)[k] # <<>>
                     /\ \A k \in 1..Len(AltPatterns(ts)) : AltPatterns(ts)[k] # <<>>
                     /\ \A k \in 1..Len(RepPatterns(ts)) : RepPatterns(ts)[k] # <<>>
=============================================================================
