SPECIFICATION TraceSpec
POSTCONDITION TraceAccepted
CHECK_DEADLOCK FALSE
