------------------------------- MODULE Gradual -------------------------------
(***************************************************************************)
(* The four gradual difficulty calculators of rosu-pp and the gradual      *)
(* performance wrapper, as implementation-shaped machines, next to the     *)
(* declarative one-shot calculation they have to agree with (C02, C03,     *)
(* C14 count algebra, C15).                                                *)
(*                                                                         *)
(* A map is a sequence of abstract hit objects [k, rep, ticks, dur]:       *)
(*   k     "C" circle / hit / fruit / note                                 *)
(*         "S" slider / drum roll / juice stream                           *)
(*         "P" spinner / swell / banana shower                             *)
(*         "H" hold note (mania)                                           *)
(*   rep   slider repeats, ticks ticks per span, dur hold duration class   *)
(*         (combo increment of a hold note is 1 + dur)                     *)
(* Floating point never enters: what a skill computes is abstracted to     *)
(* the ghost "proc" = how many difficulty objects have been processed.     *)
(* Two runs with equal (counts, proc) on the same map and settings run the *)
(* same float computation.                                                 *)
(*                                                                         *)
(* Counts are a 5-vector; its meaning depends on the mode:                 *)
(*   osu    <<n_circles, n_sliders, n_large_ticks, n_spinners, max_combo>> *)
(*   taiko  <<max_combo, 0, 0, 0, 0>>                                      *)
(*   catch  <<n_fruits, n_droplets, n_tiny_droplets, 0, 0>>                *)
(*   mania  <<n_objects, n_hold_notes, max_combo, 0, 0>>                   *)
(***************************************************************************)
EXTENDS Integers, Sequences, FiniteSets, TLC

CONSTANT OverflowChecks    \* TRUE: debug profile (usize underflow panics); FALSE: release (wraps)

MAXN == 1000000            \* stands for usize::MAX as an argument of nth
UNLIMITED == 1000000       \* passed_objects not set

Min(a, b) == IF a < b THEN a ELSE b
SatSub(a, b) == IF a > b THEN a - b ELSE 0

Zero5 == <<0, 0, 0, 0, 0>>
Add5(a, b) == [i \in 1..5 |-> a[i] + b[i]]

RECURSIVE SumTo(_, _)
SumTo(ws, k) == IF k = 0 THEN Zero5 ELSE Add5(SumTo(ws, k - 1), ws[k])

-----------------------------------------------------------------------------
(* Count algebra (C14): what one hit object contributes.                   *)

SliderLargeTicks(o) == o.ticks * (o.rep + 1) + o.rep          \* ticks and repeats
SliderNested(o)     == SliderLargeTicks(o) + 1                \* ... and the tail

OsuW(o) == CASE o.k = "C" -> <<1, 0, 0, 0, 1>>
             [] o.k = "S" -> <<0, 1, SliderLargeTicks(o), 0, 1 + SliderNested(o)>>
             [] OTHER     -> <<0, 0, 0, 1, 1>>                \* spinner

ManiaW(o) == IF o.k = "C" THEN <<0, 0, 1, 0, 0>>
             ELSE <<0, 1, 1 + o.dur, 0, 0>>                   \* n_objects is the index itself

TaikoIsHit(o) == o.k = "C"

(* Catch: the units of a gradual step are the palpable objects (fruits and *)
(* droplets) in generation order. A juice stream yields its head fruit,    *)
(* then per span `ticks` droplets and one fruit (repeat or tail). Tiny     *)
(* droplets are numeric (logged, not predicted): every unit carries the    *)
(* number of tiny droplets generated since the previous unit, given by the *)
(* map as `tiny` (0 in enumerated maps, logged in traces).                 *)
RECURSIVE SpanUnits(_, _, _)
SpanUnits(ticks, spans, tiny) ==
  IF spans = 0 THEN <<>>
  ELSE [j \in 1..ticks |-> <<0, 1, tiny, 0, 0>>] \o <<<<1, 0, tiny, 0, 0>>>> \o SpanUnits(ticks, spans - 1, tiny)

CatchUnitsOf(o) == CASE o.k = "C" -> << <<1, 0, 0, 0, 0>> >>
                     [] o.k = "S" -> << <<1, 0, 0, 0, 0>> >> \o SpanUnits(o.ticks, o.rep + 1, o.dur)
                     [] OTHER     -> <<>>

RECURSIVE CatchUnits(_, _)
CatchUnits(objs, k) == IF k = 0 THEN <<>> ELSE CatchUnits(objs, k - 1) \o CatchUnitsOf(objs[k])

(* The unit-weight sequence a machine walks over.                          *)
Units(mode, objs) ==
  CASE mode = "osu"   -> [i \in 1..Len(objs) |-> OsuW(objs[i])]
    [] mode = "mania" -> [i \in 1..Len(objs) |-> ManiaW(objs[i])]
    [] mode = "catch" -> CatchUnits(objs, Len(objs))
    [] mode = "taiko" -> [i \in 1..Len(objs) |-> IF TaikoIsHit(objs[i]) THEN <<1,0,0,0,0>> ELSE Zero5]

-----------------------------------------------------------------------------
(* One-shot calculation with passed_objects(take): DifficultyValues::calculate *)

RECURSIVE TaikoScan(_, _, _, _, _)       \* the `inspect` closure: count while max_combo < take
TaikoScan(ws, k, take, nd, mc) ==
  IF k > Len(ws) THEN [nd |-> nd, mc |-> mc]
  ELSE IF mc < take THEN TaikoScan(ws, k + 1, take, nd + 1, mc + ws[k][1])
  ELSE TaikoScan(ws, k + 1, take, nd, mc)

OneShot(mode, ws, take) ==
  LET n == Len(ws) IN
  CASE mode = "taiko" ->
         LET hits == SumTo(ws, n)[1]
             \* once all hits are passed the play covers the whole map
             tk  == IF take > 0 /\ take >= hits THEN UNLIMITED ELSE take
             sc  == TaikoScan(ws, 1, tk, 0, 0)
             \* create_difficulty_objects returns early (no -1) when fewer than two objects
             nd1 == IF n >= 2 /\ take > 0 /\ sc.nd > 0 THEN sc.nd - 1 ELSE sc.nd
             nd2 == SatSub(nd1, 1)
         IN [cnt |-> <<sc.mc, 0, 0, 0, 0>>, proc |-> Min(nd2, SatSub(n, 2))]
    [] mode = "mania" ->
         LET m == Min(take, n) IN
         [cnt |-> [SumTo(ws, m) EXCEPT ![1] = m], proc |-> SatSub(m, 1)]
    [] OTHER ->                           \* osu, catch
         LET m == Min(take, n) IN
         [cnt |-> SumTo(ws, m), proc |-> SatSub(m, 1)]

(* Number of values a gradual calculator must produce = number of units    *)
(* passed_objects counts in that mode.                                     *)
Total(mode, ws) == IF mode = "taiko" THEN SumTo(ws, Len(ws))[1] ELSE Len(ws)

-----------------------------------------------------------------------------
(* Machines. State: idx, cnt, proc (ghost), plus taiko's pos.              *)
(* A call returns [st, some].  `panic` marks a usize underflow.            *)

NDiff(mode, ws) == IF mode = "taiko" THEN SatSub(Len(ws), 2) ELSE SatSub(Len(ws), 1)

New(mode, ws) ==
  [idx |-> 0, proc |-> 0, panic |-> FALSE,
   cnt |-> CASE mode \in {"osu", "mania"} -> IF Len(ws) > 0 THEN ws[1] ELSE Zero5
             [] OTHER -> Zero5,
   pos |-> 0]

(* len(): 0 without units, else diff_objects.len() + 1 - idx ;               *)
(* taiko: total_hits - idx.  -1 = usize underflow                           *)
LenOf(mode, ws, s) ==
  LET full == IF mode = "taiko" THEN Total(mode, ws)
              ELSE IF Len(ws) = 0 THEN 0 ELSE NDiff(mode, ws) + 1
  IN IF full >= s.idx THEN full - s.idx ELSE -1

---- \* osu / mania / catch ----

StdNext(mode, ws, s) ==
  IF s.idx > 0 THEN
       IF s.idx - 1 >= NDiff(mode, ws) THEN [st |-> s, some |-> FALSE]      \* diff_objects.get(idx-1)?
       ELSE [st |-> [s EXCEPT !.proc = @ + 1, !.cnt = Add5(@, ws[s.idx + 1]), !.idx = @ + 1], some |-> TRUE]
  ELSE IF Len(ws) = 0 THEN [st |-> s, some |-> FALSE]
  ELSE IF mode = "catch"
       THEN [st |-> [s EXCEPT !.cnt = Add5(@, ws[1]), !.idx = 1], some |-> TRUE]
       ELSE [st |-> [s EXCEPT !.idx = 1], some |-> TRUE]

RECURSIVE StdLoop(_, _, _, _, _)
StdLoop(mode, ws, s, j, k) ==             \* for curr in diff.skip(..).take(k), j = 0-based diff index
  IF k = 0 \/ j >= NDiff(mode, ws) THEN s
  ELSE StdLoop(mode, ws,
               [s EXCEPT !.proc = @ + 1,
                         !.cnt = Add5(@, IF mode = "catch" THEN ws[s.idx + 1] ELSE ws[j + 2]),
                         !.idx = @ + 1],
               j + 1, k - 1)

StdNthClamped(mode, ws, s, n) ==
  IF LenOf(mode, ws, s) < 0 /\ OverflowChecks THEN [st |-> [s EXCEPT !.panic = TRUE], some |-> FALSE]
  ELSE
  LET skip  == SatSub(s.idx, 1)
      take0 == IF LenOf(mode, ws, s) < 0 THEN n           \* wrapped: min(n, huge)
               ELSE Min(n, SatSub(LenOf(mode, ws, s), 1))
      pre   == IF s.idx = 0 /\ take0 > 0
               THEN [take |-> take0 - 1,
                     st |-> [s EXCEPT !.idx = 1,
                                      !.cnt = IF mode = "catch" THEN Add5(@, ws[1]) ELSE @]]
               ELSE [take |-> take0, st |-> s]
  IN StdNext(mode, ws, StdLoop(mode, ws, pre.st, skip, pre.take))

(* Iterator::nth: fewer than n+1 values left => consume them all, return None *)
StdNth(mode, ws, s, n) ==
  LET remaining == LenOf(mode, ws, s) IN
  IF remaining >= 0 /\ n >= remaining
  THEN [st |-> IF remaining >= 1 THEN StdNthClamped(mode, ws, s, remaining - 1).st ELSE s, some |-> FALSE]
  ELSE StdNthClamped(mode, ws, s, n)

---- \* taiko ----
(* State extras: pos = hit objects passed (hits or not).  The first two    *)
(* objects have no difficulty object; difficulty object j belongs to       *)
(* object j + 2.  proc counts the difficulty objects handed to the skills. *)

TaikoNextObject(ws, s) ==                 \* process_next_object: [st, ok, hit]
  IF s.pos >= Len(ws) THEN [st |-> s, ok |-> FALSE, hit |-> FALSE]
  ELSE [st |-> [s EXCEPT !.pos = @ + 1, !.proc = IF s.pos >= 2 THEN @ + 1 ELSE @],
        ok |-> TRUE, hit |-> ws[s.pos + 1][1] = 1]

RECURSIVE TaikoDrain(_, _)
TaikoDrain(ws, s) == LET r == TaikoNextObject(ws, s) IN IF r.ok THEN TaikoDrain(ws, r.st) ELSE s

RECURSIVE TaikoNextHit(_, _)              \* process_next_hit: [st, ok]
TaikoNextHit(ws, s) ==
  LET r == TaikoNextObject(ws, s) IN
  IF ~r.ok THEN [st |-> r.st, ok |-> FALSE]
  ELSE IF ~r.hit THEN TaikoNextHit(ws, r.st)
  ELSE LET s2 == [r.st EXCEPT !.cnt = Add5(@, <<1,0,0,0,0>>), !.idx = @ + 1]
       IN [st |-> IF s2.idx = Total("taiko", ws) THEN TaikoDrain(ws, s2) ELSE s2, ok |-> TRUE]

TaikoNext(ws, s) == LET r == TaikoNextHit(ws, s) IN [st |-> r.st, some |-> r.ok]

RECURSIVE TaikoTakeLoop(_, _, _)
TaikoTakeLoop(ws, s, k) ==
  IF k = 0 THEN [st |-> s, ok |-> TRUE]
  ELSE LET r == TaikoNextHit(ws, s)
       IN IF ~r.ok THEN r ELSE TaikoTakeLoop(ws, r.st, k - 1)

TaikoNthInner(ws, s, n) ==
  LET r == TaikoTakeLoop(ws, s, n)
  IN IF ~r.ok THEN [st |-> r.st, some |-> FALSE] ELSE TaikoNext(ws, r.st)

TaikoNth(ws, s, n) ==
  LET remaining == LenOf("taiko", ws, s) IN
  IF n >= remaining
  THEN [st |-> IF remaining >= 1 THEN TaikoNthInner(ws, s, remaining - 1).st ELSE s, some |-> FALSE]
  ELSE TaikoNthInner(ws, s, n)

---- \* dispatch ----

DoNext(mode, ws, s) == IF mode = "taiko" THEN TaikoNext(ws, s) ELSE StdNext(mode, ws, s)
DoNth(mode, ws, s, n) == IF mode = "taiko" THEN TaikoNth(ws, s, n) ELSE StdNth(mode, ws, s, n)

(* A call is <<"next", 0>> or <<"nth", n>>; `len` is observed after every call. *)
DoCall(mode, ws, s, c) == IF c[1] = "next" THEN DoNext(mode, ws, s) ELSE DoNth(mode, ws, s, c[2])

(* What the returned attributes show. *)
View(mode, s) == [cnt |-> IF mode = "mania" THEN [s.cnt EXCEPT ![1] = s.idx] ELSE s.cnt,
                  proc |-> s.proc]

(* What a caller can observe after a call (public API + the idx/proc hook). *)
Obs(mode, ws, r) == [some |-> r.some, len |-> LenOf(mode, ws, r.st), cnt |-> View(mode, r.st).cnt,
                     idx |-> r.st.idx, proc |-> r.st.proc]

(* The gradual performance wrapper clamps n to the remaining objects.       *)
PerfNth(mode, ws, s, n) ==
  LET l == LenOf(mode, ws, s)
  IN DoNth(mode, ws, s, IF l < 0 THEN n ELSE Min(n, SatSub(l, 1)))

(* Gradual performance: nth(state, n) = inner.nth(n)? then the tuple handed *)
(* to the one-shot performance builder: attributes, passed_objects = idx.   *)
PerfTuple(mode, s) == [attrs |-> View(mode, s), passed |-> s.idx]

=============================================================================
