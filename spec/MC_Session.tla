----------------------------- MODULE MC_Session -----------------------------
(* all histories up to MaxLen over the call alphabet: repetitions, interleavings *)
(* with another map, two gradual handles over the same map and settings.         *)
EXTENDS Session, Json
CONSTANT MaxLen, Wide, Lockstep     \* Lockstep: "" | a map name: only two calculators with different settings over that map, long histories | "slot"
VARIABLES hist, pos
vars == <<hist, pos>>
C(op, m, cfg, h) == [op |-> op, m |-> m, cfg |-> cfg, h |-> h]
Alphabet ==
  \* "slot": ONE map value that is overwritten in place by maps of the same size (m5, its time-halved twin m7, m6 = m5 under other
  \* HP / AR) and used for a calculation in a target mode each time - same address, same object count, different content
  IF Lockstep = "slot" THEN {C("slot", m, mode, "-") : m \in {"m5", "m6", "m7"}, mode \in {"taiko", "mania", "catch", "osu"}} ELSE
  IF Lockstep # "" THEN {C("gnext", Lockstep, "C", "h3"), C("gnext", Lockstep, "D", "h4")} ELSE
  {C("decode", "m1", "-", "-"), C("bpm", "m1", "-", "-"), C("convert", "m1", "taiko", "-"),
   C("calc", "m1", "A", "-"), C("calc", "m2", "A", "-"), C("perf", "m1", "A", "-"),
   C("gnext", "m1", "A", "h1"), C("gnext", "m1", "A", "h2"),
   \* two calculators over the taiko map under DIFFERENT settings, stepped in any interleaving on one thread
   C("gnext", "m2", "C", "h3"), C("gnext", "m2", "D", "h4"),
   \* two DIFFERENT osu! maps through the same conversion path (state keyed by an address or left from the previous map), and a
   \* calculation whose intermediate collections could be iterated in hash order (mania Invert)
   C("convert", "m1", "mania", "-"), C("convert", "m5", "mania", "-"), C("calc", "m4", "I", "-"),
   \* the same objects under other difficulty values (same size, maybe the same address), and a builder value that is reused
   \* with other mods after it has calculated once
   C("convert", "m6", "mania", "-"), C("rcalc", "m1", "N", "-"), C("rcalc", "m1", "T", "-"),
   C("rperf", "m1", "N", "-"), C("rperf", "m1", "T", "-"),
   \* a lazer mod whose settings are all unset (Random without a seed): whatever the library does with it, it does it every time
   C("calc", "m2", "R1", "-"), C("gnext", "m2", "R1", "h7")}
  \cup (IF Wide THEN {C("strains", "m1", "B", "-"), C("convert", "m5", "taiko", "-"), C("calc", "m1", "B", "-"),
                      C("attrs", "m2", "B", "-"), C("bpm", "m2", "-", "-"), C("gnext", "m3", "B", "h5"), C("gnext", "m4", "A", "h6")} ELSE {})
Handles == {"h1", "h2", "h3", "h4", "h5", "h6", "h7"}
Init == hist = <<>> /\ pos = [h \in Handles |-> 0]
Next == /\ Len(hist) < MaxLen
        /\ \E c \in Alphabet : hist' = Append(hist, [c |-> c, key |-> KeyOf(c, pos)]) /\ pos' = StepPos(c, pos)
(* two handles over the same (map, settings) at the same position have the same key: they must agree *)
KeysFunctional == \A i, j \in 1..Len(hist) : (hist[i].c.op = "gnext" /\ hist[j].c.op = "gnext"
                      /\ hist[i].c.m = hist[j].c.m /\ hist[i].c.cfg = hist[j].c.cfg /\ hist[i].key[4] = hist[j].key[4])
                     => hist[i].key = hist[j].key
Printer == hist # <<>> => PrintT(<<"REPLAY", ToJson([calls |-> [i \in 1..Len(hist) |-> hist[i].c]])>>)
=============================================================================
