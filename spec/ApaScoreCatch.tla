--------------------------- MODULE ApaScoreCatch ---------------------------
(***************************************************************************)
(* C12 for UNBOUNDED counts (Apalache): the integer branch of the osu!catch *)
(* `generate_state` (ScoreGen.tla, GenCatch) written without records,      *)
(* sequences or recursion, and the C12 requirements unrolled for catch.    *)
(* TLC checks on the bounded cases of MC_ScoreGen that this flat version   *)
(* equals ScoreGen's (MC_ApaAgree.tla); Apalache then shows the            *)
(* requirements for ALL non-negative counts and provided values.           *)
(***************************************************************************)
EXTENDS Integers
VARIABLES
  \* @type: Int;
  F,
  \* @type: Int;
  D,
  \* @type: Int;
  T,
  \* @type: Int;
  p300,
  \* @type: Int;
  p100,
  \* @type: Int;
  p50,
  \* @type: Int;
  pkatu,
  \* @type: Int;
  pmiss,
  \* @type: Int;
  pcombo

NONE == -1
Has(v) == v # NONE
Or0(v) == IF v = NONE THEN 0 ELSE v
Min(a, b) == IF a < b THEN a ELSE b
SatSub(a, b) == IF a > b THEN a - b ELSE 0

Misses == Min(Or0(pmiss), F + D)
Combo == IF Has(pcombo) THEN Min(pcombo, F + D - Misses) ELSE F + D - Misses

(* fruits / droplets: <<fruits, droplets, no u32 underflow>> as three operators *)
BothNrem == SatSub(F + D, p300 + p100 + Misses)
BothNewD == Min(BothNrem, SatSub(D, p100))
BothD1 == p100 + BothNewD
BothF1 == p300 + (BothNrem - BothNewD)
BothF2 == Min(BothF1, SatSub(F + D, BothD1 + Misses))
BothD2 == Min(BothD1, F + D - BothF2 - Misses)
OnlyFD1 == SatSub(D, SatSub(Misses, SatSub(F, p300)))
OnlyDF1 == SatSub(F, SatSub(Misses, SatSub(D, p100)))
NoneD1 == SatSub(D, Misses)
NoneInner == Misses - SatSub(D, NoneD1)

Fruits == IF Has(p300) /\ Has(p100) THEN BothF2
          ELSE IF Has(p300) THEN F + D - Misses - OnlyFD1
          ELSE IF Has(p100) THEN OnlyDF1
          ELSE F - NoneInner
Droplets == IF Has(p300) /\ Has(p100) THEN BothD2
            ELSE IF Has(p300) THEN OnlyFD1
            ELSE IF Has(p100) THEN F + D - Misses - OnlyDF1
            ELSE NoneD1
Ok == IF Has(p300) /\ Has(p100) THEN F + D - BothF2 - Misses >= 0
      ELSE IF Has(p300) THEN F + D - Misses - OnlyFD1 >= 0
      ELSE IF Has(p100) THEN F + D - Misses - OnlyDF1 >= 0
      ELSE NoneInner >= 0 /\ F - NoneInner >= 0

Tiny == IF Has(p50) /\ Has(pkatu) THEN p50 + SatSub(T, p50 + pkatu)
        ELSE IF Has(p50) THEN Min(T, p50)
        ELSE IF Has(pkatu) THEN SatSub(T, pkatu)
        ELSE T
TinyMiss == IF Has(p50) /\ Has(pkatu) THEN pkatu
            ELSE IF Has(p50) THEN SatSub(T, p50)
            ELSE IF Has(pkatu) THEN Min(T, pkatu)
            ELSE 0

(* the C12 requirements of ScoreGen.tla for mode = "catch" *)
N == F + D
Rem == N - Misses
Prov(v) == IF Has(v) THEN Min(v, Rem) ELSE 0
Fits == Prov(p300) + Prov(p100) + Misses <= N
NonNeg == Fruits >= 0 /\ Droplets >= 0 /\ Tiny >= 0 /\ TinyMiss >= 0 /\ Misses >= 0 /\ Combo >= 0
MissesOk == Misses <= N
KeepOk == Fits => /\ ((Has(p300) /\ p300 <= Rem /\ p300 <= F) => Fruits >= p300)
                  /\ ((Has(p100) /\ p100 <= Rem /\ p100 <= D) => Droplets >= p100)
SumOk == Fits => Fruits + Droplets + Misses = N
TinyOk == (Or0(p50) + Or0(pkatu) <= T) => Tiny + TinyMiss = T
ComboOk == Combo <= SatSub(N, Misses)
Req == Ok /\ NonNeg /\ MissesOk /\ KeepOk /\ SumOk /\ TinyOk /\ ComboOk

Init == /\ F \in Nat /\ D \in Nat /\ T \in Nat
        /\ p300 \in Int /\ p300 >= -1 /\ p100 \in Int /\ p100 >= -1
        /\ p50 \in Int /\ p50 >= -1 /\ pkatu \in Int /\ pkatu >= -1
        /\ pmiss \in Int /\ pmiss >= -1 /\ pcombo \in Int /\ pcombo >= -1
Next == UNCHANGED <<F, D, T, p300, p100, p50, pkatu, pmiss, pcombo>>
=============================================================================
