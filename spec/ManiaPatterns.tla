---------------------------- MODULE ManiaPatterns ----------------------------
(***************************************************************************)
(* The osu! -> osu!mania pattern generators (src/mania/convert/:           *)
(* pattern_generator/{hit_object,path_object,end_time_object}.rs, mod.rs). *)
(* C19: every generated note sits in a column below the key count; C05:    *)
(* `assert!(has_valid_column)` in the three find_available_column copies   *)
(* never fires, the search loops terminate, no u8 / shift wrap-around.     *)
(*                                                                         *)
(* The converter walks the source objects; per object a generator builds a *)
(* Pattern from: the key count K, the PREVIOUS pattern (contained columns, *)
(* last column, number of notes), the stair direction, a convert-type flag *)
(* set derived from timing / position / density, hit-sound flags, a        *)
(* conversion-difficulty class and a deterministic RNG.  The model keeps   *)
(* the discrete part exactly and replaces every RNG draw by a choice among *)
(* the outcomes that draw can have, so the set of model behaviours         *)
(* contains every behaviour of the code.  Numeric inputs (times, density)  *)
(* only enter through the branch they select and are chosen freely.        *)
(*                                                                         *)
(* Pattern = [cols, last, len]; a generator returns a SET of results       *)
(* [p, e, err]: p the whole pattern, e its part that ends at the object's  *)
(* end time (what the converter keeps as next `prev`), err # "" a panic or *)
(* an out-of-range column.                                                 *)
(***************************************************************************)
EXTENDS Integers, FiniteSets, Sequences, TLC
CONSTANT K                       \* total_columns
RS == IF K = 8 THEN 1 ELSE 0     \* random_start(): 7K+1 keeps column 0 special

Empty == [cols |-> {}, last |-> -1, len |-> 0]
Add(p, c) == [cols |-> p.cols \cup {c}, last |-> c, len |-> p.len + 1]
InRange(c) == c \in 0..(K - 1)
RangeErr(c) == IF InRange(c) THEN "" ELSE "column out of range"
LastCol(p) == IF p.len = 0 THEN 0 ELSE p.last
Min(a, b) == IF a < b THEN a ELSE b
Max(a, b) == IF a > b THEN a ELSE b

(* get_random_note_count(p2..p6), probabilities in 1/1000: the counts some RNG value yields *)
NoteCounts(P) ==       \* P = <<p2, p3, p4, p5, p6>>
  LET p(n) == P[n - 1]
      Poss(n) == IF n = 1 THEN \A m \in 2..6 : p(m) < 1000
                 ELSE p(n) > 0 /\ \A m \in (n + 1)..6 : p(m) < p(n) /\ p(m) < 1000
  IN {n \in 1..6 : Poss(n)}

(* find_available_column: the initial column if valid (NOT range checked by the code), else the assert, else any *)
(* valid column of lower..upper-1 (random iteration)                                                            *)
FA(c0, lower, upper, Valid(_)) ==
  IF Valid(c0) THEN [cs |-> {c0}, fail |-> FALSE]
  ELSE LET V == {c \in lower..(upper - 1) : Valid(c)} IN [cs |-> V, fail |-> V = {}]
(* ... with get_next_column of a GATHERED pattern: last + 1, wrapping from K to random_start *)
FAG(c0, Valid(_)) ==
  IF Valid(c0) THEN [cs |-> {c0}, fail |-> FALSE]
  ELSE LET V == {c \in RS..(K - 1) : Valid(c)}
           d(c) == (((c - c0 - 1) % (K - RS)) + (K - RS)) % (K - RS)
       IN IF V = {} THEN [cs |-> {}, fail |-> TRUE]
          ELSE [cs |-> {c \in V : \A c2 \in V : d(c) <= d(c2)}, fail |-> FALSE]

XCols == IF K = 8 THEN 1..7 ELSE 0..(K - 1)          \* get_column(allow_special = true)

(* Observation-guided evaluation (trace validation): `obs` is the logged column sequence of the generated pattern  *)
(* in insertion order, or <<>> when every outcome is wanted (model checking).  A choice that would add a note the  *)
(* log does not show at that position is dropped at once, so validating a long slider stays linear.               *)
Match(obs, i, c) == obs = <<>> \/ (i <= Len(obs) /\ obs[i] = c)

-----------------------------------------------------------------------------
(* HitObjectPatternGenerator (circles).  x = [prev, ct, finish, clap, cd, x0] *)
(* ct: set of flag names; cd: conversion difficulty class 0..5 for the        *)
(* boundaries 2.0 2.5 3.0 4.0 6.5                                             *)
HR(p, err) == [p |-> p, e |-> p, err |-> err]

HitNoteStep(s, x, allow, gathered) ==
  IF s.err # "" THEN {s}
  ELSE LET valid(c) == c \notin s.p.cols /\ (allow \/ c \notin x.prev.cols)
           fa == IF gathered THEN FAG(s.c, valid) ELSE FA(s.c, RS, K, valid)
       IN IF fa.fail THEN {[s EXCEPT !.err = "assert!(has_valid_column) in hit_object"]}
          ELSE {[p |-> Add(s.p, c), c |-> c, err |-> RangeErr(c)] : c \in {c2 \in fa.cs : Match(x.obs, s.p.len + 1, c2)}}
RECURSIVE HitNotes(_, _, _, _, _)
HitNotes(S, n, x, allow, gathered) ==
  IF n <= 0 THEN S ELSE HitNotes(UNION {HitNoteStep(s, x, allow, gathered) : s \in S}, n - 1, x, allow, gathered)

GenerateRandomNotes(x, n0) ==
  LET allow == "FORCE_NOT_STACK" \notin x.ct
      n == IF allow THEN n0 ELSE Min(K - RS - Cardinality(x.prev.cols), n0)
  IN HitNotes({[p |-> Empty, c |-> x.x0, err |-> ""]}, n, x, allow, "GATHERED" \in x.ct)

Special(x, s) == IF s.err = "" /\ RS > 0 /\ x.clap /\ x.finish THEN [s EXCEPT !.p = Add(s.p, 0)] ELSE s

HitCountCaps(P) ==           \* hit_object.rs get_random_note_count: <<p2, p3, p4, p5>>
  CASE K = 2 -> <<0, 0, 0, 0>>
    [] K = 3 -> <<Min(P[1], 100), 0, 0, 0>>
    [] K = 4 -> <<Min(P[1], 230), Min(P[2], 40), 0, 0>>
    [] K = 5 -> <<P[1], Min(P[2], 150), Min(P[3], 30), 0>>
    [] OTHER -> P
GenerateRandomPattern(x, P) ==
  LET Q == HitCountCaps(P)
      Q2 == IF x.clap THEN <<1000, Q[2], Q[3], Q[4]>> ELSE Q
  IN UNION {{Special(x, s) : s \in GenerateRandomNotes(x, n)} : n \in NoteCounts(<<Q2[1], Q2[2], Q2[3], Q2[4], 0>>)}

MirrorCounts(cp, p2, p3) ==  \* get_random_note_count_mirrored -> set of <<note_count, add_to_centre>>
  LET c3 == CASE K = 2 -> <<0, 0, 0>>
              [] K = 3 -> <<Min(cp, 30), 0, 0>>
              [] K = 4 -> <<0, 1000 - Max((1000 - p2) * 2, 800), 0>>
              [] K = 5 -> <<Min(cp, 30), p2, 0>>
              [] K = 6 -> <<0, 1000 - Max((1000 - p2) * 2, 50), 1000 - Max((1000 - p3) * 2, 850)>>
              [] OTHER -> <<cp, p2, p3>>
      q2 == Max(0, Min(1000, c3[2]))
      q3 == Max(0, Min(1000, c3[3]))
  IN {<<n, ctr>> \in NoteCounts(<<q2, q3, 0, 0, 0>>) \X BOOLEAN : ctr => (K % 2 # 0 /\ n # 3 /\ c3[1] > 0)}

MirrorStep(s, limit, obs) ==
  IF s.err # "" THEN {s}
  ELSE LET valid(c) == c \notin s.p.cols
           fa == FA(s.c, RS, limit, valid)
       IN IF fa.fail THEN {[s EXCEPT !.err = "assert!(has_valid_column) in hit_object (mirrored)"]}
          ELSE {LET m == RS + K - c - 1
                IN [p |-> Add(Add(s.p, c), m), c |-> c, err |-> IF InRange(c) THEN RangeErr(m) ELSE RangeErr(c)]
                : c \in {c2 \in fa.cs : Match(obs, s.p.len + 1, c2)}}
RECURSIVE MirrorNotes(_, _, _, _)
MirrorNotes(S, n, limit, obs) == IF n <= 0 THEN S ELSE MirrorNotes(UNION {MirrorStep(s, limit, obs) : s \in S}, n - 1, limit, obs)

GenerateMirrored(x, cp, p2, p3) ==
  IF "FORCE_NOT_STACK" \in x.ct THEN GenerateRandomPattern(x, <<500 + p2 \div 2, p2, (p2 + p3) \div 2, p3>>)
  ELSE LET limit == IF K % 2 = 0 THEN K \div 2 ELSE (K - 1) \div 2
           (* next_int_range(lower, upper) with upper <= lower yields lower *)
           starts == IF limit > RS THEN RS..(limit - 1) ELSE {RS}
       IN UNION {UNION {{LET s1 == IF s.err = "" /\ nc[2] THEN [s EXCEPT !.p = Add(s.p, K \div 2)] ELSE s IN Special(x, s1)
                         : s \in MirrorNotes({[p |-> Empty, c |-> c0, err |-> ""]}, nc[1], limit, x.obs)}
                        : c0 \in starts} : nc \in MirrorCounts(cp, p2, p3)}

Single(c) == {[p |-> Add(Empty, c), c |-> c, err |-> RangeErr(c)]}

GenerateCore(x) ==
  LET prev == x.prev  ct == x.ct  last == LastCol(x.prev) IN
  IF K = 1 THEN Single(0)
  ELSE IF "REVERSE" \in ct /\ prev.len > 0 THEN
    (* notes are added for i ascending: the last added note belongs to the largest occupied i *)
    LET is == {i \in RS..(K - 1) : i \in prev.cols}
        cols == {RS + K - i - 1 : i \in is}
    IN {[p |-> IF is = {} THEN Empty ELSE [cols |-> cols, last |-> RS + K - (CHOOSE i \in is : \A j \in is : j <= i) - 1, len |-> Cardinality(is)],
         c |-> 0, err |-> IF \A c \in cols : InRange(c) THEN "" ELSE "column out of range"]}
  ELSE IF "CYCLE" \in ct /\ prev.len = 1 /\ (K # 8 \/ last # 0) /\ (K % 2 = 0 \/ last # K \div 2) THEN Single(RS + K - last - 1)
  ELSE IF "FORCE_STACK" \in ct /\ prev.len > 0 THEN
    LET is == {i \in RS..(K - 1) : i \in prev.cols}
    IN {[p |-> IF is = {} THEN Empty ELSE [cols |-> is, last |-> CHOOSE i \in is : \A j \in is : j <= i, len |-> Cardinality(is)], c |-> 0, err |-> ""]}
  ELSE IF prev.len = 1 /\ "STAIR" \in ct THEN Single(IF last + 1 = K THEN RS ELSE last + 1)
  ELSE IF prev.len = 1 /\ "REVERSE_STAIR" \in ct THEN
    (* `last_column as i8 - 1`, compared with random_start - 1, then `as u8`: -1 becomes 255 *)
    LET t == last - 1 IN Single(IF t = RS - 1 THEN K - 1 ELSE IF t < 0 THEN 256 + t ELSE t)
  ELSE IF "KEEP_SINGLE" \in ct THEN GenerateRandomNotes(x, 1)
  ELSE IF "MIRROR" \in ct THEN
    (IF x.cd >= 5 THEN GenerateMirrored(x, 120, 380, 120) ELSE IF x.cd >= 4 THEN GenerateMirrored(x, 120, 170, 0) ELSE GenerateMirrored(x, 120, 0, 0))
  ELSE LET low == "LOW_PROBABILITY" \in ct IN
    IF x.cd >= 5 THEN GenerateRandomPattern(x, IF low THEN <<780, 420, 0, 0>> ELSE <<1000, 620, 0, 0>>)
    ELSE IF x.cd >= 4 THEN GenerateRandomPattern(x, IF low THEN <<350, 80, 0, 0>> ELSE <<520, 150, 0, 0>>)
    ELSE IF x.cd >= 1 THEN GenerateRandomPattern(x, IF low THEN <<180, 0, 0, 0>> ELSE <<450, 0, 0, 0>>)
    ELSE GenerateRandomPattern(x, <<0, 0, 0, 0>>)

HitBranch(x) ==
  LET prev == x.prev  ct == x.ct  last == LastCol(x.prev) IN
  IF K = 1 THEN "single"
  ELSE IF "REVERSE" \in ct /\ prev.len > 0 THEN "reverse"
  ELSE IF "CYCLE" \in ct /\ prev.len = 1 /\ (K # 8 \/ last # 0) /\ (K % 2 = 0 \/ last # K \div 2) THEN "cycle"
  ELSE IF "FORCE_STACK" \in ct /\ prev.len > 0 THEN "stack"
  ELSE IF prev.len = 1 /\ "STAIR" \in ct THEN "stair"
  ELSE IF prev.len = 1 /\ "REVERSE_STAIR" \in ct THEN "reverse_stair"
  ELSE IF "KEEP_SINGLE" \in ct THEN "keep_single"
  ELSE IF "MIRROR" \in ct THEN "mirror" ELSE "random"

(* generate(): the stair direction flips when a note of a (REVERSE_)STAIR pattern reaches the border;     *)
(* ManiaObject::column clamps the position to K - 1                                                        *)
StairAfter(x, p) ==
  LET clamp(c) == Min(c, K - 1)
      cs == {clamp(c) : c \in p.cols}
      s1 == IF "STAIR" \in x.ct /\ (K - 1) \in cs THEN "REVERSE_STAIR" ELSE x.stair
  IN IF "REVERSE_STAIR" \in x.ct /\ RS \in cs THEN "STAIR" ELSE s1
(* NOTE: the code walks the notes in order and both assignments can happen; with one flag of the two in ct *)
(* (the generator only ever adds prev.stair) at most one applies.                                          *)

(* the flag set HitObjectPatternGenerator::new derives; cls = the timing / position / density branch 1..9 *)
HitFlags(cls, stair, finish, clap) ==
  LET base == CASE cls = 1 -> {"FORCE_NOT_STACK", "KEEP_SINGLE"}
                [] cls = 2 -> {"FORCE_NOT_STACK", "KEEP_SINGLE", stair}
                [] cls = 3 -> {"FORCE_NOT_STACK", "LOW_PROBABILITY"}
                [] cls = 4 -> {"FORCE_NOT_STACK"}
                [] cls = 5 -> {"CYCLE", "KEEP_SINGLE"}
                [] cls = 6 -> {"FORCE_STACK", "LOW_PROBABILITY"}
                [] cls = 7 -> {"REVERSE", "LOW_PROBABILITY"}
                [] cls = 8 -> {}
                [] OTHER -> {"LOW_PROBABILITY"}
  IN IF "KEEP_SINGLE" \in base THEN base
     ELSE IF finish /\ K # 8 THEN base \cup {"MIRROR"}
     ELSE IF clap THEN base \cup {"GATHERED"} ELSE base

-----------------------------------------------------------------------------
(* PathObjectPatternGenerator (sliders).                                                         *)
(* y = [prev, low, span, seg, long, cd, x0, dbl, head, exact, zero]                              *)
(*   seg: segment_duration class 0..7 for the boundaries 79 90 110 120 160 200 400               *)
(*   long: end - start >= 4000; dbl: the sample or the head sample has CLAP / FINISH;            *)
(*   head: the head sample has WHISTLE / FINISH / CLAP; exact: start + span * seg = end;         *)
(*   zero: segment_duration = 0                                                                  *)
(* a note at row i (time start + i * seg) ends at the end time iff exact and (i = span or zero); *)
(* a hold from any row to the end time always does; a tiled hold ends at start + span * seg      *)
PR(y, c, err) == [p |-> Empty, e |-> Empty, c |-> c, err |-> err, obs |-> y.obs]
AddP(s, c, atEnd) == [s EXCEPT !.p = Add(s.p, c), !.e = IF atEnd THEN Add(s.e, c) ELSE s.e, !.c = c,
                               !.err = IF s.err # "" THEN s.err
                                       ELSE IF ~Match(s.obs, s.p.len + 1, c) THEN "mismatch" ELSE RangeErr(c)]
Live(S) == {s \in S : s.err # "mismatch"}
RowAtEnd(y, i) == y.exact /\ (i = y.span \/ y.zero)
RandCols == RS..(K - 1)                              \* get_random_column(None, None)

PathFAStep(s, Valid(_), atEnd) ==
  IF s.err # "" THEN {s}
  ELSE LET fa == FA(s.c, RS, K, Valid)
       IN IF fa.fail THEN {[s EXCEPT !.err = "assert!(has_valid_column) in path_object"]}
          ELSE {AddP(s, c, atEnd) : c \in fa.cs}

(* generate_random_hold_notes *)
RECURSIVE HoldLoop(_, _, _, _)
HoldLoop(S, n, y, usePrev) ==
  IF n <= 0 THEN S
  ELSE HoldLoop(Live(UNION {LET valid(c) == c \notin s.p.cols /\ (~usePrev \/ c \notin y.prev.cols) IN PathFAStep(s, valid, TRUE) : s \in S}), n - 1, y, usePrev)
RandomHoldNotes(y, n) ==
  LET usable == K - RS - Cardinality(y.prev.cols)
      S0 == {PR(y, c, "") : c \in RandCols}
      S1 == HoldLoop(S0, Min(usable, n), y, TRUE)
  IN HoldLoop(S1, n - usable, y, FALSE)          \* note_count.saturating_sub(usable) on i32: plain difference, <= 0 means no iteration

(* generate_random_notes *)
RECURSIVE NotesLoop(_, _, _, _)
NotesLoop(S, i, n, y) ==
  IF i >= n THEN S
  ELSE NotesLoop(Live(UNION {IF s.err # "" THEN {s}
                        ELSE LET s1 == AddP(s, s.c, RowAtEnd(y, i))          \* add the note, then look for the next column
                                 valid(c) == c # s.c
                                 fa == FA(s.c, RS, K, valid)
                             IN IF s1.err # "" THEN {s1}
                                ELSE IF fa.fail THEN {[s1 EXCEPT !.err = "assert!(has_valid_column) in path_object (random notes)"]}
                                ELSE {[s1 EXCEPT !.c = c] : c \in fa.cs} : s \in S}), i + 1, n, y)
PathRandomNotes(y, fns, n) ==
  LET start == IF fns /\ Cardinality(y.prev.cols) < K
               THEN LET valid(c) == c \notin y.prev.cols
                        fa == FA(y.x0, RS, K, valid)
                    IN IF fa.fail THEN {PR(y, y.x0, "assert!(has_valid_column) in path_object (random notes, initial)")}
                       ELSE {PR(y, c, "") : c \in fa.cs}
               ELSE {PR(y, y.x0, "")}
  IN NotesLoop(start, 0, n, y)

(* generate_stair *)
RECURSIVE StairLoop(_, _, _, _, _)
StairLoop(s, col, inc, i, y) ==
  IF i > y.span THEN s
  ELSE LET s1 == AddP(s, col, RowAtEnd(y, i))
           nxt == IF inc THEN (IF col >= K - 1 THEN col - 1 ELSE col + 1) ELSE (IF col <= RS THEN col + 1 ELSE col - 1)
           inc2 == IF inc THEN col < K - 1 ELSE col <= RS
       IN StairLoop(s1, nxt, inc2, i + 1, y)
PathStair(y) == {StairLoop(PR(y, y.x0, ""), y.x0, inc, 0, y) : inc \in BOOLEAN}

(* generate_random_multiple_notes *)
U8(c) == IF c < 0 THEN 256 + c ELSE c
RECURSIVE MultiLoop(_, _, _, _)
MultiLoop(S, i, iv, y) ==
  IF i > y.span THEN S
  ELSE LET legacy == IF K \in 4..8 THEN 1 ELSE 0
           step(s) == IF s.err # "" THEN {s}
                      ELSE LET s1 == AddP(s, U8(s.c), RowAtEnd(y, i))
                               n1 == s.c + iv
                               n2 == IF n1 >= K - RS THEN n1 - K - RS + legacy ELSE n1
                               n3 == n2 + RS
                               s2 == IF K > 2 THEN AddP(s1, U8(n3), RowAtEnd(y, i)) ELSE s1
                           IN {[s2 EXCEPT !.c = c] : c \in RandCols}
       IN MultiLoop(Live(UNION {step(s) : s \in S}), i + 1, iv, y)
PathMulti(y) ==
  LET legacy == IF K \in 4..8 THEN 1 ELSE 0
      hi == K - legacy
      ivs == IF hi > 1 THEN 1..(hi - 1) ELSE {1}
  IN UNION {MultiLoop({PR(y, y.x0, "")}, 0, iv, y) : iv \in ivs}

(* generate_n_random_notes *)
PathNRandom(y, P) ==       \* P = <<p2, p3, p4>>
  LET Q == CASE K = 2 -> <<0, 0, 0>>
             [] K = 3 -> <<Min(P[1], 100), 0, 0>>
             [] K = 4 -> <<Min(P[1], 300), Min(P[2], 40), 0>>
             [] K = 5 -> <<Min(P[1], 340), Min(P[2], 100), Min(P[3], 30)>>
             [] OTHER -> P
      Q2 == IF ~y.low /\ y.dbl THEN <<1000, Q[2], Q[3]>> ELSE Q
  IN UNION {RandomHoldNotes(y, n) : n \in NoteCounts(<<Q2[1], Q2[2], Q2[3], 0, 0>>)}

(* generate_tiled_hold_notes (FORCE_NOT_STACK is never set on this path) *)
RECURSIVE TiledLoop(_, _, _)
TiledLoop(S, n, y) ==
  IF n <= 0 THEN S
  ELSE TiledLoop(Live(UNION {LET valid(c) == c \notin s.p.cols IN PathFAStep(s, valid, y.exact) : s \in S}), n - 1, y)
PathTiled(y) == TiledLoop({PR(y, y.x0, "")}, Min(y.span, K), y)

(* generate_hold_and_normal_notes *)
RECURSIVE RowLoop(_, _, _, _, _)       \* n notes of one row; row = columns of the row so far
RowLoop(S, n, hold, atEnd, y) ==
  IF n <= 0 THEN S
  ELSE RowLoop(Live(UNION {IF s.err # "" THEN {s}
                      ELSE LET valid(c) == c # hold /\ c \notin s.row
                               fa == FA(s.c, RS, K, valid)
                           IN IF fa.fail THEN {[s EXCEPT !.err = "assert!(has_valid_column) in path_object (hold and normal)"]}
                              ELSE {[AddP(s, c, atEnd) EXCEPT !.row = s.row \cup {c}] : c \in fa.cs} : s \in S}), n - 1, hold, atEnd, y)
RECURSIVE RowsLoop(_, _, _, _, _)
RowsLoop(S, i, n, hold, y) ==
  IF i > y.span THEN S
  ELSE LET skip == ~y.head /\ (i = 0 \/ y.zero)
           S1 == {[s EXCEPT !.row = {}] : s \in S}
       IN RowsLoop(IF skip THEN S1 ELSE RowLoop(S1, n, hold, RowAtEnd(y, i), y), i + 1, n, hold, y)
PathHoldAndNormal(y) ==
  LET P2 == IF y.cd >= 5 THEN 630 ELSE IF y.cd >= 4 THEN (IF K < 6 THEN 120 ELSE 450) ELSE IF y.cd >= 2 THEN (IF K < 6 THEN 0 ELSE 240) ELSE -1
      ns == IF P2 < 0 THEN {0} ELSE {Min(n, K - 1) : n \in NoteCounts(<<P2, 0, 0, 0, 0>>)}
      s0 == AddP(PR(y, y.x0, ""), y.x0, TRUE)
      S0 == {[p |-> s0.p, e |-> s0.e, c |-> c, err |-> s0.err, obs |-> y.obs, row |-> {}] : c \in RandCols}
  IN {[p |-> s.p, e |-> s.e, c |-> s.c, err |-> s.err, obs |-> s.obs] : s \in UNION {RowsLoop(S0, 0, n, y.x0, y) : n \in ns}}

PathGenerateInner(y) ==
  IF K = 1 THEN {AddP(PR(y, 0, ""), 0, TRUE)}
  ELSE IF y.span > 1 THEN
    (IF y.seg <= 1 THEN RandomHoldNotes(y, 1)
     ELSE IF y.seg <= 3 THEN PathRandomNotes(y, TRUE, y.span + 1)
     ELSE IF y.seg = 4 THEN PathStair(y)
     ELSE IF y.seg = 5 /\ y.cd >= 3 THEN PathMulti(y)
     ELSE IF y.long THEN PathNRandom(y, <<230, 0, 0>>)
     ELSE IF y.seg = 7 /\ y.span < K - 1 - RS THEN PathTiled(y)
     ELSE PathHoldAndNormal(y))
  ELSE IF y.seg <= 2 THEN PathRandomNotes(y, Cardinality(y.prev.cols) < K, IF y.seg >= 1 THEN 2 ELSE 1)
  ELSE IF y.cd >= 5 THEN PathNRandom(y, IF y.low THEN <<780, 300, 0>> ELSE <<850, 360, 30>>)
  ELSE IF y.cd >= 4 THEN PathNRandom(y, IF y.low THEN <<430, 80, 0>> ELSE <<560, 180, 0>>)
  ELSE IF y.cd >= 2 THEN PathNRandom(y, IF y.low THEN <<300, 0, 0>> ELSE <<370, 80, 0>>)
  ELSE PathNRandom(y, IF y.low THEN <<170, 0, 0>> ELSE <<270, 0, 0>>)

PathBranch(y) ==
  IF K = 1 THEN "single"
  ELSE IF y.span > 1 THEN
    (IF y.seg <= 1 THEN "randomhold" ELSE IF y.seg <= 3 THEN "randomnotes" ELSE IF y.seg = 4 THEN "stair"
     ELSE IF y.seg = 5 /\ y.cd >= 3 THEN "multi" ELSE IF y.long THEN "nrandom"
     ELSE IF y.seg = 7 /\ y.span < K - 1 - RS THEN "tiled" ELSE "holdnormal")
  ELSE IF y.seg <= 2 THEN "randomnotes" ELSE "nrandom"

(* generate(): a pattern of one note is kept whole, otherwise the converter continues with the end-time part *)
PathGenerate(y) == {[p |-> s.p, e |-> IF s.p.len = 1 THEN s.p ELSE s.e, err |-> s.err] : s \in PathGenerateInner(y)}

-----------------------------------------------------------------------------
(* EndTimeObjectPatternGenerator (spinners, holds): z = [prev, finish, short] *)
EndTimeGenerate(z) ==
  IF K = 8 /\ z.finish /\ z.short THEN {HR(Add(Empty, 0), "")}
  ELSE LET lower == IF K = 8 THEN RS ELSE 0
           fns == Cardinality(z.prev.cols) # K
           valid(c) == ~fns \/ c \notin z.prev.cols
       IN UNION {LET fa == FA(c0, lower, K, valid)
                 IN IF fa.fail THEN {HR(Empty, "assert!(has_valid_column) in end_time_object")}
                    ELSE {HR(Add(Empty, c), RangeErr(c)) : c \in fa.cs} : c0 \in lower..(K - 1)}
=============================================================================
