----------------------------- MODULE MC_Decoder -----------------------------
(***************************************************************************)
(* Bounded instances of Decoder: all line sequences up to MaxLines over    *)
(* the line alphabet of an aspect                                          *)
(*   "cp"   timing lines (times incl. equal / decreasing / negative),      *)
(*          mode lines (effect scroll speed depends on the mode seen so    *)
(*          far), bad lines                                                *)
(*   "obj"  hit object lines with equal / decreasing times, mode lines     *)
(*          (mania sorts differently), bad lines                           *)
(*   "diff" difficulty key/value lines (clamps, AR defaulting to OD), mode *)
(* Invariant: the map built from ANY prefix of a file is well-formed.      *)
(* The Printer emits one line per distinct machine state: the file (line   *)
(* sequence reaching it) and the model's final map.                        *)
(***************************************************************************)
EXTENDS Decoder, Json

CONSTANTS Aspect, MaxLines, NTimes

Times == (-1)..(NTimes - 2)          \* includes a negative time, equal and decreasing times

VARIABLES st, lines
vars == <<st, lines>>

Modes == IF Aspect = "cp" THEN {0, 1} ELSE IF Aspect = "obj" THEN {0, 3} ELSE {0, 3}

Alphabet ==
  {[k |-> "mode", m |-> m] : m \in Modes}
  \cup (CASE Aspect = "cp" ->
               {[k |-> "tp", t |-> q[1], bl |-> q[2], tc |-> q[3], kiai |-> q[4]] :
                   q \in Times \X {500, -50, -100, NANBL} \X BOOLEAN \X BOOLEAN}
               \cup {[k |-> "bad", sec |-> "tp"]}
          [] Aspect = "obj" ->
               {[k |-> "obj", t |-> q[1], kind |-> q[2]] : q \in Times \X {"C", "S", "H"}}
               \cup {[k |-> "bad", sec |-> "obj"]}
          [] Aspect = "diff" ->
               {[k |-> "diff", key |-> q[1], v |-> q[2]] : q \in {"HP", "CS", "OD", "AR", "SM", "TR"} \X {"lo", "mid", "hi"}}
               \cup {[k |-> "bad", sec |-> "diff"]})

Init == st = InitState /\ lines = <<>>
Next == /\ Len(lines) < MaxLines
        /\ \E ln \in Alphabet : st' = Step(st, ln) /\ lines' = Append(lines, ln)
Spec == Init /\ [][Next]_vars

(* nlines is part of the state (object ids), so files of different length stay distinct *)
(* bad lines are no-ops in the model, so files that differ only in where bad lines stand   *)
(* would collapse; keep their positions in the view so that each is replayed on the code. *)
StateView == <<st, {i \in 1..Len(lines) : lines[i].k = "bad"}>>

WellFormedInv == WellFormed(Final(st))

(* "bad" lines never change what is decoded *)
BadIsNoop == [][\A ln \in Alphabet : (ln.k = "bad" /\ lines' = Append(lines, ln))
                    => [st' EXCEPT !.nlines = 0] = [st EXCEPT !.nlines = 0]]_vars

Printer == PrintT(<<"REPLAY", ToJson([aspect |-> Aspect, lines |-> lines, final |-> Final(st)])>>)
=============================================================================
