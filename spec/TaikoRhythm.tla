----------------------------- MODULE TaikoRhythm -----------------------------
(***************************************************************************)
(* src/util/interval_grouping.rs (`group_by_interval`) and its two uses in *)
(* src/taiko/difficulty/rhythm/preprocessor.rs: taiko notes are grouped    *)
(* into runs of "the same rhythm" (consecutive intervals within 5 ms), and *)
(* those groups again, by the interval between their starts, into runs of  *)
(* "the same pattern".  The rhythm skill reads both levels.  The grouping  *)
(* is built from Rc / Weak without the `sync` feature and from Arc /       *)
(* RwLock with it (C10).                                                   *)
(*                                                                         *)
(* Intervals are integers (ms); Inf stands for the interval of the first   *)
(* group (f64::INFINITY in the code: not within 5 ms of anything, and      *)
(* nothing is greater than it).                                            *)
(***************************************************************************)
EXTENDS Integers, Sequences

Margin == 5
Inf == 1000000000
Abs(x) == IF x < 0 THEN -x ELSE x
AlmostEq(a, b) == a # Inf /\ b # Inf /\ Abs(a - b) <= Margin
Greater(a, b) == b # Inf /\ (a = Inf \/ a > b + Margin)           \* `next > curr + MARGIN`

\* create_next_group over iv[0..n-1] starting at i0: <<length of the group, index after it>>
RECURSIVE Walk(_, _, _, _)
Walk(iv, n, i, len) ==
  IF i < n - 1
  THEN IF ~AlmostEq(iv[i], iv[i + 1])
       THEN IF Greater(iv[i + 1], iv[i]) THEN <<len + 1, i + 1>> ELSE <<len, i>>     \* the interval grew: keep the object
       ELSE Walk(iv, n, i + 1, len + 1)
  ELSE IF n > 2 /\ i < n /\ AlmostEq(iv[n - 1], iv[n - 2]) THEN <<len + 1, i + 1>> ELSE <<len, i>>
NextGroup(iv, n, i0) == Walk(iv, n, i0 + 1, 1)         \* "this never compares the first two elements in the group"

RECURSIVE GroupsFrom(_, _, _)
GroupsFrom(iv, n, i) == IF i >= n THEN <<>> ELSE LET g == NextGroup(iv, n, i) IN <<g[1]>> \o GroupsFrom(iv, n, g[2])
\* the lengths of the consecutive groups
GroupLens(iv, n) == GroupsFrom(iv, n, 0)

\* level 1 -> level 2: the interval of a group is the distance between its first object and the first object of the group before
SumRange(iv, a, b) == LET RECURSIVE Go(_) Go(k) == IF k > b THEN 0 ELSE iv[k] + Go(k + 1) IN Go(a)
RECURSIVE Starts(_, _)
Starts(lens, from) == IF lens = <<>> THEN <<>> ELSE <<from>> \o Starts(Tail(lens), from + Head(lens))
GroupIntervals(iv, lens) ==
  LET st == Starts(lens, 0)
  IN [g \in 1..Len(lens) |-> IF g = 1 THEN Inf ELSE SumRange(iv, st[g - 1] + 1, st[g])]

Zero(s) == [k \in 0..(Len(s) - 1) |-> s[k + 1]]
Rhythm(ivs) ==            \* ivs: sequence of the note intervals
  LET n == Len(ivs)
      iv == Zero(ivs)
      lens1 == GroupLens(iv, n)
      gi == GroupIntervals(iv, lens1)
      lens2 == GroupLens(Zero(gi), Len(gi))
  IN [groups |-> lens1, intervals |-> gi, patterns |-> lens2]

---- \* what the skills rely on ----
Sum(s) == LET RECURSIVE Go(_) Go(k) == IF k = 0 THEN 0 ELSE s[k] + Go(k - 1) IN Go(Len(s))
Partitions(ivs) == LET r == Rhythm(ivs) IN
  /\ Sum(r.groups) = Len(ivs) /\ Sum(r.patterns) = Len(r.groups)
  /\ \A k \in 1..Len(r.groups) : r.groups[k] >= 1
  /\ \A k \in 1..Len(r.patterns) : r.patterns[k] >= 1
=============================================================================
