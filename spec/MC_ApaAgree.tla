----------------------------- MODULE MC_ApaAgree -----------------------------
(* TLC: on every bounded no-accuracy case of MC_ScoreGen the flat modules that Apalache checks for unbounded counts     *)
(* (ApaScoreStd, ApaScoreCatch) compute the same state and the same requirement verdict as ScoreGen's transcription.    *)
EXTENDS MC_ScoreGen
Std == INSTANCE ApaScoreStd WITH mode <- c.mode, prio <- c.prio, origin <- c.origin, sa <- c.sh.a, sb <- c.sh.b, sc <- c.sh.c, sd <- c.sh.d,
         passed <- c.passed, pgeki <- c.p.geki, p300 <- c.p.n300, pkatu <- c.p.katu, p100 <- c.p.n100, p50 <- c.p.n50, pmiss <- c.p.miss,
         pcombo <- c.p.combo, pends <- c.p.ends, plarge <- c.p.large, psmall <- c.p.small
Cat == INSTANCE ApaScoreCatch WITH F <- c.sh.a, D <- c.sh.b, T <- c.sh.c, p300 <- c.p.n300, p100 <- c.p.n100, p50 <- c.p.n50, pkatu <- c.p.katu,
         pmiss <- c.p.miss, pcombo <- c.p.combo
FlatStd == [geki |-> Std!RGeki, n300 |-> Std!R300, katu |-> Std!RKatu, n100 |-> Std!R100, n50 |-> Std!R50, miss |-> Std!Misses,
            combo |-> Std!RCombo, ends |-> Std!REnds, large |-> Std!RLarge, small |-> Std!RSmall]
FlatCat == [geki |-> 0, n300 |-> Cat!Fruits, katu |-> Cat!TinyMiss, n100 |-> Cat!Droplets, n50 |-> Cat!Tiny, miss |-> Cat!Misses,
            combo |-> Cat!Combo, ends |-> 0, large |-> 0, small |-> 0]
ApaAgrees ==
  (phase = "new" /\ ~Has(c.acc)) =>
     LET g == Gen(c) IN
     IF c.mode = "catch"
     THEN g.ok = Cat!Ok /\ (g.ok => (g.r = FlatCat /\ (Requirements(c, g.r) <=> Cat!Req)))
     ELSE g.r = FlatStd /\ (Requirements(c, g.r) <=> Std!Req)
=============================================================================
