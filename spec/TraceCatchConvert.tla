------------------------- MODULE TraceCatchConvert -------------------------
(* Recorded catch conversions (hook events `catch_obj` / `catch_done`, projected to integers by `catch-record`):       *)
(*   reset  a conversion starts (hard-rock offsets?, take)                                                            *)
(*   fruit / stream / shower  one source object with what the converter did (tiny droplets per gap, bananas, x        *)
(*          offset) and the state it left behind (last position / time, RNG draws so far, bit index of next_bool)     *)
(*   done   the counter (regular: counts + remaining take | gradual: all rows) and facts about the sorted palpable    *)
(*          list                                                                                                      *)
(*   attrs  the public attributes of that calculation                                                                 *)
(* Every event must be the step CatchConvert allows from the state reached so far.                                    *)
EXTENDS CatchConvert, Json, IOUtils, TLC, TLCExt
Rec == ndJsonDeserialize(IOEnv.TRACE)
VARIABLES l, S
tvars == <<l, S>>

Left(S2, ev) ==       \* the state the real converter left behind
  /\ S2.err = ""
  /\ S2.draws = ev.draws /\ S2.bit = ev.bit
  /\ S2.haslast = ev.haslast /\ (ev.haslast => S2.lastpos = ev.lastpos) /\ S2.lastt = ev.lastt

Step(ev) ==
  CASE ev.ev = "reset" -> S' = Init(IF ev.take < 0 THEN Unlimited ELSE ev.take, ev.hr)
    [] ev.ev = "fruit" ->
         LET r == Fruit(S, ev.x, ev.t, ev.off, ev.td)
         IN S' = r.S /\ r.off = ev.off /\ ev.nested = 1 /\ Left(r.S, ev)
    [] ev.ev = "stream" ->
         LET S2 == Stream(S, ev.x, ev.t, ev.lastctrlx, ev.evs)
             tiny == TinyOf(ev.evs)
         IN /\ S' = S2
            /\ \A i \in 1..Len(ev.evs) : ev.evs[i].tiny = tiny[i]
            /\ ev.nested = (S2.npalp - S.npalp) + SumTo(tiny, Len(ev.evs))
            /\ Left(S2, ev)
    [] ev.ev = "shower" ->
         LET S2 == Shower(S, ev.n)
         IN /\ S' = S2 /\ ev.nested = 0
            /\ (BananasExact(ev.s, ev.e) => ev.n = Bananas(ev.s, ev.e))
            /\ Abs(ev.n - Bananas(ev.s, ev.e)) <= 1
            /\ Left(S2, ev)
    [] ev.ev = "done" ->
         /\ UNCHANGED S
         /\ ev.npalp = S.npalp /\ ev.sorted /\ ev.hyper_ok
         /\ IF ev.mode = "regular"
            THEN ev.counts = <<S.fruits, S.droplets, S.tiny>> /\ (ev.takeleft >= 0 => ev.takeleft = S.take)
            ELSE ev.rows = S.rows
    [] ev.ev = "attrs" ->
         /\ UNCHANGED S
         /\ <<ev.fruits, ev.droplets, ev.tiny>> = IF ev.mode = "regular" THEN <<S.fruits, S.droplets, S.tiny>> ELSE PrefixCounts(S.rows, ev.k)
    [] OTHER -> FALSE

TraceInit == l = 1 /\ S = Init(Unlimited, FALSE)
TraceNext == l <= Len(Rec) /\ Step(Rec[l]) /\ l' = l + 1
TraceSpec == TraceInit /\ [][TraceNext]_tvars
TraceAccepted ==
  LET d == TLCGet("stats").diameter IN
  IF d - 1 = Len(Rec) THEN TRUE
  ELSE Print(<<"TRACE-REJECTED at line", d, "event", Rec[d].ev>>, FALSE)
=============================================================================
