----------------------------- MODULE MC_ModsRep -----------------------------
(* every subset of the twelve legacy acronyms x key mod x mode x lazer flag:   *)
(* agreement on the model, and one scenario line per selection for the replay  *)
EXTENDS ModsRep, Json
VARIABLES s, k, mode, lazer, phase
vars == <<s, k, mode, lazer, phase>>
Modes == {"osu", "taiko", "catch", "mania"}
(* two-step enumeration: initial states are computed on one thread *)
Init == /\ s = {} /\ phase = "root" /\ mode \in Modes /\ lazer \in BOOLEAN
        /\ k \in (IF mode = "mania" THEN 0..10 ELSE {0})
Next == /\ phase = "root" /\ phase' = "sel"
        /\ s' \in SUBSET Acronyms
        /\ UNCHANGED <<mode, k, lazer>>
AgreeInv == phase = "sel" => Agree(s, k, mode, lazer)
Printer == phase = "sel" /\ CoherentFor(s, mode) =>
   PrintT(<<"REPLAY", ToJson([mods |-> s, key |-> k, mode |-> mode, lazer |-> lazer,
                               vec |-> [r \in Reps |-> Vector(r, s, k, mode, lazer)]])>>)
=============================================================================
