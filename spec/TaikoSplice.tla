----------------------------- MODULE TaikoSplice -----------------------------
(***************************************************************************)
(* src/taiko/convert.rs: the in-place splice machine that replaces a       *)
(* slider by a burst of hits (C19: one hit sound per object, time order,   *)
(* the splice buffers and `idx`).                                          *)
(*                                                                         *)
(* The machine walks `map.hit_objects` / `map.hit_sounds` with an index.   *)
(* A slider that is to be converted (a numeric decision, given here with   *)
(* the times of its hits: `burst`) is replaced IN BOTH LISTS by its hits:  *)
(* hit k takes node sound k mod max(#node sounds, 1), or the slider's own  *)
(* sound when it has no node sounds; the index then skips the inserted     *)
(* hits.  Holds become spinners.  Finally a tandem sort orders objects and *)
(* sounds by time (stable).  `Expected` says what that must amount to.     *)
(*                                                                         *)
(* object: [id, t, kind, nodes, burst] (further fields are carried along); kind in "C" "S" "P" "H"; times are *)
(* order-preserving ranks; burst = <<>> for a slider that stays a drum roll *)
(***************************************************************************)
EXTENDS Integers, Sequences, TLC

Hit(t) == [id |-> 0, t |-> t, kind |-> "C", nodes |-> <<>>, burst |-> <<>>]
NodeSound(o, own, k) == IF o.nodes = <<>> THEN own ELSE o.nodes[((k - 1) % Len(o.nodes)) + 1]     \* k = 1, 2, ...
BurstObjs(o) == [k \in 1..Len(o.burst) |-> Hit(o.burst[k])]
BurstSounds(o, own) == [k \in 1..Len(o.burst) |-> NodeSound(o, own, k)]

(* the loop of convert(): idx is 0-based as in the code; log collects the idx of every converted slider *)
RECURSIVE Run(_, _, _, _)
Run(objs, sounds, idx, log) ==
  IF idx >= Len(objs) THEN [objs |-> objs, sounds |-> sounds, log |-> log]
  ELSE LET o == objs[idx + 1] IN
    IF o.kind = "S" /\ o.burst # <<>> THEN
      LET n == Len(o.burst)
          objs2 == SubSeq(objs, 1, idx) \o BurstObjs(o) \o SubSeq(objs, idx + 2, Len(objs))
          sounds2 == SubSeq(sounds, 1, idx) \o BurstSounds(o, sounds[idx + 1]) \o SubSeq(sounds, idx + 2, Len(sounds))
      IN Run(objs2, sounds2, idx + (n - 1) + 1, Append(log, idx))                 \* idx += len; idx += 1
    ELSE IF o.kind = "H" THEN Run([objs EXCEPT ![idx + 1].kind = "P"], sounds, idx + 1, log)
    ELSE Run(objs, sounds, idx + 1, log)

(* TandemSorter::new_stable + sort(objects) + sort(sounds): the stable permutation by time, applied to both *)
RECURSIVE InsertSorted(_, _)
InsertSorted(sorted, p) ==
  IF sorted = <<>> THEN <<p>>
  ELSE IF sorted[Len(sorted)].t <= p.t THEN Append(sorted, p)
  ELSE Append(InsertSorted(SubSeq(sorted, 1, Len(sorted) - 1), p), sorted[Len(sorted)])
RECURSIVE StableSort(_, _)
StableSort(ps, k) == IF k = 0 THEN <<>> ELSE InsertSorted(StableSort(ps, k - 1), ps[k])
Paired(objs, sounds) == [i \in 1..Len(objs) |-> [id |-> objs[i].id, t |-> objs[i].t, kind |-> objs[i].kind, snd |-> sounds[i]]]

Convert(objs, sounds) ==
  LET r == Run(objs, sounds, 0, <<>>)
  IN [out |-> StableSort(Paired(r.objs, r.sounds), Len(r.objs)), log |-> r.log, aligned |-> Len(r.objs) = Len(r.sounds)]

(* what the conversion must amount to: every object in source order, converted sliders replaced by their hits *)
RECURSIVE Flat(_, _, _)
Flat(objs, sounds, k) ==
  IF k = 0 THEN <<>>
  ELSE LET o == objs[k] IN
       Flat(objs, sounds, k - 1) \o
       (IF o.kind = "S" /\ o.burst # <<>>
        THEN [j \in 1..Len(o.burst) |-> [id |-> 0, t |-> o.burst[j], kind |-> "C", snd |-> NodeSound(o, sounds[k], j)]]
        ELSE <<[id |-> o.id, t |-> o.t, kind |-> IF o.kind = "H" THEN "P" ELSE o.kind, snd |-> sounds[k]]>>)
Expected(objs, sounds) == LET f == Flat(objs, sounds, Len(objs)) IN StableSort(f, Len(f))
RECURSIVE ExpectedLog(_, _, _)          \* the index of each converted slider in the list as mutated so far
ExpectedLog(objs, k, shift) ==
  IF k > Len(objs) THEN <<>>
  ELSE IF objs[k].kind = "S" /\ objs[k].burst # <<>>
       THEN <<k - 1 + shift>> \o ExpectedLog(objs, k + 1, shift + Len(objs[k].burst) - 1)
       ELSE ExpectedLog(objs, k + 1, shift)
NonDecreasing(ps) == \A i \in 1..(Len(ps) - 1) : ps[i].t <= ps[i + 1].t
=============================================================================
