---------------------------- MODULE MC_PerfStates ----------------------------
(***************************************************************************)
(* C09, performance side: the classes of score states consistent with a    *)
(* prefix of N objects.  A state gives the remainder to one DOMINANT hit    *)
(* result and 0, 1 or a third of the objects to the others; combo and       *)
(* slider-tick classes are independent.  The harness instantiates every     *)
(* class on the real attributes of every mode (fixtures and converts),      *)
(* under mod pairs and both score origins, and projects every float of the  *)
(* result to {Zero, Pos, Neg, NaN, Inf}.                                    *)
(***************************************************************************)
EXTENDS Integers, Sequences, FiniteSets, TLC, Json
CONSTANT Rich
VARIABLES n, dom, ones, third, combo, ticks, phase
vars == <<n, dom, ones, third, combo, ticks, phase>>
Kinds == {"geki", "n300", "katu", "n100", "n50", "miss"}
Ns == IF Rich THEN {"n1", "n2", "n3", "n5", "n10", "n47", "n100", "n333", "full"} ELSE {"n1", "n2", "n5", "n47", "full"}
Init == n \in Ns /\ dom \in Kinds /\ ones = {} /\ third = "none" /\ combo = "max" /\ ticks = "all" /\ phase = "root"
Next == /\ phase = "root" /\ phase' = "st"
        /\ ones' \in SUBSET (Kinds \ {dom})
        /\ third' \in {"none"} \cup (Kinds \ {dom})
        /\ combo' \in {"c0", "c1", "c2", "c10", "half", "max", "over"}
        /\ ticks' \in {"all", "none"}
        /\ UNCHANGED <<n, dom>>
(* a class is consistent: nobody is both a `one` and the `third` *)
Consistent == third \notin ones
Printer == (phase = "st" /\ Consistent) =>
   PrintT(<<"REPLAY", ToJson([n |-> n, dom |-> dom, ones |-> ones, third |-> third, combo |-> combo, ticks |-> ticks])>>)
=============================================================================
