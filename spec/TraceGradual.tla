---------------------------- MODULE TraceGradual ----------------------------
(***************************************************************************)
(* Trace validation (implementation -> specification) for the gradual      *)
(* calculators.  The harness records, on real maps (fixtures, their        *)
(* conversions, seeded random maps), one NDJSON line per public call after *)
(* it returned.  Every line must be explained by Gradual.tla:              *)
(*                                                                         *)
(*  reset  a new calculator over the logged unit weights `units` (what     *)
(*         each object / palpable object contributes, measured on the real *)
(*         one-shot path), announcing `len`                                *)
(*  call   next / nth(n): the logged (some, len, counts) must equal BOTH   *)
(*         the implementation-shaped machine's observation AND what the    *)
(*         property demands at the declarative position                    *)
(*  seq    the sequence a std adaptor (skip, step_by, take, collect)       *)
(*         produced on a fresh calculator: its counts must be the one-shot *)
(*         counts at the positions the adaptor visits on a plain list      *)
(***************************************************************************)
EXTENDS Gradual, Json, IOUtils, TLCExt

Rec == ndJsonDeserialize(IOEnv.TRACE)

VARIABLES l, api, mode, ws, g, virt, pv

tvars == <<l, api, mode, ws, g, virt, pv>>

ToW(u) == <<u[1], u[2], u[3], u[4], u[5]>>
(* mania: n_objects is the index itself; the measured unit must count exactly one object *)
UnitsOf(ev) == [i \in 1..Len(ev.units) |->
                  IF ev.mode = "mania" THEN <<0, ev.units[i][2], ev.units[i][3], ev.units[i][4], ev.units[i][5]>>
                  ELSE ToW(ev.units[i])]
RawUnits(ev) == [i \in 1..Len(ev.units) |-> ToW(ev.units[i])]

TraceInit == /\ l = 1 /\ api = "diff" /\ mode = "osu" /\ ws = <<>>
             /\ g = New("osu", <<>>) /\ virt = 0 /\ pv = 0

T == Total(mode, ws)

WellFormedUnits(m, u) ==
  \A i \in 1..Len(u) :
     CASE m = "osu"   -> u[i][1] + u[i][2] + u[i][4] = 1 /\ u[i][5] >= 1
                         /\ (u[i][2] = 0 => u[i][3] = 0 /\ u[i][5] = 1)
                         /\ (u[i][2] = 1 => u[i][5] = u[i][3] + 2)
       [] m = "taiko" -> u[i][1] \in {0, 1}
       [] m = "catch" -> u[i][1] + u[i][2] = 1
       [] m = "mania" -> u[i][1] = 1 /\ u[i][2] \in {0, 1} /\ u[i][3] >= 1 /\ (u[i][2] = 0 => u[i][3] = 1)

DoReset(ev) ==
  LET u == UnitsOf(ev) IN
  /\ WellFormedUnits(ev.mode, RawUnits(ev))                    \* C14: every object counted as exactly one kind
  /\ ToW(ev.zero) = Zero5                                      \* C14: passed_objects(0) counts nothing
  /\ ev.above_ok                                               \* C14: n above the total = not limiting at all
  /\ ev.len = LenOf(ev.mode, u, New(ev.mode, u))               \* machine's announced length
  /\ ev.len = Total(ev.mode, u)                                \* C02: = number of values
  /\ OneShot(ev.mode, u, Total(ev.mode, u)) = OneShot(ev.mode, u, UNLIMITED) \/ Total(ev.mode, u) = 0
  /\ api' = ev.api /\ mode' = ev.mode /\ ws' = u
  /\ g' = New(ev.mode, u) /\ virt' = 0 /\ pv' = 0

CAP == 100000000
VirtAfter(c) ==
  LET k == (IF c[1] = "next" THEN 0 ELSE c[2]) + 1 IN
  IF api = "diff" THEN Min(virt + k, CAP)
  ELSE IF virt < T THEN Min(virt + k, T) ELSE virt

CntEq(a, b) == \A i \in 1..5 : a[i] = b[i]

DoCallEv(ev) ==
  LET c == <<ev.a[1], ev.a[2]>>
      r == IF api = "perf" THEN PerfNth(mode, ws, g, c[2]) ELSE DoCall(mode, ws, g, c)
      v == VirtAfter(c)
      o == Obs(mode, ws, r)
      xsome == IF api = "diff" THEN v <= T ELSE virt < T
  IN /\ ev.some = o.some /\ ev.len = o.len                       \* the machine explains the event
     /\ (ev.some => CntEq(ToW(ev.cnt), o.cnt))
     /\ ev.some = xsome /\ ev.len = SatSub(T, v)                 \* and so does the property (C15)
     /\ (ev.some => ToW(ev.cnt) = OneShot(mode, ws, v).cnt)      \* C02/C14 (tiny droplets included)
     /\ (ev.some => r.st.idx = v)                                \* C03: passed_objects handed on
     /\ g' = r.st /\ virt' = v /\ pv' = virt
     /\ UNCHANGED <<api, mode, ws>>

(* positions (1-based) a std adaptor yields on a list of T values *)
RECURSIVE StepPositions(_, _, _)
StepPositions(p, k, t) == IF p > t THEN <<>> ELSE <<p>> \o StepPositions(p + k, k, t)
Positions(kind, k, t) ==
  CASE kind = "collect" -> [i \in 1..t |-> i]
    [] kind = "skip"    -> [i \in 1..SatSub(t, k) |-> i + k]
    [] kind = "step_by" -> StepPositions(1, k, t)
    [] kind = "take"    -> [i \in 1..Min(k, t) |-> i]
    [] kind = "skip_step" -> StepPositions(k + 1, k, t)        \* skip(k).step_by(k)

DoSeq(ev) ==
  LET ps == Positions(ev.kind, ev.k, T) IN
  /\ Len(ev.cnts) = Len(ps)
  /\ \A i \in 1..Len(ps) : ToW(ev.cnts[i]) = OneShot(mode, ws, ps[i]).cnt
  /\ UNCHANGED <<api, mode, ws, g, virt, pv>>

TraceNext ==
  /\ l <= Len(Rec)
  /\ l' = l + 1
  /\ LET ev == Rec[l] IN
       CASE ev.ev = "reset" -> DoReset(ev)
         [] ev.ev = "call"  -> DoCallEv(ev)
         [] ev.ev = "seq"   -> DoSeq(ev)

TraceSpec == TraceInit /\ [][TraceNext]_tvars

TraceAccepted ==
  LET d == TLCGet("stats").diameter IN
  IF d - 1 = Len(Rec) THEN TRUE
  ELSE Print(<<"TRACE-REJECTED at line", d, "event", Rec[d]>>, FALSE)

=============================================================================
