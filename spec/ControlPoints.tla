---------------------------- MODULE ControlPoints ----------------------------
(***************************************************************************)
(* src/model/control_point/{timing,difficulty,effect}.rs: which control    *)
(* point is active at a time.  The lists are strictly ordered by time      *)
(* (C06 / C19), so "the active point" is well defined:                     *)
(*   difficulty / effect point: the last point at or before the time,      *)
(*                              none before the first point                *)
(*   timing point:              the same, but BEFORE the first point the   *)
(*                              first point already applies                *)
(* Every slider velocity, beat length and kiai flag the calculators use    *)
(* goes through these three lookups.  Times are integers here; a point     *)
(* list is a strictly increasing sequence of times.                        *)
(***************************************************************************)
EXTENDS Integers, Sequences

StrictlyOrdered(ts) == \A i \in 1..(Len(ts) - 1) : ts[i] < ts[i + 1]
LastAtOrBefore(ts, t) == IF \E i \in 1..Len(ts) : ts[i] <= t THEN CHOOSE i \in 1..Len(ts) : ts[i] <= t /\ (i = Len(ts) \/ ts[i + 1] > t) ELSE 0
\* 0 = none
DifficultyAt(ts, t) == LastAtOrBefore(ts, t)
EffectAt(ts, t) == LastAtOrBefore(ts, t)
TimingAt(ts, t) == IF ts = <<>> THEN 0 ELSE IF LastAtOrBefore(ts, t) = 0 THEN 1 ELSE LastAtOrBefore(ts, t)

---- \* the code: slice::binary_search_by + the adjustment of its Err(insertion index) ----
RECURSIVE Search(_, _, _, _)
Search(ts, t, lo, hi) ==            \* [lo, hi) 0-based half-open, as in core::slice
  IF lo >= hi THEN [found |-> FALSE, i |-> lo]
  ELSE LET mid == lo + (hi - lo) \div 2
       IN IF ts[mid + 1] = t THEN [found |-> TRUE, i |-> mid]
          ELSE IF ts[mid + 1] < t THEN Search(ts, t, mid + 1, hi) ELSE Search(ts, t, lo, mid)
CodeDifficultyAt(ts, t) == LET r == Search(ts, t, 0, Len(ts)) IN IF r.found THEN r.i + 1 ELSE r.i           \* checked_sub(1), 1-based
CodeTimingAt(ts, t) == LET r == Search(ts, t, 0, Len(ts))
                           i == IF r.found THEN r.i ELSE (IF r.i = 0 THEN 0 ELSE r.i - 1)                     \* saturating_sub(1)
                       IN IF i < Len(ts) THEN i + 1 ELSE 0                                                     \* points.get(i)
CodeMatchesSpec(ts, t) == StrictlyOrdered(ts) => (CodeDifficultyAt(ts, t) = DifficultyAt(ts, t) /\ CodeTimingAt(ts, t) = TimingAt(ts, t))
=============================================================================
