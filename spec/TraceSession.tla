---------------------------- MODULE TraceSession ----------------------------
(* Trace validation for C01 / C20: events [proc, hist, key, digest, map, mapdigest] recorded   *)
(* from several processes (distinct hash seeds, address layouts) and threads are explained by  *)
(* ONE memo table and one digest per map.                                                       *)
EXTENDS Session, Json, IOUtils, TLCExt
Rec == ndJsonDeserialize(IOEnv.TRACE)
VARIABLES l, memo, maps
EmptyF == [x \in {} |-> ""]
TraceInit == l = 1 /\ memo = EmptyF /\ maps = EmptyF
TraceNext ==
  /\ l <= Len(Rec) /\ l' = l + 1
  /\ LET ev == Rec[l] IN
       /\ ~ev.panic
       /\ Explains(memo, ev.key, ev.digest)                 \* same key, same value: whenever, wherever
       /\ memo' = Learn(memo, ev.key, ev.digest)
       /\ Explains(maps, ev.map, ev.mapdigest)              \* the map given by reference is never modified
       /\ maps' = Learn(maps, ev.map, ev.mapdigest)
TraceSpec == TraceInit /\ [][TraceNext]_<<l, memo, maps>>
TraceAccepted ==
  LET d == TLCGet("stats").diameter IN
  IF d - 1 = Len(Rec) THEN TRUE
  ELSE Print(<<"TRACE-REJECTED at line", d, "event", Rec[d]>>, FALSE)
=============================================================================
