------------------------------- MODULE MC_Bpm -------------------------------
(* all timing setups of up to MaxPoints points over small time / beat length sets *)
EXTENDS Bpm, Json
CONSTANT MaxPoints
VARIABLES tps, last
vars == <<tps, last>>
BLs == {300, 400, 500}
Steps == {500, 1000, 1500}
Init == tps = <<>> /\ last \in {0, 2000, 3000}
Next == /\ Len(tps) < MaxPoints
        /\ \E bl \in BLs : \E st \in Steps :
             \* the first point before, at or after time 0 (the aggregator lets it start at 0 whatever its time)
             \E t0 \in (IF tps = <<>> THEN {0 - 1000, 0, 500} ELSE {0}) :
             tps' = Append(tps, [t |-> IF tps = <<>> THEN t0 ELSE tps[Len(tps)].t + st, bl |-> bl])
        /\ UNCHANGED last
(* the choice is one of the possible ones, and ties exist in the explored space (not vacuous) *)
ChoiceInv == tps # <<>> => ChosenBeatLen(tps, last) \in PossibleBeatLens(tps, last)
Printer == PrintT(<<"REPLAY", ToJson([tps |-> tps, last |-> last, chosen |-> ChosenBeatLen(tps, last),
                                      tie |-> (tps # <<>> /\ Cardinality(PossibleBeatLens(tps, last)) > 1)])>>)
=============================================================================
