------------------------------- MODULE MC_Bpm -------------------------------
(* all timing setups of up to MaxPoints points over small time / beat length sets *)
EXTENDS Bpm, Json
CONSTANT MaxPoints
VARIABLES tps, last
vars == <<tps, last>>
BLs == {300, 400, 500}
Steps == {500, 1000, 1500}
Init == tps = <<>> /\ last \in {0, 2000, 3000}
Next == /\ Len(tps) < MaxPoints
        /\ \E bl \in BLs : \E st \in Steps :
             tps' = Append(tps, [t |-> IF tps = <<>> THEN 0 ELSE tps[Len(tps)].t + st, bl |-> bl])
        /\ UNCHANGED last
(* the choice is one of the possible ones, and ties exist in the explored space (not vacuous) *)
ChoiceInv == tps # <<>> => ChosenBeatLen(tps, last) \in PossibleBeatLens(tps, last)
Printer == PrintT(<<"REPLAY", ToJson([tps |-> tps, last |-> last, chosen |-> ChosenBeatLen(tps, last),
                                      tie |-> (tps # <<>> /\ Cardinality(PossibleBeatLens(tps, last)) > 1)])>>)
=============================================================================
