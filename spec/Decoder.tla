------------------------------ MODULE Decoder ------------------------------
(***************************************************************************)
(* Line-level machine of the .osu decoder (src/model/beatmap/decode.rs on  *)
(* top of rosu-map's section driver), C06.                                 *)
(*                                                                         *)
(* Lines (abstract):                                                       *)
(*  [k |-> "mode", m]                Mode: m          in [General]         *)
(*  [k |-> "diff", key, v]           key:value        in [Difficulty]      *)
(*       key in HP CS OD AR SM TR, v in lo / mid / hi (below, inside,      *)
(*       above the documented clamp)                                       *)
(*  [k |-> "tp", t, bl, tc, kiai]    timing line      in [TimingPoints]    *)
(*       t  time (integer), bl beat length: 500 / 400 uninherited-style,   *)
(*       -50 (velocity 2.0) / -100 (velocity 1.0, redundant), NANBL = NaN  *)
(*       tc the "uninherited" flag, kiai the effect flag                   *)
(*  [k |-> "obj", t, kind]           hit object line  in [HitObjects]      *)
(*       its id is its position in the file; its hit sound carries the id  *)
(*  [k |-> "bad", sec]               a line of section sec that fails to   *)
(*       parse: errors are swallowed, the state must not change            *)
(*                                                                         *)
(* Velocities are in percent (200 = 2.0).  Difficulty values are in tenths.*)
(***************************************************************************)
EXTENDS Integers, Sequences, FiniteSets, TLC

NANBL == 0                     \* marker for a NaN beat length
NOPT == [some |-> FALSE]       \* no pending point

Min(a, b) == IF a < b THEN a ELSE b
Max(a, b) == IF a > b THEN a ELSE b
Clamp(v, lo, hi) == Max(lo, Min(v, hi))

-----------------------------------------------------------------------------
(* control points *)

BeatLenOf(bl) == Clamp(bl, 6, 60000)                        \* TimingPoint::new
SpeedMult(bl) == IF bl # NANBL /\ bl < 0 THEN (100 * 100) \div (-bl) ELSE 100   \* 100 / -beat_len, in percent
SliderVel(bl) == Clamp(SpeedMult(bl), 10, 1000)
GenTicks(bl) == bl # NANBL

TP(t, bl) == [some |-> TRUE, t |-> t, bl |-> BeatLenOf(bl)]
DP(t, bl) == [some |-> TRUE, t |-> t, sv |-> SliderVel(bl), ticks |-> GenTicks(bl)]
EP(t, bl, kiai, mode) ==
  [some |-> TRUE, t |-> t, kiai |-> kiai,
   scroll |-> IF mode \in {1, 3} THEN Clamp(SpeedMult(bl), 1, 1000) ELSE 100]   \* taiko, mania only

DefaultDP == [sv |-> 100, ticks |-> TRUE]
DefaultEP == [kiai |-> FALSE, scroll |-> 100]

(* the point in effect at time t: last one with time <= t (lists are sorted) *)
RECURSIVE LastLE(_, _, _)
LastLE(ps, t, k) == IF k = 0 THEN 0 ELSE IF ps[k].t <= t THEN k ELSE LastLE(ps, t, k - 1)

(* binary-search insert: replace the point with the same time, else insert keeping order *)
InsertPoint(ps, p) ==
  LET i == LastLE(ps, p.t, Len(ps)) IN
  IF i > 0 /\ ps[i].t = p.t THEN [ps EXCEPT ![i] = p]
  ELSE SubSeq(ps, 1, i) \o <<p>> \o SubSeq(ps, i + 1, Len(ps))

Strip(p) == [f \in (DOMAIN p) \ {"some"} |-> p[f]]

AddTiming(ps, p) == InsertPoint(ps, Strip(p))                 \* never redundant
AddDifficulty(ps, p) ==
  LET i == LastLE(ps, p.t, Len(ps))
      ex == IF i = 0 THEN DefaultDP ELSE ps[i]
  IN IF p.ticks = ex.ticks /\ p.sv = ex.sv THEN ps ELSE InsertPoint(ps, Strip(p))
AddEffect(ps, p) ==
  LET i == LastLE(ps, p.t, Len(ps))
      ex == IF i = 0 THEN DefaultEP ELSE ps[i]
  IN IF p.kiai = ex.kiai /\ p.scroll = ex.scroll THEN ps ELSE InsertPoint(ps, Strip(p))

Flush(s) ==
  [s EXCEPT !.timing = IF s.pt.some THEN AddTiming(@, s.pt) ELSE @,
            !.difficulty = IF s.pd.some THEN AddDifficulty(@, s.pd) ELSE @,
            !.effect = IF s.pe.some THEN AddEffect(@, s.pe) ELSE @,
            !.pt = NOPT, !.pd = NOPT, !.pe = NOPT]

(* add_pending_point for the three kinds of one line, in the code's order *)
Pend(old, new, tc) == IF tc THEN (IF old.some THEN old ELSE new) ELSE new    \* push_front / push_back

TimingLine(s, ln) ==
  IF ln.tc /\ ln.bl = NANBL THEN s                               \* Err(TimingControlPointNaN): nothing changes
  ELSE
  LET s1 == IF ln.t # s.ptime THEN Flush(s) ELSE s               \* first add_pending_point flushes on a new time
      s2 == [s1 EXCEPT !.pt = IF ln.tc THEN Pend(@, TP(ln.t, ln.bl), TRUE) ELSE @,
                       !.pd = Pend(@, DP(ln.t, ln.bl), ln.tc),
                       !.pe = Pend(@, EP(ln.t, ln.bl, ln.kiai, s.mode), ln.tc),
                       !.ptime = ln.t]
  IN s2

-----------------------------------------------------------------------------
(* difficulty section: values in tenths; clamps applied when the map is built *)

DiffVal(key, v, mode) ==
  CASE key \in {"HP", "OD", "AR"} -> (CASE v = "lo" -> -30 [] v = "mid" -> 40 [] OTHER -> 150)
    [] key = "CS" -> (CASE v = "lo" -> -30 [] v = "mid" -> 40 [] OTHER -> 250)
    [] key = "SM" -> (CASE v = "lo" -> 1 [] v = "mid" -> 14 [] OTHER -> 50)
    [] key = "TR" -> (CASE v = "lo" -> 1 [] v = "mid" -> 20 [] OTHER -> 200)

DiffLine(s, ln) ==
  LET v == DiffVal(ln.key, ln.v, s.mode) IN
  CASE ln.key = "HP" -> [s EXCEPT !.hp = v]
    [] ln.key = "CS" -> [s EXCEPT !.cs = v]
    [] ln.key = "OD" -> [s EXCEPT !.od = v, !.ar = IF s.hasAr THEN @ ELSE v]
    [] ln.key = "AR" -> [s EXCEPT !.ar = v, !.hasAr = TRUE]
    [] ln.key = "SM" -> [s EXCEPT !.sm = v]
    [] ln.key = "TR" -> [s EXCEPT !.tr = v]

-----------------------------------------------------------------------------
(* the whole machine *)

InitState ==
  [mode |-> 0, timing |-> <<>>, difficulty |-> <<>>, effect |-> <<>>,
   ptime |-> 0, pt |-> NOPT, pd |-> NOPT, pe |-> NOPT,
   objs |-> <<>>, nlines |-> 0,
   hp |-> 50, cs |-> 50, od |-> 50, ar |-> 50, hasAr |-> FALSE, sm |-> 14, tr |-> 10]

Step(s, ln) ==
  LET s0 == [s EXCEPT !.nlines = @ + 1] IN
  CASE ln.k = "mode" -> [s0 EXCEPT !.mode = ln.m]
    [] ln.k = "diff" -> DiffLine(s0, ln)
    [] ln.k = "tp"   -> TimingLine(s0, ln)
    [] ln.k = "obj"  -> [s0 EXCEPT !.objs = Append(@, [id |-> s0.nlines, t |-> ln.t, kind |-> ln.kind])]
    [] ln.k = "bad"  -> s0

(* stable sort of the objects by time = what TandemSorter::new_stable computes;   *)
(* the hit sounds receive the same permutation                                    *)
RECURSIVE InsertSorted(_, _)
InsertSorted(sorted, o) ==          \* insert o after every element with t <= o.t (stable)
  IF sorted = <<>> THEN <<o>>
  ELSE IF sorted[Len(sorted)].t <= o.t THEN Append(sorted, o)
  ELSE Append(InsertSorted(SubSeq(sorted, 1, Len(sorted) - 1), o), sorted[Len(sorted)])
RECURSIVE StableSort(_, _)
StableSort(os, k) == IF k = 0 THEN <<>> ELSE InsertSorted(StableSort(os, k - 1), os[k])

Final(s) ==
  LET f == Flush(s)
      sorted == StableSort(f.objs, Len(f.objs))
  IN [mode |-> f.mode,
      timing |-> f.timing, difficulty |-> f.difficulty, effect |-> f.effect,
      objs |-> [i \in 1..Len(sorted) |-> [id |-> sorted[i].id, t |-> sorted[i].t, kind |-> sorted[i].kind]],
      sounds |-> [i \in 1..Len(sorted) |-> sorted[i].id],
      hp |-> Clamp(f.hp, 0, 100),
      cs |-> IF f.mode = 3 THEN Clamp(f.cs, 10, 180) ELSE Clamp(f.cs, 0, 100),
      od |-> Clamp(f.od, 0, 100), ar |-> Clamp(f.ar, 0, 100),
      sm |-> Clamp(f.sm, 4, 36), tr |-> Clamp(f.tr, 5, 80)]

-----------------------------------------------------------------------------
(* well-formedness of a decoded map (C06), also evaluated on maps recorded *)
(* from the real decoder (TraceDecoder)                                    *)

StrictlyIncreasing(ps) == \A i \in 1..(Len(ps) - 1) : ps[i].t < ps[i + 1].t
NonDecreasing(os) == \A i \in 1..(Len(os) - 1) : os[i].t <= os[i + 1].t

WellFormed(m) ==
  /\ NonDecreasing(m.objs)
  /\ Len(m.sounds) = Len(m.objs)
  /\ (m.mode # 3 => \A i \in 1..Len(m.objs) : m.sounds[i] = m.objs[i].id)   \* the sound written on that object's line
  /\ StrictlyIncreasing(m.timing) /\ StrictlyIncreasing(m.difficulty) /\ StrictlyIncreasing(m.effect)
  /\ m.hp \in 0..100 /\ m.od \in 0..100 /\ m.ar \in 0..100
  /\ (IF m.mode = 3 THEN m.cs \in 10..180 ELSE m.cs \in 0..100)
  /\ m.sm \in 4..36 /\ m.tr \in 5..80
  /\ \A i \in 1..Len(m.timing) : m.timing[i].bl \in 6..60000
  /\ \A i \in 1..Len(m.difficulty) : m.difficulty[i].sv \in 10..1000
  /\ \A i \in 1..Len(m.effect) : m.effect[i].scroll \in 1..1000

=============================================================================
