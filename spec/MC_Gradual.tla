----------------------------- MODULE MC_Gradual -----------------------------
(***************************************************************************)
(* Bounded instance of Gradual: all maps up to MaxLen objects over the     *)
(* mode's object alphabet, all call sequences over the call alphabet.      *)
(* Two kinds of session:                                                   *)
(*   api = "diff"  the calculator is used as a std Iterator (next, nth)    *)
(*   api = "perf"  it is driven by the gradual performance wrapper         *)
(*                 (next = nth(0), nth(n), last = nth(MAX))                *)
(* TLC checks the C02 / C03 / C15 invariants in every reachable state and  *)
(* prints, per distinct state, one scenario line for the replay harness.   *)
(***************************************************************************)
EXTENDS Gradual, Json

CONSTANTS Modes, MaxLen, MaxCalls, KnownOn

VARIABLES api, mode, xf, objs, g, virt, pv, last, hist, obsHist

vars == <<api, mode, xf, objs, g, virt, pv, last, hist, obsHist>>

Obj(k, r, t, d) == [k |-> k, rep |-> r, ticks |-> t, dur |-> d]

Alphabet(m) ==
  CASE m = "osu"   -> {Obj("C",0,0,0), Obj("S",0,0,0), Obj("S",1,1,0), Obj("P",0,0,0)}
    [] m = "taiko" -> {Obj("C",0,0,0), Obj("S",0,1,0), Obj("P",0,0,0)}
    [] m = "catch" -> {Obj("C",0,0,0), Obj("S",0,0,0), Obj("S",1,1,0), Obj("P",0,0,0)}
    [] m = "mania" -> {Obj("C",0,0,0), Obj("H",0,0,0), Obj("H",0,0,3)}

Maps(m) == UNION { [1..n -> Alphabet(m)] : n \in 0..MaxLen }

(* xf = "HO": the mania HoldOff mod turns every hold note into a note before anything is counted *)
UnitsX(m, x, os) == IF x = "HO" THEN [i \in 1..Len(os) |-> <<0, 0, 1, 0, 0>>] ELSE Units(m, os)
WS == UnitsX(mode, xf, objs)
Len0 == LenOf(mode, WS, New(mode, WS))            \* announced on creation
CAP == MaxLen * 4 + 8                              \* any position beyond the end is the same

Calls == {<<"next", 0>>} \cup {<<"nth", n>> : n \in {0, 1, 2, MAXN}}

Init == /\ api \in {"diff", "perf"}
        /\ mode \in Modes
        /\ xf \in (IF mode = "mania" THEN {"none", "HO"} ELSE {"none"})
        /\ objs \in Maps(mode)
        /\ g = New(mode, UnitsX(mode, xf, objs))
        /\ virt = 0
        /\ pv = 0
        /\ last = [some |-> TRUE, fresh |-> TRUE]
        /\ hist = <<>>
        /\ obsHist = <<>>

(* Declarative position after a call. *)
VirtAfter(c) ==
  LET k == (IF c[1] = "next" THEN 0 ELSE c[2]) + 1 IN
  IF api = "diff" THEN Min(virt + k, CAP)                       \* Iterator: n+1 next calls
  ELSE IF virt < Total(mode, WS) THEN Min(virt + k, Total(mode, WS)) ELSE virt   \* wrapper: min(n+1, remaining)

(* What the property demands at declarative position v (previous position p). *)
Exp(v, p) == [some |-> IF api = "diff" THEN v <= Total(mode, WS) ELSE p < Total(mode, WS),
              len  |-> SatSub(Total(mode, WS), v),
              cnt  |-> OneShot(mode, WS, v).cnt,
              virt |-> v, pv |-> p]
Entry(c, r, v, p) == [a |-> c, o |-> Obs(mode, WS, r), x |-> Exp(v, p)]

Call(s, c) == IF api = "perf" THEN PerfNth(mode, WS, s, c[2]) ELSE DoCall(mode, WS, s, c)

Step(c) ==
  LET r == Call(g, c) IN
  /\ g' = r.st
  /\ virt' = VirtAfter(c)
  /\ pv' = virt
  /\ last' = [some |-> r.some, fresh |-> FALSE]
  /\ hist' = Append(hist, c)
  /\ obsHist' = Append(obsHist, Entry(c, r, VirtAfter(c), virt))
  /\ UNCHANGED <<api, mode, xf, objs>>

Next == /\ Len(hist) < MaxCalls
        /\ ~g.panic
        /\ \E c \in Calls : (api = "perf" => c[1] = "nth") /\ Step(c)

Spec == Init /\ [][Next]_vars

-----------------------------------------------------------------------------
(* Properties.  T = number of values that must be produced.                *)
T == Total(mode, WS)

(* C02: announced length = number of values; C15: len() = values to come   *)
AnnounceOk == Len0 = T
LenOk      == ~g.panic /\ LenOf(mode, WS, g) = SatSub(T, virt)

(* C15: a call returns a value iff its (declarative) position exists:      *)
(*   diff: position virt (after the call) is within 1..T                   *)
(*   perf: something remained before the call                              *)
RetOk == ~last.fresh =>
           IF api = "diff" THEN last.some = (virt <= T)
           ELSE last.some = (pv < T)

(* C02 / C03: the value returned is the one-shot value of that prefix      *)
ValOk == (~last.fresh /\ last.some) =>
            /\ View(mode, g) = OneShot(mode, WS, virt)
            /\ g.idx = virt                                 \* C03: passed_objects handed to the builder

(* C02: the final value equals the unrestricted one-shot calculation       *)
FinalOk == T > 0 => OneShot(mode, WS, T) = OneShot(mode, WS, UNLIMITED)

(* C14 on the model: min(n,total), monotone, n > total == unlimited        *)
CountAlgebraOk ==
  \A n \in 0..(Len(WS) + 2) :
     LET a == OneShot(mode, WS, n).cnt
         b == OneShot(mode, WS, n + 1).cnt
     IN /\ \A i \in 1..5 : a[i] <= b[i]
        /\ (n > T => OneShot(mode, WS, n) = OneShot(mode, WS, UNLIMITED))
        /\ (mode = "osu" => a[1] + a[2] + a[4] = Min(n, T))
        /\ (mode = "taiko" => a[1] = Min(n, T))
        /\ (mode = "mania" => a[1] = Min(n, T))
        /\ (mode = "catch" => a[1] + a[2] = Min(n, T))

Flags == [announce |-> AnnounceOk, len |-> LenOk, ret |-> RetOk, val |-> ValOk,
          final |-> FinalOk, algebra |-> CountAlgebraOk]

(* Known defect classes of the unchanged tree (see known_findings.json).   *)
(* They are predicates of the map and session only.                        *)
TaikoFirstTwoBad == mode = "taiko" /\ (Len(WS) < 3 \/ WS[1][1] = 0 \/ WS[2][1] = 0)
TaikoTrailingNonHit == mode = "taiko" /\ Len(WS) > 0 /\ WS[Len(WS)][1] = 0
EmptyLenOne == mode # "taiko" /\ Len(WS) = 0
NthPastEnd == api = "diff" /\ ~last.fresh /\ pv < T /\ virt > T

Known == \/ ("F2" \in KnownOn /\ TaikoFirstTwoBad)
         \/ ("F9" \in KnownOn /\ TaikoTrailingNonHit)
         \/ ("F8" \in KnownOn /\ EmptyLenOne)
         \/ ("F11" \in KnownOn /\ NthPastEnd)

PropertyInv == Known \/ (AnnounceOk /\ LenOk /\ RetOk /\ ValOk /\ FinalOk)
AlgebraInv == CountAlgebraOk

-----------------------------------------------------------------------------
(* Scenario printer: one line per distinct state (hist is hidden by VIEW). *)
StateView == <<api, mode, xf, objs, g, virt, pv, last>>

SuccOf == { Entry(c, Call(g, c), VirtAfter(c), virt) :
              c \in {c \in Calls : (api = "perf" => c[1] = "nth") /\ ~g.panic} }

Algebra == [n \in 1..(Len(WS) + 3) |-> OneShot(mode, WS, n - 1).cnt]     \* counts for passed_objects(0 .. total+2)

Scenario == [api |-> api, mode |-> mode, xf |-> xf, objs |-> objs, units |-> WS, path |-> obsHist,
             algebra |-> IF hist = <<>> THEN Algebra ELSE <<>>,
             succ |-> IF Len(hist) < MaxCalls THEN SuccOf ELSE {},
             total |-> T, len0 |-> Len0, virt |-> virt, flags |-> Flags, known |-> Known]

Printer == PrintT(<<"REPLAY", ToJson(Scenario)>>)

=============================================================================
