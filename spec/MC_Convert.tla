----------------------------- MODULE MC_Convert -----------------------------
(* The key-count decision table over all small count / difficulty combinations:  *)
(* range property on the model, one scenario line per row for the replay.        *)
EXTENDS Convert, Json
CONSTANT MaxObjs
VARIABLE row
Rows == {[keyMod |-> q[1], n |-> q[2], s |-> q[3], cs |-> q[4], od |-> q[5]] :
           q \in {0, 1, 4, 9, 10} \X (0..MaxObjs) \X (0..MaxObjs) \X {0, 4, 5, 10} \X {0, 3, 4, 5, 6, 7, 10}}
Init == row \in {r \in Rows : r.s <= r.n}
Next == UNCHANGED row
Keys == TargetColumns(row.keyMod, row.n, row.s, row.cs, row.od)
RangeInv == KeyCountOk(row.keyMod, Keys)
Printer == PrintT(<<"REPLAY", ToJson([row |-> row, keys |-> Keys])>>)
=============================================================================
