--------------------------- MODULE MC_OsuStacking ---------------------------
(* every object list up to MaxLen over a small alphabet (kinds x positions x slider ends / repeats x time gaps); each *)
(* state prints the map and the heights both passes must produce; the harness decodes the map as format v14 and v5,   *)
(* and reads the real heights from the `osu_stack` hook event of one-shot, partial and gradual calculations           *)
EXTENDS OsuStacking, Json, TLC
CONSTANTS MaxLen, Gaps, CirclePos, Sliders, SpinPos, Thr
VARIABLES objs
vars == <<objs>>

\* slider alphabets <<pos, path end, repeats>> (cfg: Sliders <- SlidersFull)
SlidersFull == {<<0, 4, 0>>, <<0, 100, 0>>, <<2, 0, 0>>, <<100, 0, 0>>, <<100, 4, 1>>, <<0, 100, 1>>, <<4, 0, 1>>}
SlidersSmall == {<<0, 100, 0>>, <<100, 0, 0>>, <<0, 100, 1>>, <<2, 4, 0>>}
SlidersTiny == {<<0, 100, 0>>, <<100, 0, 1>>}
PxMs == 8            \* SliderMultiplier 1, beat length 800 ms: 0.125 px / ms
T0 == 1000
Circle(t, p) == [k |-> "c", t |-> t, e |-> t, pos |-> p, epos |-> p, ppos |-> p, rep |-> 0]
Slider(t, s) == [k |-> "s", t |-> t, e |-> t + (s[3] + 1) * Abs(s[2] - s[1]) * PxMs, pos |-> s[1],
                 epos |-> IF s[3] % 2 = 0 THEN s[2] ELSE s[1], ppos |-> s[2], rep |-> s[3]]
Spinner(t, p) == [k |-> "p", t |-> t, e |-> t + 200, pos |-> p, epos |-> p, ppos |-> p, rep |-> 0]

Init == objs = <<>>
Next == /\ Len(objs) < MaxLen
        /\ \E g \in (IF objs = <<>> THEN {0} ELSE Gaps) :
             LET t == IF objs = <<>> THEN T0 ELSE objs[Len(objs)].t + g IN
             \/ \E p \in CirclePos : objs' = Append(objs, Circle(t, p))
             \/ \E s \in Sliders : objs' = Append(objs, Slider(t, s))
             \/ \E p \in SpinPos : objs' = Append(objs, Spinner(t, p))

N == Len(objs)
O == [j \in 0..(N - 1) |-> objs[j + 1]]
HNew == NewStacking(O, N, Thr)
HOld == OldStacking(O, N, Thr)
AsSeq(h) == [j \in 1..N |-> h[j - 1]]

BoundedOk == Bounded(HNew, N) /\ Bounded(HOld, N)
SpinnersOk == SpinnersNotRaised(O, HNew, N)
\* expected to be VIOLATED (a witness that a prefix stacked on its own differs): run with it to see one
PrefixStable == ~PrefixDiffers(14, O, N, Thr)
Printer == N = 0 \/ PrintT(<<"REPLAY", ToJson([objs |-> objs, thr |-> Thr, hnew |-> AsSeq(HNew), hold |-> AsSeq(HOld),
                                               unstable |-> PrefixDiffers(14, O, N, Thr)])>>)
=============================================================================
