----------------------------- MODULE MC_Corners -----------------------------
EXTENDS Corners, Json
VARIABLES mode, glob, objs, phase
vars == <<mode, glob, objs, phase>>
Init == IF Domain = "maniaconv"
        THEN mode = "osu" /\ glob \in ManiaGlobals /\ objs = <<>> /\ phase = "root"
        ELSE mode \in {"osu", "taiko", "catch", "mania"} /\ glob \in Globals /\ objs = <<>> /\ phase = "root"
(* Domain "runs": one object repeated 3 / 8 / 40 times at gap 0 (all at one timestamp), 1 ms or 125 ms - stacks and streams *)
RunNext == /\ Domain = "runs" /\ phase = "root" /\ objs = <<>>
           /\ \E k \in Kinds, p \in {"c", "same"}, z \in {"mid", "stat"}, d \in {"d0", "d1", "d125"}, r \in {3, 8, 40} :
                /\ (z = "stat" => k = "S")
                /\ objs' = [i \in 1..r |-> [k |-> k, t |-> IF i = 1 THEN "s1" ELSE d, p |-> p, z |-> z]]
                /\ phase' = "objs"
           /\ UNCHANGED <<mode, glob>>
Next == \/ RunNext
        \/ /\ Domain # "runs" /\ phase = "root" /\ objs = <<>>
           /\ \/ (objs' = <<>> /\ phase' = "empty")
              \/ (\E o \in (IF Domain = "maniaconv" THEN ManiaFirst ELSE FirstObjs) : objs' = <<o>> /\ phase' = "objs")
           /\ UNCHANGED <<mode, glob>>
        \/ /\ Domain # "runs" /\ phase = "objs" /\ Len(objs) < MaxObjs
           /\ \E o \in (IF Domain = "maniaconv" THEN ManiaNext ELSE NextObjs) : objs' = Append(objs, o)
           /\ UNCHANGED <<mode, glob, phase>>
Printer == phase # "root" => PrintT(<<"REPLAY", ToJson([domain |-> Domain, mode |-> mode, glob |-> glob, objs |-> objs])>>)
=============================================================================
