----------------------------- MODULE MC_Corners -----------------------------
EXTENDS Corners, Json
VARIABLES mode, glob, objs, phase
vars == <<mode, glob, objs, phase>>
Init == IF Domain = "maniaconv"
        THEN mode = "osu" /\ glob \in ManiaGlobals /\ objs = <<>> /\ phase = "root"
        ELSE mode \in {"osu", "taiko", "catch", "mania"} /\ glob \in Globals /\ objs = <<>> /\ phase = "root"
Next == \/ /\ phase = "root" /\ objs = <<>>
           /\ \/ (objs' = <<>> /\ phase' = "empty")
              \/ (\E o \in (IF Domain = "maniaconv" THEN ManiaFirst ELSE FirstObjs) : objs' = <<o>> /\ phase' = "objs")
           /\ UNCHANGED <<mode, glob>>
        \/ /\ phase = "objs" /\ Len(objs) < MaxObjs
           /\ \E o \in (IF Domain = "maniaconv" THEN ManiaNext ELSE NextObjs) : objs' = Append(objs, o)
           /\ UNCHANGED <<mode, glob, phase>>
Printer == phase # "root" => PrintT(<<"REPLAY", ToJson([domain |-> Domain, mode |-> mode, glob |-> glob, objs |-> objs])>>)
=============================================================================
