---------------------------- MODULE CatchConvert ----------------------------
(***************************************************************************)
(* src/catch/convert.rs + src/catch/object/{juice_stream,banana_shower}.rs *)
(* + ObjectCountBuilder (src/catch/attributes.rs): how a list of source    *)
(* objects becomes the palpable objects of osu!catch and the three object  *)
(* counts, in BOTH book-keeping modes of the counter:                      *)
(*   regular  (one-shot difficulty, `take` = passed_objects): counts stop  *)
(*            after `take` palpable objects; the tiny droplets of a gap    *)
(*            belong to the palpable object that ENDS the gap              *)
(*   gradual  one row <<is fruit, tiny droplets before it>> per palpable   *)
(*            object, summed up by the gradual calculator step by step     *)
(* and how the conversion consumes the RNG (seed 1337): one draw per       *)
(* droplet and tiny droplet, four per banana, and for hard-rock offsets    *)
(* one per `next_bool` refill (every 32nd call) plus one per random offset *)
(* C14 (counts), C02 / C03 (regular(take = k) = first k gradual rows),     *)
(* C01 (the RNG consumption is a function of the source list alone).       *)
(*                                                                         *)
(* The slider events (kind, truncated time) come from rosu-map's           *)
(* SliderEventsIter (a dependency): they are inputs here.                  *)
(* All times are the i32-truncated values the code uses.                   *)
(***************************************************************************)
EXTENDS Integers, Sequences, FiniteSets

PlayfieldWidth == 512
Unlimited == 1000000000
Abs(x) == IF x < 0 THEN -x ELSE x
Min(a, b) == IF a < b THEN a ELSE b
Max(a, b) == IF a > b THEN a ELSE b
TruncDiv(a, b) == IF a >= 0 THEN a \div b ELSE -((-a) \div b)        \* Rust `/` on i32

\* `while x > 100 { x /= 2 }`: number of halvings
Halvings(d) == CHOOSE j \in 0..24 : d <= 100 * (2^j) /\ (j = 0 \/ d > 100 * (2^(j - 1)))
\* juice_stream.rs: tiny droplets between two events `since` ms apart (exact in f64 for since < 2^26)
TinyCount(since) == IF since <= 80 THEN 0 ELSE (2^Halvings(since)) - 1
\* banana_shower.rs (exact in f32 while end * 2^j < 2^24)
Bananas(s, e) == IF e - s <= 0 THEN 0 ELSE (2^Halvings(e - s)) + 1
BananasExact(s, e) == e - s <= 0 \/ (e >= 0 /\ e < 16777216 \div (2^Halvings(e - s)))

---- \* state of one conversion ----
Init(take, hr) ==
  [fruits |-> 0, droplets |-> 0, tiny |-> 0, take |-> take,            \* ObjectCountBuilder::Regular
   rows |-> <<>>, acc |-> 0,                                            \* ObjectCountBuilder::Gradual
   npalp |-> 0, draws |-> 0, bit |-> 32,
   haslast |-> FALSE, lastpos |-> 0, lastt |-> 0, hr |-> hr, err |-> ""]

AddTiny(S, n) == [S EXCEPT !.tiny = IF S.take > 0 THEN @ + n ELSE @, !.acc = @ + n]
AddFruit(S) == [S EXCEPT !.fruits = IF S.take > 0 THEN @ + 1 ELSE @, !.take = IF @ > 0 THEN @ - 1 ELSE @,
                         !.rows = Append(@, <<1, S.acc>>), !.acc = 0, !.npalp = @ + 1]
AddDroplet(S) == [S EXCEPT !.droplets = IF S.take > 0 THEN @ + 1 ELSE @, !.take = IF @ > 0 THEN @ - 1 ELSE @,
                           !.rows = Append(@, <<0, S.acc>>), !.acc = 0, !.npalp = @ + 1]

---- \* JuiceStream::new + the stream arm of apply_pos_offset ----
IsFruitEvent(k) == k \in {"Head", "Repeat", "Tail"}
RECURSIVE StreamFold(_, _, _)
StreamFold(S, evs, i) ==
  IF i > Len(evs) THEN S
  ELSE LET e == evs[i]
           S1 == IF i = 1 THEN S ELSE AddTiny(S, TinyCount(e.t - evs[i - 1].t))
           S2 == IF e.k = "Tick" THEN AddDroplet(S1) ELSE IF IsFruitEvent(e.k) THEN AddFruit(S1) ELSE S1   \* LastTick: nothing
       IN StreamFold(S2, evs, i + 1)
TinyOf(evs) == [i \in 1..Len(evs) |-> IF i = 1 THEN 0 ELSE TinyCount(evs[i].t - evs[i - 1].t)]
SumTo(f, n) == LET RECURSIVE Go(_) Go(k) == IF k = 0 THEN 0 ELSE f[k] + Go(k - 1) IN Go(n)
StreamDraws(evs) == Cardinality({i \in 1..Len(evs) : evs[i].k = "Tick"}) + SumTo(TinyOf(evs), Len(evs))
Stream(S, x, t, lastctrlx, evs) ==
  [StreamFold(S, evs, 1) EXCEPT !.draws = @ + StreamDraws(evs), !.haslast = TRUE, !.lastpos = x + lastctrlx, !.lastt = t]

---- \* BananaShower + its arm of apply_pos_offset ----
Shower(S, n) == [S EXCEPT !.draws = @ + 4 * n]

---- \* Fruit + apply_hr_offset; `off` is the x_offset the code chose (needed only in the random branch) ----
NextBool(S) == IF S.bit = 32 THEN [S EXCEPT !.draws = @ + 1, !.bit = 1] ELSE [S EXCEPT !.bit = @ + 1]
RandomOffsetOk(x, td, off) ==            \* apply_random_offset: some `right` and some rand in range explain `off`
  LET maxr == Min(20, Max(0, ((td + 3) \div 4) - 1))
      r == Abs(off)
  IN /\ r <= maxr
     /\ \/ off = 0
        \/ off > 0 /\ (x + r <= PlayfieldWidth \/ x - r < 0)           \* right and fits | left and would leave
        \/ off < 0 /\ (x + r > PlayfieldWidth \/ x - r >= 0)           \* right and would leave | left and fits
ApplyOffset(x, amount) == IF amount > 0 THEN (IF x + amount < PlayfieldWidth THEN x + amount ELSE x)
                          ELSE (IF x + amount > 0 THEN x + amount ELSE x)
\* returns [S |-> state after, off |-> the offset the code must have chosen, or "any" for the random branch]
\* td = `(start_time - last_start_time) as i32`: the code truncates the DIFFERENCE of the (possibly fractional) times, so it is an
\* input here (the recorder computes it from the exact logged times); for whole-millisecond times it is t - S.lastt
Fruit(S0, x, t, off, td) ==
  LET S == AddFruit(S0) IN
  IF ~S.hr THEN [S |-> S, off |-> 0]
  ELSE IF ~S.haslast \/ S.lastpos = 0 THEN [S |-> [S EXCEPT !.haslast = TRUE, !.lastpos = x, !.lastt = t], off |-> 0]
  ELSE LET pd == x - S.lastpos
       IN IF td > 1000 THEN [S |-> [S EXCEPT !.lastpos = x, !.lastt = t], off |-> 0]
          ELSE IF pd = 0
            THEN [S |-> [NextBool(S) EXCEPT !.draws = @ + 1, !.err = IF RandomOffsetOk(x, td, off) THEN S.err ELSE "random offset out of range"],
                  off |-> off]
          ELSE LET nx == IF Abs(pd) < TruncDiv(td, 3) THEN ApplyOffset(x, pd) ELSE x
               IN [S |-> [S EXCEPT !.lastpos = nx, !.lastt = t], off |-> nx - x]

---- \* what the callers rely on ----
\* the regular counts after `take = k` are the sums of the first k gradual rows (tiny droplets of a gap count with the object ending it)
RowSum(rows, k, col) == LET RECURSIVE Go(_) Go(i) == IF i = 0 THEN 0 ELSE (IF col = 3 THEN rows[i][2] ELSE IF rows[i][1] = col THEN 1 ELSE 0) + Go(i - 1) IN Go(Min(k, Len(rows)))
PrefixCounts(rows, k) == <<RowSum(rows, k, 1), RowSum(rows, k, 0), RowSum(rows, k, 3)>>
=============================================================================
