---------------------------- MODULE MC_TaikoSplice ----------------------------
(* every source list up to MaxObjs over the object kinds, time ranks and node-sound shapes: the machine must  *)
(* compute `Expected`; every list is printed for the replay on the real converter.                           *)
EXTENDS TaikoSplice, Json
CONSTANTS MaxObjs, MaxT
VARIABLES objs
vars == <<objs>>
(* sounds are id-coded: object i has sound i, its node sound j is 16 * i + j (both fit the 8 bits a .osu file keeps) *)
(* S<n><nodes>: a slider replaced by n hits that has <nodes> node sounds (= spans + 1, what the decoder builds);      *)
(* S0: a slider that stays a drum roll                                                                                *)
Shapes == {"C", "P", "H", "S0", "S22", "S32", "S33", "S42", "S53"}
Mk(id, t, sh) ==
  LET kind == IF sh \in {"C", "P", "H"} THEN sh ELSE "S"
      n == CASE sh = "S22" -> 2 [] sh = "S32" -> 3 [] sh = "S33" -> 3 [] sh = "S42" -> 4 [] sh = "S53" -> 5 [] OTHER -> 0
      nn == CASE sh = "S33" -> 3 [] sh = "S53" -> 3 [] sh \in {"C", "P", "H"} -> 0 [] OTHER -> 2
  IN [id |-> id, t |-> t, kind |-> kind, shape |-> sh, nodes |-> [j \in 1..nn |-> 16 * id + j], burst |-> [k \in 1..n |-> t + 2 * (k - 1)]]
Init == objs = <<>>
Next == /\ Len(objs) < MaxObjs
        /\ \E sh \in Shapes, dt \in 0..MaxT :
             LET t == IF objs = <<>> THEN dt ELSE objs[Len(objs)].t + dt - 1        \* dt = 0: the file lists it before its predecessor
             IN t >= 0 /\ objs' = Append(objs, Mk(Len(objs) + 1, t, sh))
(* the decoder hands the converter a list that is already in stable time order *)
Sorted == LET p == StableSort([i \in 1..Len(objs) |-> [o |-> objs[i], t |-> objs[i].t]], Len(objs)) IN [i \in 1..Len(objs) |-> p[i].o]
SortedSounds == [i \in 1..Len(objs) |-> Sorted[i].id]
R == Convert(Sorted, SortedSounds)
MachineIsExpected == /\ R.out = Expected(Sorted, SortedSounds)
                     /\ R.aligned
                     /\ R.log = ExpectedLog(Sorted, 1, 0)
                     /\ NonDecreasing(R.out)
Printer == PrintT(<<"REPLAY", ToJson([src |-> Sorted, sounds |-> SortedSounds, out |-> R.out, log |-> R.log])>>)
=============================================================================
