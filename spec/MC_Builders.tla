---------------------------- MODULE MC_Builders ----------------------------
(***************************************************************************)
(* Aspect "setters" (C18): all setter sequences up to MaxCalls on a        *)
(* Difficulty; invariants: clamps, last write wins, independent setters    *)
(* commute, inspect round trip; the Printer emits the call sequence and    *)
(* the model's Difficulty plus, per mode, what the performance builder's   *)
(* own setters must have produced.                                         *)
(* Aspect "entry" (C04): entry point x settings given before / after       *)
(* generate_state; the Printer emits what calculate() must evaluate.       *)
(***************************************************************************)
EXTENDS Builders, Json

CONSTANTS Aspect, MaxCalls, Rich

VARIABLES d, calls, p
vars == <<d, calls, p>>

AttrVals == IF Rich THEN {"lo", "min", "in", "max", "hi"} ELSE {"lo", "in", "hi"}
ClockVals == IF Rich THEN {"neg", "zero", "below", "min", "one", "in", "max", "above"} ELSE {"zero", "below", "one", "in", "above"}     \* "one": exactly 1.0, the rate a fast path may take for "nothing set"

SetterCalls ==
  {[f |-> "mods", v |-> m, w |-> FALSE] : m \in {"NM", "HR", "HDDT"}}
  \cup {[f |-> "passed", v |-> n, w |-> FALSE] : n \in {"p0", "p2", "p1000"}}
  \cup {[f |-> "clock", v |-> c, w |-> FALSE] : c \in ClockVals}
  \cup {[f |-> a, v |-> v, w |-> w] : a \in {"ar", "cs", "hp", "od"}, v \in AttrVals, w \in BOOLEAN}
  \cup {[f |-> "hro", v |-> b, w |-> FALSE] : b \in {"T", "F"}}
  \cup {[f |-> "lazer", v |-> b, w |-> FALSE] : b \in {"T", "F"}}

EntrySetterCalls ==
  {[f |-> "mods", v |-> "HR", w |-> FALSE], [f |-> "mods", v |-> "CL", w |-> FALSE], [f |-> "clock", v |-> "in", w |-> FALSE],
   [f |-> "passed", v |-> "p2", w |-> FALSE], [f |-> "passed", v |-> "p1000", w |-> FALSE], [f |-> "passed", v |-> "p0", w |-> FALSE],
   [f |-> "ar", v |-> "in", w |-> FALSE], [f |-> "od", v |-> "in", w |-> TRUE], [f |-> "lazer", v |-> "F", w |-> FALSE],
   [f |-> "cs", v |-> "in", w |-> FALSE], [f |-> "hp", v |-> "in", w |-> TRUE], [f |-> "hro", v |-> "T", w |-> FALSE]}

Entries == {"map_ref", "map_owned", "mode_map", "diff_attrs", "perf_attrs", "attrs_method", "perf_attrs_method", "mode_attrs"}

InitSetters == d = NewDifficulty /\ calls = <<>> /\ p = NewPerf("map_ref")
NextSetters == /\ Len(calls) < MaxCalls
               /\ \E c \in SetterCalls : d' = Set(d, c) /\ calls' = Append(calls, c)
               /\ UNCHANGED p

(* entry aspect: the attributes of an attrs entry point were made with the settings the caller *)
(* supplies again afterwards (that is the property's premise); "gen" = generate_state()        *)
InitEntry == /\ d = NewDifficulty /\ calls = <<>>
             /\ \E e \in Entries : p = NewPerf(e)
NextEntry == /\ Len(calls) < MaxCalls
             /\ \/ \E c \in EntrySetterCalls :
                     \* Classic changes what the fields of an already generated score state MEAN (slider ends vs small ticks): a
                     \* state generated before the mod was set is stale by design, so CL only comes before any generate_state()
                     \* (nor may the mods be changed after a generate_state() once CL has been involved)
                     /\ (c.f = "mods" /\ (\E i \in 1..Len(calls) : calls[i].f = "gen"))
                          => (c.v # "CL" /\ \A i \in 1..Len(calls) : ~(calls[i].f = "mods" /\ calls[i].v = "CL"))
                     /\ p' = [p EXCEPT !.d = Set(@, c)] /\ calls' = Append(calls, c) /\ UNCHANGED d
                \/ /\ p' = GenerateState(p) /\ calls' = Append(calls, [f |-> "gen", v |-> "-", w |-> FALSE]) /\ UNCHANGED d

Init == IF Aspect = "setters" THEN InitSetters ELSE InitEntry
Next == IF Aspect = "setters" THEN NextSetters ELSE NextEntry

-----------------------------------------------------------------------------
ClampInv == \A f \in DFields : d[f].v \notin {"below", "zero", "neg", "above", "lo", "hi"}
RoundTripInv == RoundTrip(d) = d
(* last write wins and independent setters commute: the Difficulty is a function of the last call per field *)
RECURSIVE LastCall(_, _, _)
LastCall(cs, f, k) == IF k = 0 THEN NONE ELSE IF cs[k].f = f THEN Stored(cs[k]) ELSE LastCall(cs, f, k - 1)
LastWriteInv == Aspect = "setters" => \A f \in DFields : d[f] = LastCall(calls, f, Len(calls))

View == IF Aspect = "setters" THEN <<d, Len(calls)>> ELSE <<p, calls>>

PerfOf(mode) ==                      \* the builder's own setters, call by call
  LET RECURSIVE Go(_, _)
      Go(x, k) == IF k = 0 THEN x ELSE PerfSet(mode, Go(x, k - 1), calls[k])
  IN Go(NewDifficulty, Len(calls))

ModeSet == {"osu", "taiko", "catch", "mania"}

Scenario ==
  IF Aspect = "setters"
  THEN [aspect |-> Aspect, calls |-> calls, d |-> d,
        perf |-> [m \in ModeSet |-> PerfOf(m)],
        allfwd |-> [m \in ModeSet |-> \A i \in 1..Len(calls) : Forwards(m, calls[i].f)],
        irrelevant |-> [m \in ModeSet |-> \A i \in 1..Len(calls) : Irrelevant(m, calls[i].f)]]
  ELSE [aspect |-> Aspect, calls |-> calls, entry |-> p.entry, src |-> p.src,
        eval |-> Evaluates(p), stale |-> Stale(p), d |-> p.d]

Printer == PrintT(<<"REPLAY", ToJson(Scenario)>>)
=============================================================================
