---------------------------- MODULE MC_CsharpSort ----------------------------
(* every key sequence up to MaxLen over NKeys key values (ties are the point); Threshold is the size below which the     *)
(* code switches to insertion sort (16 in the code; a smaller value makes the partition code reachable with short lists  *)
(* in the model-only runs).  Each sequence is printed for the replay on the real `sort::csharp`.                         *)
EXTENDS CsharpSort, Json
CONSTANTS MaxLen, MinLen, NKeys, Threshold
VARIABLES keys
vars == <<keys>>
Init == keys = <<>>
Next == Len(keys) < MaxLen /\ \E k \in 1..NKeys : keys' = Append(keys, k)
N == Len(keys)
Arr == [i \in 0..(N - 1) |-> [k |-> keys[i + 1], id |-> i + 1]]
R == Sort(Arr, N, Threshold)
SortGood == N >= MinLen => Good(R, Arr, N)
Ids(r) == [i \in 1..N |-> r.a[i - 1].id]
Printer == N >= MinLen => PrintT(<<"REPLAY", ToJson([kind |-> "csharpsort", aspect |-> "any", keys |-> keys, out |-> Ids(R), err |-> R.err])>>)
=============================================================================
