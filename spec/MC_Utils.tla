------------------------------- MODULE MC_Utils -------------------------------
EXTENDS Utils, Json
CONSTANTS Aspect, MaxLen
VARIABLES keys, hist, phase
vars == <<keys, hist, phase>>
KeyVals == {1, 2, 3}
QN == {1, 2, 3, 7}
Init == keys = <<>> /\ hist = <<>> /\ phase = "grow"
Next == /\ Len(keys) < MaxLen
        /\ \E k \in (IF Aspect = "tandem" THEN KeyVals ELSE {1}) : keys' = Append(keys, k)
        /\ hist' = Append(hist, Len(hist) + 11)            \* queue elements: distinct values
        /\ UNCHANGED phase

(* TandemSorter: objects then sounds then a third slice, all get the stable permutation *)
IdsA == [k \in 1..Len(keys) |-> 100 + k]
IdsB == [k \in 1..Len(keys) |-> 200 + k]
TandemOk ==
  LET s0 == NewSorter(keys)
      r1 == SortWith(s0, keys)
      r2 == SortWith(r1.sorter, IdsA)
      r3 == SortWith(r2.sorter, IdsB)
  IN /\ r1.slice = Permuted(keys, keys)
     /\ \A k \in 1..(Len(keys) - 1) : r1.slice[k] <= r1.slice[k + 1]
     /\ r2.slice = Permuted(keys, IdsA)
     /\ r3.slice = Permuted(keys, IdsB)

RECURSIVE PushAll(_, _, _)
PushAll(h, N, k) == IF k = 0 THEN NewQueue(N) ELSE QPush(PushAll(h, N, k - 1), N, h[k])
QueueOk == \A N \in QN :
  LET s == PushAll(hist, N, Len(hist)) IN
  /\ QSlices(s, N) = LastN(hist, N)
  /\ s.len = (IF Len(hist) < N THEN Len(hist) ELSE N)
  /\ \A i \in 0..(s.len - 1) : QIndex(s, N, i) = LastN(hist, N)[i + 1]

Inv == IF Aspect = "tandem" THEN TandemOk ELSE QueueOk
Printer == PrintT(<<"REPLAY", ToJson([kind |-> Aspect, aspect |-> Aspect, keys |-> keys, hist |-> hist,
                                      perm |-> StablePerm(keys, Len(keys)),
                                      queue |-> <<LastN(hist, 1), LastN(hist, 2), LastN(hist, 3), LastN(hist, 7)>>])>>)
=============================================================================
