---------------------------- MODULE TraceConvert ----------------------------
(* Trace validation for C19: every line is one real conversion of an osu!standard   *)
(* map (source and converted map projected; times as order-preserving ranks).       *)
EXTENDS Convert, Json, IOUtils, TLCExt
Rec == ndJsonDeserialize(IOEnv.TRACE)
VARIABLE l
Accept(ev) == /\ ~ev.panic /\ ev.ok
              /\ WellFormedConvert(ev)
              /\ (ev.target = "mania" => ev.out.keys_exact)
TraceInit == l = 1
TraceNext == l <= Len(Rec) /\ Accept(Rec[l]) /\ l' = l + 1
TraceSpec == TraceInit /\ [][TraceNext]_l
TraceAccepted ==
  LET d == TLCGet("stats").diameter IN
  IF d - 1 = Len(Rec) THEN TRUE
  ELSE Print(<<"TRACE-REJECTED at line", d, "event", Rec[d].label, Rec[d].target>>, FALSE)
=============================================================================
