------------------------- MODULE TraceManiaPatterns -------------------------
(***************************************************************************)
(* Trace validation of the osu! -> mania converter against ManiaPatterns:  *)
(* the hook in src/mania/convert/mod.rs emits one event per source object  *)
(* (generator inputs, previous pattern, generated notes); the recorder     *)
(* classifies the numeric inputs and writes one file per key count.  Every *)
(* event must be a step of the model: the logged previous pattern / stair  *)
(* direction is what the model carried over, the flag set is one the       *)
(* constructor can derive, and the generated pattern is one the generator  *)
(* can produce for SOME outcome of its RNG draws (observation-guided).     *)
(***************************************************************************)
EXTENDS ManiaPatterns, Json, IOUtils, TLCExt
Rec == ndJsonDeserialize(IOEnv.TRACE)
VARIABLES l, prev, stair
tvars == <<l, prev, stair>>

SetOf(seq) == {seq[i] : i \in 1..Len(seq)}
Abs(seq) == [cols |-> SetOf(seq), last |-> IF Len(seq) = 0 THEN -1 ELSE seq[Len(seq)], len |-> Len(seq)]
AllInRange(seq) == \A i \in 1..Len(seq) : InRange(seq[i])

Reset(ev) == prev' = Empty /\ stair' = "STAIR"

CircleEv(ev) ==
  LET ct == SetOf(ev.ct)
      x == [prev |-> prev, stair |-> stair, ct |-> ct, finish |-> ev.finish, clap |-> ev.clap, cd |-> ev.cd, x0 |-> ev.x0, obs |-> ev.out]
  IN /\ Abs(ev.prev) = prev /\ ev.stair = stair                                    \* the converter's hand-over
     /\ \E cls \in 1..9 : HitFlags(cls, stair, ev.finish, ev.clap) = ct             \* a flag set the constructor derives
     /\ ev.x0 \in XCols
     /\ AllInRange(ev.out)                                                         \* C19
     /\ \E r \in GenerateCore(x) : r.err = "" /\ r.p = Abs(ev.out)
     /\ prev' = Abs(ev.out)
     /\ stair' = StairAfter(x, Abs(ev.out)) /\ stair' = ev.stair_after

SliderEv(ev) ==
  LET y == [prev |-> prev, low |-> ev.low, span |-> ev.span, seg |-> ev.seg, long |-> ev.long, cd |-> ev.cd, x0 |-> ev.x0,
            dbl |-> ev.dbl, head |-> ev.head, exact |-> ev.exact, zero |-> ev.zero, obs |-> ev.all]
      keep == IF ev.single THEN ev.all ELSE ev.endp
  IN /\ Abs(ev.prev) = prev
     /\ ev.x0 \in XCols
     /\ AllInRange(ev.all)
     /\ \E r \in PathGenerate(y) : r.err = "" /\ r.p = Abs(ev.all) /\ r.e = Abs(keep)
     /\ prev' = Abs(keep) /\ UNCHANGED stair

SpinnerEv(ev) ==
  /\ Abs(ev.prev) = prev
  /\ AllInRange(ev.out)
  /\ \E r \in EndTimeGenerate([prev |-> prev, finish |-> ev.finish, short |-> ev.short]) : r.err = "" /\ r.p = Abs(ev.out)
  /\ UNCHANGED <<prev, stair>>

(* the object list the mania difficulty calculation works on (after HoldOff / Invert / Random): a well-formed mania map *)
ObjectsEv(ev) ==
  /\ ev.finite
  /\ AllInRange(ev.cols)
  /\ \A i \in 1..(Len(ev.starts) - 1) : ev.starts[i] <= ev.starts[i + 1]          \* time order
  /\ \A i \in 1..Len(ev.starts) : ev.ends[i] >= ev.starts[i]                      \* no negative duration
  /\ UNCHANGED <<prev, stair>>

TraceInit == l = 1 /\ prev = Empty /\ stair = "STAIR"
TraceNext ==
  /\ l <= Len(Rec) /\ l' = l + 1
  /\ LET ev == Rec[l] IN
       CASE ev.g = "reset" -> Reset(ev)
         [] ev.g = "circle" -> CircleEv(ev)
         [] ev.g = "slider" -> SliderEv(ev)
         [] ev.g = "objects" -> ObjectsEv(ev)
         [] OTHER -> SpinnerEv(ev)
TraceSpec == TraceInit /\ [][TraceNext]_tvars
TraceAccepted ==
  LET d == TLCGet("stats").diameter IN
  IF d - 1 = Len(Rec) THEN TRUE
  ELSE Print(<<"TRACE-REJECTED at line", d, "event", Rec[d]>>, FALSE)
=============================================================================
