CONSTANTS
  ACC_T = 40
SPECIFICATION TraceSpec
POSTCONDITION TraceAccepted
CHECK_DEADLOCK FALSE
