---------------------------- MODULE ApaScoreStd ----------------------------
(***************************************************************************)
(* C12 for UNBOUNDED counts (Apalache): the no-accuracy branch of          *)
(* `generate_state` for osu!, osu!taiko and osu!mania (ScoreGen.tla,       *)
(* GenStd) without records, sequences or recursion, and the C12            *)
(* requirements unrolled.  MC_ApaAgree (TLC) ties this flat version to     *)
(* ScoreGen on the bounded cases; Apalache shows Req for all counts.       *)
(***************************************************************************)
EXTENDS Integers
VARIABLES
  \* @type: Str;
  mode,
  \* @type: Str;
  prio,
  \* @type: Str;
  origin,
  \* @type: Int;
  sa,
  \* @type: Int;
  sb,
  \* @type: Int;
  sc,
  \* @type: Int;
  sd,
  \* @type: Int;
  passed,
  \* @type: Int;
  pgeki,
  \* @type: Int;
  p300,
  \* @type: Int;
  pkatu,
  \* @type: Int;
  p100,
  \* @type: Int;
  p50,
  \* @type: Int;
  pmiss,
  \* @type: Int;
  pcombo,
  \* @type: Int;
  pends,
  \* @type: Int;
  plarge,
  \* @type: Int;
  psmall

NONE == -1
Has(v) == v # NONE
Or0(v) == IF v = NONE THEN 0 ELSE v
Min(a, b) == IF a < b THEN a ELSE b
SatSub(a, b) == IF a > b THEN a - b ELSE 0

Classic == origin # "L"
MissCap == IF passed = NONE THEN sa ELSE Min(passed, sa)
NRes == IF mode = "mania" THEN MissCap + (IF Classic THEN 0 ELSE sb) ELSE MissCap
MaxCombo == IF mode = "osu" THEN sd ELSE IF mode = "taiko" THEN sa ELSE 0

AGeki == mode = "mania"
AKatu == mode = "mania"
A50 == mode # "taiko"

Misses == Min(Or0(pmiss), MissCap)
NRem == NRes - Misses
Cl(active, p) == IF active /\ Has(p) THEN Min(p, NRem) ELSE 0
CGeki == Cl(AGeki, pgeki)
C300 == Cl(TRUE, p300)
CKatu == Cl(AKatu, pkatu)
C100 == Cl(TRUE, p100)
C50 == Cl(A50, p50)
Remaining == SatSub(NRes, CGeki + C300 + CKatu + C100 + C50 + Misses)

FreeGeki == AGeki /\ ~Has(pgeki)
Free300 == ~Has(p300)
FreeKatu == AKatu /\ ~Has(pkatu)
Free100 == ~Has(p100)
Free50 == A50 /\ ~Has(p50)
SomeFree == FreeGeki \/ Free300 \/ FreeKatu \/ Free100 \/ Free50

(* the field that receives the remainder *)
Target == IF prio = "B"
          THEN (IF FreeGeki THEN "geki" ELSE IF Free300 THEN "n300" ELSE IF FreeKatu THEN "katu" ELSE IF Free100 THEN "n100"
                ELSE IF Free50 THEN "n50" ELSE IF AGeki THEN "geki" ELSE "n300")
          ELSE (IF Free50 THEN "n50" ELSE IF Free100 THEN "n100" ELSE IF FreeKatu THEN "katu" ELSE IF Free300 THEN "n300"
                ELSE IF FreeGeki THEN "geki" ELSE IF A50 THEN "n50" ELSE "n100")
Plus(f) == IF Target = f THEN Remaining ELSE 0
RGeki == CGeki + Plus("geki")
R300 == C300 + Plus("n300")
RKatu == CKatu + Plus("katu")
R100 == C100 + Plus("n100")
R50 == C50 + Plus("n50")
RCombo == IF mode = "mania" THEN 0
          ELSE IF Has(pcombo) THEN Min(pcombo, SatSub(MaxCombo, Misses)) ELSE SatSub(MaxCombo, Misses)
REnds == IF mode = "osu" /\ origin = "L" THEN (IF Has(pends) THEN Min(pends, sb) ELSE sb) ELSE 0
RLarge == IF mode # "osu" \/ origin = "S" THEN 0
          ELSE IF origin = "L" THEN (IF Has(plarge) THEN Min(plarge, sc) ELSE sc)
          ELSE (IF Has(plarge) THEN Min(plarge, sb + sc) ELSE sb + sc)
RSmall == IF mode = "osu" /\ origin = "C" THEN (IF Has(psmall) THEN Min(psmall, sb) ELSE sb) ELSE 0

(* C12 requirements (ScoreGen.tla) *)
Prov(active, p) == IF active /\ Has(p) THEN Min(p, NRem) ELSE 0
Fits == Prov(AGeki, pgeki) + Prov(TRUE, p300) + Prov(AKatu, pkatu) + Prov(TRUE, p100) + Prov(A50, p50) + Misses <= NRes
Keep(active, p, r) == (active /\ Has(p) /\ p <= NRem) => (r >= p /\ (SomeFree => r = p))
NonNeg == RGeki >= 0 /\ R300 >= 0 /\ RKatu >= 0 /\ R100 >= 0 /\ R50 >= 0 /\ Misses >= 0 /\ RCombo >= 0 /\ REnds >= 0 /\ RLarge >= 0 /\ RSmall >= 0
MissesOk == Misses <= MissCap
KeepOk == Fits => Keep(AGeki, pgeki, RGeki) /\ Keep(TRUE, p300, R300) /\ Keep(AKatu, pkatu, RKatu) /\ Keep(TRUE, p100, R100) /\ Keep(A50, p50, R50)
SumOk == Fits => RGeki + R300 + RKatu + R100 + R50 + Misses = NRes
ComboOk == mode # "mania" => RCombo <= SatSub(MaxCombo, Misses)
Req == NonNeg /\ MissesOk /\ KeepOk /\ SumOk /\ ComboOk

Ge(v) == v \in Int /\ v >= -1
Init == /\ mode \in {"osu", "taiko", "mania"} /\ prio \in {"B", "W"} /\ origin \in {"S", "L", "C"}
        /\ sa \in Nat /\ sb \in Nat /\ sc \in Nat /\ sd \in Nat
        /\ Ge(passed) /\ Ge(pgeki) /\ Ge(p300) /\ Ge(pkatu) /\ Ge(p100) /\ Ge(p50) /\ Ge(pmiss) /\ Ge(pcombo) /\ Ge(pends) /\ Ge(plarge) /\ Ge(psmall)
Next == UNCHANGED <<mode, prio, origin, sa, sb, sc, sd, passed, pgeki, p300, pkatu, p100, p50, pmiss, pcombo, pends, plarge, psmall>>
=============================================================================
