--------------------------- MODULE MC_CatchConvert ---------------------------
(* design-level check of the two book-keeping modes of the catch object counter: for every source list over a small   *)
(* alphabet (fruits, showers, juice streams with representative event lists) and every k, the regular counter with    *)
(* take = k reports exactly the sums of the first k gradual rows, the palpable list has one entry per row, and the    *)
(* RNG consumption does not depend on take.                                                                           *)
EXTENDS CatchConvert, TLC
CONSTANTS MaxLen
VARIABLES src
vars == <<src>>

E(k, t) == [k |-> k, t |-> t]
Shapes == {
  <<E("Head", 0), E("LastTick", 30), E("Tail", 60)>>,                                                   \* no tiny droplets
  <<E("Head", 0), E("Tick", 250), E("LastTick", 464), E("Tail", 500)>>,                                 \* 3 + 3 + 0
  <<E("Head", 0), E("Repeat", 90), E("LastTick", 144), E("Tail", 180)>>,                                \* gap in (80, 100]: none
  <<E("Head", 0), E("Tick", 1000), E("Repeat", 2000), E("Tick", 3000), E("LastTick", 3964), E("Tail", 4000)>>,
  <<E("Head", 0), E("Tick", 100), E("LastTick", 50), E("Tail", 101)>> }                                 \* last tick before the tick
Alphabet == {[k |-> "fruit"]} \cup {[k |-> "shower", n |-> n] : n \in {0, 3}} \cup {[k |-> "stream", evs |-> s] : s \in Shapes}

RECURSIVE Run(_, _, _)
Run(S, list, i) ==
  IF i > Len(list) THEN S
  ELSE LET o == list[i]
       IN Run(CASE o.k = "fruit" -> Fruit(S, 100, 1000 * i, 0, 1000).S
                [] o.k = "shower" -> Shower(S, o.n)
                [] OTHER -> Stream(S, 100, 1000 * i, 50, o.evs), list, i + 1)
Conv(take) == Run(Init(take, FALSE), src, 1)

Init0 == src = <<>>
Next == Len(src) < MaxLen /\ \E o \in Alphabet : src' = Append(src, o)

Full == Conv(Unlimited)
PrefixConsistent ==
  \A k \in 0..(Full.npalp + 1) :
    LET R == Conv(k) IN
    /\ <<R.fruits, R.droplets, R.tiny>> = PrefixCounts(Full.rows, k)
    /\ R.rows = Full.rows /\ R.npalp = Full.npalp /\ R.draws = Full.draws
RowsArePalpable == Len(Full.rows) = Full.npalp /\ Full.npalp = Full.fruits + Full.droplets
\* the tiny droplets after the LAST palpable object of the map are in no row and in no count
NoErr == Full.err = ""
=============================================================================
