----------------------------- MODULE AttrBuilder -----------------------------
(***************************************************************************)
(* BeatmapAttributesBuilder::hit_windows / build in exact rational         *)
(* arithmetic (C17).  It is case analysis (mode x convert flag x with_mods *)
(* x HR/EZ x clock rate) over piecewise-linear maps, so it can be          *)
(* transcribed exactly; the real f64 / f32 outputs are compared with these *)
(* rationals under a tolerance.                                            *)
(* A rational is <<n, d>> with d > 0, kept normalised.                     *)
(***************************************************************************)
EXTENDS Integers, Sequences, TLC

Abs(x) == IF x < 0 THEN -x ELSE x
RECURSIVE Gcd(_, _)
Gcd(a, b) == IF b = 0 THEN a ELSE Gcd(b, a % b)
Norm(n, d) == LET g == Gcd(Abs(n), Abs(d))  s == IF d < 0 THEN -1 ELSE 1
              IN IF g = 0 THEN <<0, 1>> ELSE <<s * (n \div g), s * (d \div g)>>
Q(n, d) == Norm(n, d)
I(n) == <<n, 1>>
QAdd(a, b) == Norm(a[1] * b[2] + b[1] * a[2], a[2] * b[2])
QSub(a, b) == Norm(a[1] * b[2] - b[1] * a[2], a[2] * b[2])
QMul(a, b) == Norm(a[1] * b[1], a[2] * b[2])
QDiv(a, b) == Norm(a[1] * b[2], a[2] * b[1])
QLe(a, b) == a[1] * b[2] <= b[1] * a[2]
QLt(a, b) == a[1] * b[2] < b[1] * a[2]
QEq(a, b) == a[1] * b[2] = b[1] * a[2]
QMin(a, b) == IF QLe(a, b) THEN a ELSE b
QMax(a, b) == IF QLe(a, b) THEN b ELSE a
QClamp(x, lo, hi) == QMax(lo, QMin(x, hi))
QFloor(a) == a[1] \div a[2]                      \* TLA+ \div floors for positive divisor
QCeil(a) == -((-a[1]) \div a[2])
QIsInt(a) == a[1] % a[2] = 0

(* difficulty_range(d, <<min, avg, max>>) *)
Range(d, w) ==
  IF QLt(I(5), d) THEN QAdd(I(w[2]), QDiv(QMul(I(w[3] - w[2]), QSub(d, I(5))), I(5)))
  ELSE IF QLt(d, I(5)) THEN QSub(I(w[2]), QDiv(QMul(I(w[2] - w[1]), QSub(I(5), d)), I(5)))
  ELSE I(w[2])

OSU_GREAT == <<80, 50, 20>>
OSU_OK == <<140, 100, 60>>
OSU_MEH == <<200, 150, 100>>
TAIKO_GREAT == <<50, 35, 20>>
TAIKO_OK == <<120, 80, 50>>
AR_WINDOWS == <<1800, 1200, 450>>

(* mods: "NM" / "HR" / "EZ";  val, rate rationals;  wm = with_mods *)
ModMult(val, mods) == IF mods = "HR" THEN QMin(QMul(val, Q(14, 10)), I(10))
                      ELSE IF mods = "EZ" THEN QMul(val, Q(1, 2)) ELSE val

Preempt(ar, wm, mods, rate) ==
  LET raw == IF wm THEN ar ELSE ModMult(ar, mods)
  IN QDiv(Range(raw, AR_WINDOWS), IF wm THEN I(1) ELSE rate)

(* <<great, ok, meh>>; absent windows are <<-1, 1>>; 4th = mania rounding boundary flag *)
NOWIN == <<0, 0>>
OdWindows(mode, conv, od, wm, mods, rate) ==
  LET r == IF wm THEN I(1) ELSE rate
      raw == IF wm THEN od ELSE ModMult(od, mods)
  IN CASE mode \in {"osu", "catch"} ->
            <<QDiv(Range(raw, OSU_GREAT), r), QDiv(Range(raw, OSU_OK), r), QDiv(Range(raw, OSU_MEH), r), FALSE>>
       [] mode = "taiko" ->
            <<QDiv(Range(raw, TAIKO_GREAT), r), QDiv(Range(raw, TAIKO_OK), r), NOWIN, FALSE>>
       [] mode = "mania" ->
            LET v0 == IF ~conv THEN QAdd(I(34), QMul(I(3), QClamp(QSub(I(10), od), I(0), I(10))))
                      ELSE IF (LET f == QFloor(od)  fr == QSub(od, I(f))          \* round_ties_even(od) > 4
                               IN (IF QLt(Q(1, 2), fr) \/ (QEq(fr, Q(1, 2)) /\ f % 2 = 1) THEN f + 1 ELSE f) > 4)
                           THEN I(34) ELSE I(47)
                v1 == IF wm THEN v0 ELSE IF mods = "HR" THEN QDiv(v0, Q(14, 10)) ELSE IF mods = "EZ" THEN QMul(v0, Q(14, 10)) ELSE v0
                x  == QMul(v1, r)
                fl == QDiv(I(QFloor(x)), r)
            IN <<I(QCeil(fl)), NOWIN, NOWIN, QIsInt(x) \/ QIsInt(fl)>>

(* build(): ar / od / cs / hp reported back *)
BuildAr(ar, wm, mods, rate) ==
  LET p == Preempt(ar, wm, mods, rate)
  IN IF QLt(I(1200), p) THEN QDiv(QSub(I(1800), p), I(120)) ELSE QAdd(QDiv(QSub(I(1200), p), I(150)), I(5))
BuildOd(mode, conv, od, wm, mods, rate) ==
  LET g == OdWindows(mode, conv, od, wm, mods, rate)[1]
  IN CASE mode = "osu" -> QDiv(QSub(I(80), g), I(6))
       [] mode = "taiko" -> QMul(QDiv(QSub(I(50), g), I(15)), I(5))
       [] OTHER -> od
BuildHp(hp, wm, mods) ==
  QMin(IF wm THEN hp ELSE QMul(hp, IF mods = "HR" THEN Q(14, 10) ELSE IF mods = "EZ" THEN Q(1, 2) ELSE I(1)), I(10))
BuildCs(cs, wm, mods) ==
  IF wm THEN cs ELSE IF mods = "HR" THEN QMin(QMul(cs, Q(13, 10)), I(10)) ELSE IF mods = "EZ" THEN QMul(cs, Q(1, 2)) ELSE cs

=============================================================================
