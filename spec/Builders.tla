------------------------------ MODULE Builders ------------------------------
(***************************************************************************)
(* Difficulty / Performance builders (C18) and the MapOrAttrs machine      *)
(* inside a performance builder (C04).                                     *)
(*                                                                         *)
(* A Difficulty is a record of optionals.  Setter values are value classes *)
(* with the concrete number chosen by the harness:                         *)
(*   clock:  "neg" "zero" "below" "min" "one" "in" "max" "above"            *)
(*           (-1 0 0.001 0.01 1 1.3 100 5000)                               *)
(*   attr :  "lo" "min" "in" "max" "hi" x with_mods  (-25 -20 6.5 20 25)   *)
(* Clamp maps below/lo -> min and above/hi -> max: what inspect() shows.   *)
(***************************************************************************)
EXTENDS Integers, Sequences, FiniteSets, TLC

(* every field value is a record [v, w]: value (class) and with_mods flag (attributes only) *)
NONE == [v |-> "none", w |-> FALSE]
DFields == {"mods", "passed", "clock", "ar", "cs", "hp", "od", "hro", "lazer"}
NewDifficulty == [f \in DFields |-> NONE]

ClampClass(v) == CASE v \in {"below", "zero", "neg"} -> "min" [] v = "above" -> "max" [] v = "lo" -> "min" [] v = "hi" -> "max" [] OTHER -> v

(* a setter call is [f |-> field, v |-> value class or value, w |-> with_mods (attrs only)] *)
Stored(call) ==
  CASE call.f = "clock" -> [v |-> ClampClass(call.v), w |-> FALSE]
    [] call.f \in {"ar", "cs", "hp", "od"} -> [v |-> ClampClass(call.v), w |-> call.w]
    [] OTHER -> [v |-> call.v, w |-> FALSE]

Set(d, call) == [d EXCEPT ![call.f] = Stored(call)]

(* Difficulty -> InspectDifficulty -> Difficulty re-applies every setter *)
RoundTrip(d) ==
  [f \in DFields |->
     IF d[f] = NONE THEN NONE
     ELSE IF f \in {"clock", "ar", "cs", "hp", "od"} THEN [d[f] EXCEPT !.v = ClampClass(@)] ELSE d[f]]

(* which Difficulty setters a mode's performance builder (and the Performance enum) forwards; *)
(* everything else is a no-op on that builder                                                 *)
Forwards(mode, f) ==
  CASE f \in {"mods", "passed", "clock", "hp", "od"} -> TRUE
    [] f \in {"ar", "cs"} -> mode \in {"osu", "catch"}
    [] f = "hro" -> mode = "catch"
    [] f = "lazer" -> mode \in {"osu", "mania"}

PerfSet(mode, d, call) == IF Forwards(mode, call.f) THEN Set(d, call) ELSE d

(* setters whose value cannot influence the result of a mode (documented as irrelevant) *)
Irrelevant(mode, f) ==
  CASE f \in {"ar", "cs"} -> mode \in {"taiko", "mania"}
    [] f = "hro" -> mode # "catch"
    [] f = "lazer" -> mode \in {"taiko", "catch"}
    [] OTHER -> FALSE

-----------------------------------------------------------------------------
(* MapOrAttrs: a performance builder holds either the map or attributes;   *)
(* generate_state() replaces the map by the attributes computed with the   *)
(* settings of that moment (made).  calculate() = generate_state, then     *)
(* performance from (attributes, current settings, state).                 *)

Source(entry) == IF entry \in {"map_ref", "map_owned", "mode_map"} THEN "map" ELSE "attrs"

(* `made`: with which settings the attributes held by the builder were computed:          *)
(*   kind "none"  no attributes yet (map)                                                  *)
(*   kind "at"    computed by generate_state() with the settings d of that moment          *)
(*   kind "final" supplied by the caller, who computed them with the settings he supplies   *)
(*                again (the premise of C04)                                                *)
NoMade == [kind |-> "none", d |-> NewDifficulty]
NewPerf(entry) == [src |-> Source(entry),
                   made |-> IF Source(entry) = "map" THEN NoMade ELSE [kind |-> "final", d |-> NewDifficulty],
                   d |-> NewDifficulty, entry |-> entry]

GenerateState(p) == IF p.src = "map" THEN [p EXCEPT !.src = "attrs", !.made = [kind |-> "at", d |-> p.d]] ELSE p

(* what calculate() evaluates: settings the attributes are made with, settings of the performance part *)
Evaluates(p) ==
  LET q == GenerateState(p) IN
  [attrs_with |-> IF q.made.kind = "final" THEN q.d ELSE q.made.d, perf_with |-> q.d]

Stale(p) == p.src = "attrs" /\ p.made.kind = "at" /\ p.made.d # p.d          \* the documented foot-gun, a named state

=============================================================================
