---------------------------- MODULE MC_LegacySort ----------------------------
(***************************************************************************)
(* Aspect "sorted": every NON-DECREASING key sequence up to MaxLen - the   *)
(* only inputs the library feeds to sort::osu_legacy (the decoder and the  *)
(* mania converter run a stable sort first).  On these the code as written *)
(* must return a sorted permutation without a panic (C05 / C06 / C19) and  *)
(* the order among equal keys of the reference (lazer's LegacySortHelper). *)
(* Aspect "any": every key sequence; only the reference is required to     *)
(* sort (the code as written does NOT sort e.g. <<3,1,2,1,1,4>> - it       *)
(* re-reads the pivot slot after swapping through it - which no public     *)
(* path can reach); the model's "rust" column is still replayed so that    *)
(* the transcription stays bound to the code.                              *)
(***************************************************************************)
EXTENDS LegacySort, Json
CONSTANTS MaxLen, NKeys, Aspect
VARIABLES keys
vars == <<keys>>
Init == keys = <<>>
Next == /\ Len(keys) < MaxLen
        /\ \E k \in 1..NKeys :
             /\ Aspect = "sorted" /\ keys # <<>> => k >= keys[Len(keys)]
             /\ keys' = Append(keys, k)
N == Len(keys)
Arr == [i \in 0..(N - 1) |-> [k |-> keys[i + 1], id |-> i + 1]]
R == Sort("rust", Arr, N)
L == Sort("lazer", Arr, N)
ReferenceGood == Good(L, Arr, N)
RustGood == Aspect = "sorted" => Good(R, Arr, N)
RustIsReference == Aspect = "sorted" => R.a = L.a
Ids(r) == [i \in 1..N |-> r.a[i - 1].id]
Printer == PrintT(<<"REPLAY", ToJson([kind |-> "legacysort", aspect |-> Aspect, keys |-> keys, rust |-> Ids(R), rust_err |-> R.err,
                                      lazer |-> Ids(L), good |-> Good(R, Arr, N)])>>)
=============================================================================
