--------------------------- MODULE MC_TaikoRhythm ---------------------------
(* every interval sequence up to MaxLen over Ivs; the two grouping levels are printed for the replay on the real preprocessor *)
(* (hook event `taiko_rhythm`) in the default and the sync build                                                          *)
EXTENDS TaikoRhythm, Json, TLC
CONSTANTS MaxLen, Ivs
VARIABLES ivs
vars == <<ivs>>
Init == ivs = <<>>
Next == Len(ivs) < MaxLen /\ \E d \in Ivs : ivs' = Append(ivs, d)
WellFormed == Partitions(ivs)
Printer == ivs = <<>> \/ PrintT(<<"REPLAY", ToJson([ivs |-> ivs] @@ Rhythm(ivs))>>)
=============================================================================
