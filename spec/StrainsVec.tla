----------------------------- MODULE StrainsVec -----------------------------
(***************************************************************************)
(* The two implementations of the strain list (src/util/strains_vec.rs):   *)
(*   compact  run-length list: an entry is a value (f64, sign bit clear)   *)
(*            or a run of zeros (sign bit set, count in the low bits)      *)
(*   raw      plain Vec<f64> (feature raw_strains)                         *)
(* C10: on the domain "section peaks are non-negative numbers" every       *)
(*      operation gives numerically equal results in both.                 *)
(* C11: the unsafe blocks' preconditions as state invariants:              *)
(*      I1 every value entry holds a sign-positive f64 (the sign bit       *)
(*         discriminates the union),                                       *)
(*      I2 transmute_into_vec only when no zero-run entry is left,         *)
(*      I3 the iterator's zero-count decrement never underflows.           *)
(* Values are tokens:                                                      *)
(*   <<"pos", m>> m > 0      <<"sub", 0>> positive subnormal               *)
(*   <<"pz", 0>> +0.0        <<"nz", 0>> -0.0                              *)
(*   <<"neg", m>> -m         <<"pnan", 0>> / <<"nnan", 0>> NaN by sign     *)
(***************************************************************************)
EXTENDS Integers, Sequences, FiniteSets, TLC

Class(v) == v[1]
SignPositiveNonZeroBits(v) == Class(v) \in {"pos", "sub", "pnan"}     \* to_bits() > 0 && is_sign_positive()
GreaterThanZero(v) == Class(v) \in {"pos", "sub"}                      \* a > 0.0
IsNumZero(v) == Class(v) \in {"pz", "nz"}

(* total order used by sort_desc (f64::total_cmp), as a rank *)
Rank(v) == CASE Class(v) = "nnan" -> -1000
             [] Class(v) = "neg"  -> -v[2]
             [] Class(v) = "nz"   -> -0
             [] Class(v) = "pz"   -> 0
             [] Class(v) = "sub"  -> 1
             [] Class(v) = "pos"  -> 10 * v[2]
             [] Class(v) = "pnan" -> 1000000

RECURSIVE InsertDesc(_, _)
InsertDesc(sorted, v) ==                  \* stable descending insertion
  IF sorted = <<>> THEN <<v>>
  ELSE IF Rank(sorted[Len(sorted)]) >= Rank(v) THEN Append(sorted, v)
  ELSE Append(InsertDesc(SubSeq(sorted, 1, Len(sorted) - 1), v), sorted[Len(sorted)])
RECURSIVE SortDesc(_, _)
SortDesc(s, k) == IF k = 0 THEN <<>> ELSE InsertDesc(SortDesc(s, k - 1), s[k])


-----------------------------------------------------------------------------
(* compact: [inner: Seq of [z: BOOLEAN, v: token | count], len] *)

CNew == [inner |-> <<>>, len |-> 0]
ZeroRun(n) == [z |-> TRUE, n |-> n, v |-> <<"pz", 0>>]
Val(v) == [z |-> FALSE, n |-> 0, v |-> v]

CPush(c, v) ==
  IF SignPositiveNonZeroBits(v) THEN [inner |-> Append(c.inner, Val(v)), len |-> c.len + 1]
  ELSE IF c.inner # <<>> /\ c.inner[Len(c.inner)].z
       THEN [inner |-> [c.inner EXCEPT ![Len(c.inner)] = ZeroRun(@.n + 1)], len |-> c.len + 1]
       ELSE [inner |-> Append(c.inner, ZeroRun(1)), len |-> c.len + 1]

IsValEntry(e) == ~e.z
CRetain(c) == [c EXCEPT !.inner = SelectSeq(c.inner, IsValEntry)]
CHasZero(c) == \E i \in 1..Len(c.inner) : c.inner[i].z
CValues(c) == [i \in 1..Len(c.inner) |-> c.inner[i].v]                     \* only meaningful without zero runs
CSortDesc(c) == [c EXCEPT !.inner = [i \in 1..Len(c.inner) |-> Val(SortDesc(CValues(c), Len(c.inner))[i])]]

RECURSIVE Expand(_, _)
Expand(inner, k) ==                       \* iter() / into_vec(): zero runs become +0.0
  IF k = 0 THEN <<>>
  ELSE Expand(inner, k - 1) \o (IF inner[k].z THEN [j \in 1..inner[k].n |-> <<"pz", 0>>] ELSE <<inner[k].v>>)
CIntoVec(c) == Expand(c.inner, Len(c.inner))

(* scale the first k entries (sorted_non_zero_iter_mut().take(k)): m -> m - 1 stays positive *)
ScaleTok(v) == IF Class(v) = "pos" THEN <<"pos", v[2] - 1>> ELSE v           \* pushed magnitudes are even (MC), scaled ones odd
CScale(c, k) == [c EXCEPT !.inner = [i \in 1..Len(c.inner) |-> IF i <= k THEN Val(ScaleTok(c.inner[i].v)) ELSE c.inner[i]]]

-----------------------------------------------------------------------------
(* raw: Seq of tokens *)
RPush(r, v) == Append(r, IF SignPositiveNonZeroBits(v) THEN v ELSE <<"pz", 0>>)   \* same predicate as the compact push
RRetain(r) == SelectSeq(r, GreaterThanZero)
RSortDesc(r) == SortDesc(r, Len(r))
RScale(r, k) == [i \in 1..Len(r) |-> IF i <= k THEN ScaleTok(r[i]) ELSE r[i]]

-----------------------------------------------------------------------------
(* the lifecycles the calculators run (any/difficulty/skills.rs, osu/.../strain.rs, flashlight, strains()) *)
(* result = the sequence of values handed to the weighted sum / returned to the caller                    *)

CFinish(c, op) ==
  CASE op = "difficulty_value" -> CValues(CSortDesc(CRetain(c)))              \* retain_non_zero_and_sort; transmute
    [] op = "osu_difficulty_value" -> CValues(CSortDesc(CScale(CSortDesc(CRetain(c)), 2)))
    [] op = "sum" -> CValues(CRetain(c))
    [] op = "into_vec" -> CIntoVec(c)
    [] op = "iter" -> CIntoVec(c)
RFinish(r, op) ==
  CASE op = "difficulty_value" -> RSortDesc(RRetain(r))
    [] op = "osu_difficulty_value" -> RSortDesc(RScale(RSortDesc(RRetain(r)), 2))
    [] op = "sum" -> r
    [] op = "into_vec" -> r
    [] op = "iter" -> r

(* numeric equality of two result sequences: +0.0 = -0.0, NaN # NaN *)
NumEqTok(a, b) == \/ (IsNumZero(a) /\ IsNumZero(b))
                  \/ (a = b /\ Class(a) \notin {"pnan", "nnan"})
NumEqSeq(a, b) == Len(a) = Len(b) /\ \A i \in 1..Len(a) : NumEqTok(a[i], b[i])
(* for sum: zeros do not matter *)
NotNumZero(v) == ~IsNumZero(v)
NonZeroPart(s) == SelectSeq(s, NotNumZero)
SameResult(op, a, b) == IF op = "sum" THEN NumEqSeq(NonZeroPart(a), NonZeroPart(b)) ELSE NumEqSeq(a, b)

(* C11 invariants on the compact list *)
I1_ValuesSignPositive(c) == \A i \in 1..Len(c.inner) : ~c.inner[i].z => SignPositiveNonZeroBits(c.inner[i].v) \/ Class(c.inner[i].v) = "pz"
I3_ZeroRunsPositive(c) == \A i \in 1..Len(c.inner) : c.inner[i].z => c.inner[i].n >= 1
LenOk(c) == Len(CIntoVec(c)) = c.len

=============================================================================
