---------------------------- MODULE MC_StrainsVec ----------------------------
(***************************************************************************)
(* All push sequences up to MaxPush over the value domain, followed by     *)
(* each lifecycle ending.  Dom = "ok": section peaks as the skills         *)
(* produce them when the non-negativity contract holds (positive, positive *)
(* subnormal, +0, -0) - C10 refinement must hold.  Dom = "all" adds        *)
(* negative numbers and NaNs: the C11 invariants must still hold there     *)
(* (no invalid access whatever is pushed), the refinement need not.        *)
(***************************************************************************)
EXTENDS StrainsVec, Json

CONSTANTS MaxPush, Dom

VARIABLES c, r, pushes, fin
vars == <<c, r, pushes, fin>>

OkVals == {<<"pos", 2>>, <<"pos", 4>>, <<"pos", 6>>, <<"sub", 0>>, <<"pz", 0>>, <<"nz", 0>>}
AllVals == OkVals \cup {<<"neg", 1>>, <<"pnan", 0>>, <<"nnan", 0>>}
Vals == IF Dom = "ok" THEN OkVals ELSE AllVals
Ops == {"difficulty_value", "osu_difficulty_value", "sum", "into_vec", "iter"}
NoFin == [op |-> "-", cres |-> <<>>, rres |-> <<>>, centries |-> <<>>]

Init == c = CNew /\ r = <<>> /\ pushes = <<>> /\ fin = NoFin
Push == /\ fin = NoFin /\ Len(pushes) < MaxPush
        /\ \E v \in Vals : c' = CPush(c, v) /\ r' = RPush(r, v) /\ pushes' = Append(pushes, v)
        /\ UNCHANGED fin
Finish == /\ fin = NoFin
          /\ \E op \in Ops : fin' = [op |-> op, cres |-> CFinish(c, op), rres |-> RFinish(r, op), centries |-> c.inner]
          /\ UNCHANGED <<c, r, pushes>>
Next == Push \/ Finish

(* C11 *)
UnsafePreconditions ==
  /\ I1_ValuesSignPositive(c) /\ I3_ZeroRunsPositive(c) /\ LenOk(c)
  /\ ~CHasZero(CRetain(c))                                            \* I2: transmute after retain sees no zero run
  /\ I1_ValuesSignPositive(CScale(CSortDesc(CRetain(c)), 2))           \* scaling keeps values sign-positive
(* C10 *)
Refines == (Dom = "ok" /\ fin # NoFin) => SameResult(fin.op, fin.cres, fin.rres)
(* the compact list is a faithful list of its (non-negative) input *)
ExpandIsInput == Dom = "ok" => NumEqSeq(CIntoVec(c), r)

Printer == fin # NoFin => PrintT(<<"REPLAY", ToJson([pushes |-> pushes, op |-> fin.op, compact |-> fin.cres, raw |-> fin.rres,
                                                      entries |-> [i \in 1..Len(fin.centries) |->
                                                          IF fin.centries[i].z THEN <<"zeros", fin.centries[i].n>> ELSE fin.centries[i].v],
                                                      same |-> SameResult(fin.op, fin.cres, fin.rres)])>>)
=============================================================================
