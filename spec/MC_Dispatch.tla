---------------------------- MODULE MC_Dispatch ----------------------------
(***************************************************************************)
(* All sequences of up to MaxSteps conversions (entry point x target) from *)
(* every native map, plus every (handle, api, target) dispatch case.       *)
(* Printer: one scenario per state (the conversion history and the model's *)
(* outcome of every step), and per state every dispatch api outcome.       *)
(***************************************************************************)
EXTENDS Dispatch, Json

CONSTANT MaxSteps
VARIABLES native, h, hist, outs
vars == <<native, h, hist, outs>>

Entries == {"ref", "mut", "val"}

Init == /\ native \in GameModes
        /\ h = [mode |-> native, conv |-> FALSE]
        /\ hist = <<>> /\ outs = <<>>

Next == /\ Len(hist) < MaxSteps
        /\ \E e \in Entries, t \in GameModes :
             /\ hist' = Append(hist, [e |-> e, t |-> t])
             /\ outs' = Append(outs, [r |-> Entry(e, h, t), after |-> After(e, h, t)])
             /\ h' = After(e, h, t)
             /\ UNCHANGED native

Spec == Init /\ [][Next]_vars

Inv == EntriesAgree(h) /\ OwnModeIdentity(h) /\ OnlyOsuConverts(h)
FlagInv == h.conv => (h.mode # native /\ native = "osu")     \* is_convert exactly for converted maps
NeverBack == h.conv => h.mode # "osu"

(* dispatch apis evaluated on the current handle *)
Apis == [t \in GameModes |->
          [calc |-> ConvertRef(h, t).kind,
           try_ref |-> TryMode([variant |-> h.mode, src |-> "ref", h |-> h], t),
           try_own |-> TryMode([variant |-> h.mode, src |-> "own", h |-> h], t),
           try_attrs |-> TryMode([variant |-> h.mode, src |-> "attrs", h |-> h], t)]]

Printer == PrintT(<<"REPLAY", ToJson([native |-> native, steps |-> hist, outs |-> outs, h |-> h, apis |-> Apis])>>)
=============================================================================
