---------------------------- MODULE MC_Lifecycle ----------------------------
EXTENDS Lifecycle, Json
CONSTANT MaxSteps
VARIABLES s, ops
vars == <<s, ops>>
Init == s = [h \in Handles |-> NewHandle(h)] /\ ops = <<>>
Do(op, h, s2) == s' = s2 /\ ops' = Append(ops, [op |-> op, h |-> h])
Next == /\ Len(ops) < MaxSteps
        /\ \/ \E h \in Handles : s[h].live /\ Do("step", h, Step(s, h))
           \/ \E h \in Handles : s[h].live /\ Do("box", h, Move(s, h, "box"))
           \/ \E h \in Handles : s[h].live /\ s[h].loc # "vec" /\ Do("vec", h, PushVec(s, h))
           \/ \E h \in Handles : s[h].live /\ s[h].loc # "vec" /\ Do("thread", h, Move(s, h, "thread"))
           \/ (s["a"].live /\ s["b"].live /\ Do("swap", "a", Swap(s)))
           \/ \E h \in Handles : s[h].live /\ Do("drop", h, Drop(s, h))
ReferentStable == ReferentStableOf(s)
(* the replay only needs histories; keep one line per history that ends in a step or a drop *)
Printer == (ops # <<>> /\ ops[Len(ops)].op \in {"step", "drop"}) => PrintT(<<"REPLAY", ToJson([ops |-> ops])>>)
=============================================================================
