----------------------------- MODULE StrainSkill -----------------------------
(***************************************************************************)
(* The section machine of a strain skill (define_skill! in                 *)
(* src/util/macros.rs, any/difficulty/skills.rs), on integer times (C16).  *)
(*   first processed object: sectionEnd = ceil(t / L) * L                  *)
(*   while t > sectionEnd: save the open peak, sectionEnd += L             *)
(*   every export pushes the open section exactly once                     *)
(*     strains():  into_current_strain_peaks().into_vec()                  *)
(*     ratings  :  into_/cloned_difficulty_value()                         *)
(* so both see `saved + 1` sections.  Peaks themselves are floats and stay *)
(* outside the model; their count is a function of the object times.       *)
(***************************************************************************)
EXTENDS Integers, Sequences, TLC

CeilDiv(a, b) == -((-a) \div b)

NewSkill == [started |-> FALSE, end |-> 0, saved |-> 0]

RECURSIVE Advance(_, _, _)
Advance(s, t, L) == IF t > s.end THEN Advance([s EXCEPT !.saved = @ + 1, !.end = @ + L], t, L) ELSE s

Process(s, t, L) ==
  LET s1 == IF ~s.started THEN [s EXCEPT !.started = TRUE, !.end = CeilDiv(t, L) * L] ELSE s
  IN Advance(s1, t, L)

RECURSIVE ProcessAll(_, _, _, _)
ProcessAll(s, ts, k, L) == IF k = 0 THEN s ELSE Process(ProcessAll(s, ts, k - 1, L), ts[k], L)

Exported(s) == s.saved + 1                         \* both export paths

(* closed form for non-decreasing times *)
Sections(ts, L) ==
  IF ts = <<>> THEN 1
  ELSE LET end0 == CeilDiv(ts[1], L) * L
           last == ts[Len(ts)]
       IN 1 + (IF last > end0 THEN CeilDiv(last - end0, L) ELSE 0)
=============================================================================
