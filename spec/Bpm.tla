--------------------------------- MODULE Bpm ---------------------------------
(***************************************************************************)
(* Beatmap::bpm (src/model/beatmap/bpm.rs), part of C01.                   *)
(* Timing points are [t, bl] with integer times and beat lengths; the      *)
(* aggregator sums, per beat length, the time it is in effect (the first   *)
(* point is forced to start at 0; a point past the last object adds        *)
(* nothing) and picks the beat length with the largest total.  Ties go to  *)
(* the beat length that was added first - the choice must be a FUNCTION of *)
(* the timing points (it used to follow hash-map iteration order).         *)
(***************************************************************************)
EXTENDS Integers, Sequences, FiniteSets, TLC

(* the sequence of add(beat_len, curr_time, next_time) calls *)
Adds(tps, last) ==
  LET n == Len(tps) IN
  IF n = 0 THEN <<>>
  ELSE IF n = 1 THEN << <<tps[1].bl, 0, last>> >>
  ELSE << <<tps[1].bl, 0, tps[2].t>> >>
       \o [i \in 1..(n - 2) |-> <<tps[i + 1].bl, tps[i + 1].t, tps[i + 2].t>>]
       \o << <<tps[n].bl, tps[n].t, last>> >>

(* entries in order of first appearance: <<bl, total>> *)
RECURSIVE Aggregate(_, _, _)
Aggregate(adds, k, last) ==
  IF k = 0 THEN <<>>
  ELSE LET prev == Aggregate(adds, k - 1, last)
           a == adds[k]
           inc == IF a[2] <= last THEN a[3] - a[2] ELSE 0
           pos == {i \in 1..Len(prev) : prev[i][1] = a[1]}
       IN IF pos = {} THEN Append(prev, <<a[1], inc>>)
          ELSE LET i == CHOOSE i \in pos : TRUE IN [prev EXCEPT ![i] = <<@[1], @[2] + inc>>]

Entries(tps, last) == Aggregate(Adds(tps, last), Len(Adds(tps, last)), last)
MaxTotal(es) == CHOOSE m \in {es[i][2] : i \in 1..Len(es)} : \A i \in 1..Len(es) : es[i][2] <= m
Maximal(es) == {i \in 1..Len(es) : es[i][2] = MaxTotal(es)}

(* what any iteration order could pick (the old behaviour) *)
PossibleBeatLens(tps, last) == LET es == Entries(tps, last) IN {es[i][1] : i \in Maximal(es)}
(* the specified choice: first added among the maximal ones; 0 = no timing point *)
ChosenBeatLen(tps, last) ==
  LET es == Entries(tps, last) IN
  IF es = <<>> THEN 0 ELSE es[CHOOSE i \in Maximal(es) : \A j \in Maximal(es) : i <= j][1]
=============================================================================
