------------------------------- MODULE ModsRep -------------------------------
(***************************************************************************)
(* The three representations of a mod selection (C08): legacy bits /       *)
(* GameModsLegacy, GameModsIntermode, lazer GameMods with default          *)
(* settings, and every crate-internal accessor transcribed per             *)
(* representation from src/model/mods.rs, including the deliberate         *)
(* asymmetries (Legacy answers FALSE for lazer-only mods, Legacy has no    *)
(* 10K, the lazer representation only reflects for HardRockOsu).           *)
(* A selection is a subset of the twelve legacy acronyms plus an optional  *)
(* mania key mod (0 = none).                                               *)
(***************************************************************************)
EXTENDS Integers, Sequences, FiniteSets, TLC

Acronyms == {"NF", "EZ", "TD", "HD", "HR", "DT", "NC", "HT", "FL", "SO", "RX", "AP"}
Reps == {"legacy", "intermode", "lazer"}

(* selections a player can actually make: exclusive groups *)
Coherent(s) == /\ ~({"EZ", "HR"} \subseteq s)
               /\ Cardinality(s \cap {"DT", "NC", "HT"}) <= 1
               /\ Cardinality(s \cap {"RX", "AP"}) <= 1
               /\ ~(("NF" \in s) /\ (s \cap {"RX", "AP"} # {}))
               /\ ~({"SO", "AP"} \subseteq s)

(* which of the legacy mods exist in a mode (lazer GameMods are per mode; converting a      *)
(* selection to the lazer representation drops mods the mode does not have)               *)
Exists(a, mode) == CASE a \in {"SO", "AP", "TD"} -> mode = "osu"
                     [] a = "RX" -> mode # "mania"
                     [] OTHER -> TRUE
CoherentFor(s, mode) == Coherent(s) /\ \A a \in s : Exists(a, mode)

Has(rep, s, a) == a \in s                                   \* nf ez td hd hr rx fl so ap: same in all three
LazerOnly(rep, s) == FALSE                                  \* bl cl invert ho tc: never in a legacy selection

ClockRate(rep, s) == IF s \cap {"DT", "NC"} # {} THEN "1.5" ELSE IF "HT" \in s THEN "0.75" ELSE "1.0"
Multiplier(rep, s) == IF "HR" \in s THEN "1.4" ELSE IF "EZ" \in s THEN "0.5" ELSE "1.0"
HrOffsets(rep, s) == "HR" \in s
NoSliderHeadAcc(rep, s, lazer) == ~lazer
Reflection(rep, s, mode) ==
  IF "HR" \notin s THEN "None"
  ELSE IF rep = "lazer" /\ mode # "osu" THEN "None"          \* only GameMod::HardRockOsu reflects
  ELSE "Vertical"
ManiaKeys(rep, k) == IF k = 0 THEN 0 ELSE IF rep = "legacy" /\ k = 10 THEN 0 ELSE k

Vector(rep, s, k, mode, lazer) ==
  [nf |-> Has(rep, s, "NF"), ez |-> Has(rep, s, "EZ"), td |-> Has(rep, s, "TD"), hd |-> Has(rep, s, "HD"),
   hr |-> Has(rep, s, "HR"), rx |-> Has(rep, s, "RX"), fl |-> Has(rep, s, "FL"), so |-> Has(rep, s, "SO"),
   ap |-> Has(rep, s, "AP"), lazer_only |-> LazerOnly(rep, s),
   clock_rate |-> ClockRate(rep, s), multiplier |-> Multiplier(rep, s), hr_offsets |-> HrOffsets(rep, s),
   no_slider_head_acc |-> NoSliderHeadAcc(rep, s, lazer), reflection |-> Reflection(rep, s, mode),
   mania_keys |-> ManiaKeys(rep, k)]

(* what the calculators of `mode` actually read *)
UsedFields(mode) ==
  {"nf", "ez", "td", "hd", "hr", "rx", "fl", "so", "ap", "lazer_only", "clock_rate", "multiplier", "hr_offsets", "no_slider_head_acc"}
  \cup (IF mode = "osu" THEN {"reflection"} ELSE {})
  \cup (IF mode = "mania" THEN {"mania_keys"} ELSE {})

LegacyRepresentable(k) == k \in 0..9

(* C08 on the model: the representations agree on everything a calculator of that mode reads *)
Agree(s, k, mode, lazer) ==
  (CoherentFor(s, mode) /\ LegacyRepresentable(k)) =>
     \A r1, r2 \in Reps : \A f \in UsedFields(mode) :
        Vector(r1, s, k, mode, lazer)[f] = Vector(r2, s, k, mode, lazer)[f]
=============================================================================
