---------------------------- MODULE MC_StrainSkill ----------------------------
(* all maps of up to MaxObjs circles over a gap alphabet (section edges, long    *)
(* breaks, equal times) and start times incl. a negative one, clock rates        *)
(* 1/2, 1, 2 (times are doubled so that t / rate stays an integer).              *)
EXTENDS StrainSkill, Json
CONSTANT MaxObjs
VARIABLES start, gaps, rate2
vars == <<start, gaps, rate2>>
Gaps == {0, 1, 399, 400, 401, 750, 800, 1500, 20000}
Starts == {-700, 0, 300, 400, 750}
Init == start \in Starts /\ gaps = <<>> /\ rate2 \in {1, 2, 4}          \* rate = rate2 / 2
Next == Len(gaps) < MaxObjs - 1 /\ \E g \in Gaps : gaps' = Append(gaps, g) /\ UNCHANGED <<start, rate2>>

RECURSIVE TimeAt(_)
TimeAt(k) == IF k = 1 THEN start ELSE TimeAt(k - 1) + gaps[k - 1]
N == Len(gaps) + 1
(* scaled times: 2 * t / rate = 4 * t / rate2  (exact integers for rate2 in {1, 2, 4}) *)
Scaled(k) == (4 * TimeAt(k)) \div rate2
(* difficulty objects: from the 2nd object (osu, catch, mania), from the 3rd (taiko) *)
DiffTimes(first) == [i \in 1..(IF N >= first THEN N - first + 1 ELSE 0) |-> Scaled(i + first - 1)]
Count(first, L) == Exported(ProcessAll(NewSkill, DiffTimes(first), Len(DiffTimes(first)), 2 * L))

ClosedFormInv == \A first \in {2, 3} : \A L \in {400, 750} :
   Count(first, L) = Sections(DiffTimes(first), 2 * L)
Printer == PrintT(<<"REPLAY", ToJson([times |-> [k \in 1..N |-> TimeAt(k)], rate2 |-> rate2,
     sections |-> [osu |-> Count(2, 400), taiko |-> Count(3, 400), catch |-> Count(2, 750), mania |-> Count(2, 400)]])>>)
=============================================================================
