------------------------------ MODULE Dispatch ------------------------------
(***************************************************************************)
(* Mode dispatch and map conversion entry points (C07).                    *)
(* A map handle is [mode, conv]; only unconverted osu!standard maps        *)
(* convert.  The three conversion entry points are three separately        *)
(* written functions in the code (convert by value delegates to            *)
(* convert_mut, convert_ref and convert_mut each carry their own copy of   *)
(* the decision tree), so they are three operators here and their          *)
(* agreement is an invariant.  On top of them: the generic                 *)
(* calculate_for_mode / strains_for_mode / gradual constructors (start     *)
(* with convert_ref) and Performance::try_mode / mode_or_ignore (borrowed  *)
(* map: convert_ref, owned map: convert_mut, attributes: never converts).  *)
(***************************************************************************)
EXTENDS Integers, Sequences, FiniteSets, TLC

GameModes == {"osu", "taiko", "catch", "mania"}

Ok(m, c) == [kind |-> "ok", mode |-> m, conv |-> c]
Already == [kind |-> "already"]
Err(f, t) == [kind |-> "err", from |-> f, to |-> t]

ConvertRef(h, target) ==
  IF h.mode = target THEN Ok(h.mode, h.conv)                 \* Cow::Borrowed(self)
  ELSE IF h.conv THEN Already
  ELSE IF h.mode # "osu" THEN Err(h.mode, target)
  ELSE Ok(target, TRUE)                                       \* to_owned + Mode::convert

ConvertMut(h, target) ==
  IF h.mode = target THEN Ok(h.mode, h.conv)
  ELSE IF h.conv THEN Already
  ELSE IF h.mode # "osu" THEN Err(h.mode, target)
  ELSE Ok(target, TRUE)

ConvertVal(h, target) == ConvertMut(h, target)                \* self.convert_mut(mode, mods)?; Ok(self)

Entry(e, h, target) == CASE e = "ref" -> ConvertRef(h, target)
                         [] e = "mut" -> ConvertMut(h, target)
                         [] e = "val" -> ConvertVal(h, target)

(* what happens to the handle the caller keeps *)
After(e, h, target) ==
  LET r == Entry(e, h, target) IN
  IF r.kind # "ok" THEN h                                     \* on error nothing changes
  ELSE IF e = "ref" THEN h                                    \* the original is untouched, result is separate
  ELSE [mode |-> r.mode, conv |-> r.conv]

(* Performance builder: variant = mode of the map / attributes it was built from *)
TryMode(p, target) ==
  IF p.variant # "osu" THEN (IF p.variant = target THEN [ok |-> TRUE, variant |-> target] ELSE [ok |-> FALSE, variant |-> p.variant])
  ELSE IF target = "osu" THEN [ok |-> TRUE, variant |-> "osu"]
  ELSE IF p.src = "attrs" THEN [ok |-> FALSE, variant |-> "osu"]       \* attributes cannot be converted
  ELSE LET r == IF p.src = "ref" THEN ConvertRef(p.h, target) ELSE ConvertMut(p.h, target)
       IN IF r.kind = "ok" THEN [ok |-> TRUE, variant |-> target] ELSE [ok |-> FALSE, variant |-> "osu"]

ModeOrIgnore(p, target) == TryMode(p, target).variant

(* properties *)
EntriesAgree(h) == \A t \in GameModes : ConvertRef(h, t) = ConvertMut(h, t) /\ ConvertMut(h, t) = ConvertVal(h, t)
OwnModeIdentity(h) == ConvertRef(h, h.mode) = Ok(h.mode, h.conv)
OnlyOsuConverts(h) == \A t \in GameModes :
   LET r == ConvertRef(h, t) IN
   /\ (r.kind = "ok" /\ t # h.mode) => (h.mode = "osu" /\ ~h.conv /\ r.conv)
   /\ (h.mode = "osu" /\ ~h.conv) => r.kind = "ok"
   /\ (r.kind = "already") = (h.conv /\ t # h.mode)
=============================================================================
