------------------------------- MODULE Session -------------------------------
(***************************************************************************)
(* Call histories of one process (C01) and threads (C20).                  *)
(* The library is specified as a set of pure functions: the result of a    *)
(* call is determined by its KEY = (operation, map, settings, score spec,  *)
(* position of a gradual calculator).  There is no variable an action      *)
(* reads besides its arguments - no cache, no RNG state that outlives a    *)
(* call (conversion seeds are functions of the map), no dependence on hash *)
(* seeds or addresses.  What a history can observe is therefore a memo     *)
(* table key -> digest that never changes once filled, and map digests     *)
(* that never change at all.                                               *)
(*                                                                         *)
(* Calls: [op, m, cfg, h]   op in decode bpm convert calc strains perf      *)
(* attrs gnext (next on gradual handle h, created on first use)             *)
(***************************************************************************)
EXTENDS Integers, Sequences, FiniteSets, TLC

(* position-dependent key of a call in a history state: gradual handles count their steps *)
KeyOf(c, pos) ==
  IF c.op = "gnext" THEN <<c.op, c.m, c.cfg, pos[c.h] + 1>> ELSE <<c.op, c.m, c.cfg, 0>>

StepPos(c, pos) == IF c.op = "gnext" THEN [pos EXCEPT ![c.h] = @ + 1] ELSE pos

(* memo semantics used by the trace specifications *)
Explains(memo, key, digest) == key \in DOMAIN memo => memo[key] = digest
Learn(memo, key, digest) == IF key \in DOMAIN memo THEN memo ELSE memo @@ (key :> digest)
=============================================================================
