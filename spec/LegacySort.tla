----------------------------- MODULE LegacySort -----------------------------
(***************************************************************************)
(* src/util/sort/osu_legacy.rs: the port of osu!'s LegacySortHelper (an    *)
(* unstable depth-limited quick sort with a heap-sort fallback) that the   *)
(* decoder runs on mania maps and the mania converter runs on its output.  *)
(* C06 / C19 lean on it for "objects in non-decreasing start-time order",  *)
(* C05 for "never panics".                                                 *)
(*                                                                         *)
(* Two transcriptions of the partition loop, selected by `mode`:           *)
(*   "lazer" - the reference: the pivot VALUE is saved before the loop     *)
(*             (`T x = keys[middle]`), indices are signed                  *)
(*   "rust"  - the code as written: every comparison re-reads              *)
(*             keys[mid] (the slot, whatever was swapped into it), indices *)
(*             are unsigned (`j.saturating_sub(1)`, `right - i`)           *)
(* Arrays are functions on 0..n-1 of [k |-> key, id |-> original position] *)
(* so that the order among equal keys is observable.                       *)
(***************************************************************************)
EXTENDS Integers, Sequences, FiniteSets, TLC
CONSTANTS DepthThreshold,      \* QUICK_SORT_DEPTH_THRESHOLD (32 in the code)
          OverflowChecks       \* debug profile: usize subtraction below zero panics

Huge == 1000000
Key(a, i) == a[i].k
Swap(a, i, j) == [a EXCEPT ![i] = a[j], ![j] = a[i]]
SwapIfGreater(a, x, y) == IF x # y /\ Key(a, x) > Key(a, y) THEN Swap(a, x, y) ELSE a
Ok(a) == [a |-> a, err |-> ""]
Err(a, e) == [a |-> a, err |-> e]

---- \* heap sort (src/util/sort/mod.rs), 1-based heap positions over keys[lo..] ----
RECURSIVE DownHeap(_, _, _, _)
DownHeap(a, i, n, lo) ==
  IF i > n \div 2 THEN a
  ELSE LET c0 == 2 * i
           c  == IF c0 < n /\ Key(a, lo + c0 - 1) < Key(a, lo + c0) THEN c0 + 1 ELSE c0
       IN IF Key(a, lo + i - 1) >= Key(a, lo + c - 1) THEN a
          ELSE DownHeap(Swap(a, lo + i - 1, lo + c - 1), c, n, lo)
RECURSIVE Heapify(_, _, _, _)
Heapify(a, i, n, lo) == IF i < 1 THEN a ELSE Heapify(DownHeap(a, i, n, lo), i - 1, n, lo)
RECURSIVE Extract(_, _, _)
Extract(a, i, lo) == IF i < 2 THEN a ELSE Extract(DownHeap(Swap(a, lo, lo + i - 1), 1, i - 1, lo), i - 1, lo)
HeapSort(a, lo, hi) == LET n == hi - lo + 1 IN Extract(Heapify(a, n \div 2, n, lo), n, lo)

---- \* the partition loop ----
RECURSIVE ScanUp(_, _, _, _)       \* `while keys[i] < pivot { i += 1 }`; n = ran off the slice
ScanUp(a, n, i, pv) == IF i >= n THEN n ELSE IF Key(a, i) < pv THEN ScanUp(a, n, i + 1, pv) ELSE i
RECURSIVE ScanDown(_, _, _)        \* `while pivot < keys[j] { j -= 1 }`; -1 = ran below index 0
ScanDown(a, j, pv) == IF j < 0 THEN -1 ELSE IF pv < Key(a, j) THEN ScanDown(a, j - 1, pv) ELSE j

RECURSIVE Part(_, _, _, _, _, _, _)
Part(mode, a, n, i, j, mid, x) ==
  LET pv == IF mode = "rust" THEN Key(a, mid) ELSE x
      i2 == ScanUp(a, n, i, pv)
      j2 == ScanDown(a, j, pv)
  IN IF i2 = n THEN [a |-> a, i |-> i2, j |-> j, err |-> "index past the end in the upward scan"]
     ELSE IF j2 < 0 THEN [a |-> a, i |-> i2, j |-> j2, err |-> "index below zero in the downward scan"]
     ELSE IF i2 > j2 THEN [a |-> a, i |-> i2, j |-> j2, err |-> ""]
     ELSE LET a2 == IF i2 < j2 THEN Swap(a, i2, j2) ELSE a
              i3 == i2 + 1
              j3 == IF mode = "rust" /\ j2 = 0 THEN 0 ELSE j2 - 1          \* j.saturating_sub(1)
          IN IF i3 > j3 THEN [a |-> a2, i |-> i3, j |-> j3, err |-> ""]
             ELSE Part(mode, a2, n, i3, j3, mid, x)

RECURSIVE QS(_, _, _, _, _, _)
QS(mode, a, n, left, right, depth) ==
  IF depth = 0 THEN Ok(HeapSort(a, left, right))
  ELSE
    LET mid == left + ((right - left) \div 2)
        a3  == SwapIfGreater(SwapIfGreater(SwapIfGreater(a, left, mid), left, right), mid, right)
        p   == Part(mode, a3, n, left, right, mid, Key(a3, mid))
        d   == depth - 1
    IN IF p.err # "" THEN Err(p.a, p.err)
       ELSE
         LET jl == IF mode = "rust" /\ p.j < left THEN 0 ELSE p.j - left     \* j.saturating_sub(left)
             ri == right - p.i                                               \* usize in the code
         IN IF mode = "rust" /\ ri < 0 /\ OverflowChecks THEN Err(p.a, "right - i below zero")
            ELSE
              LET riv == IF mode = "rust" /\ ri < 0 THEN Huge ELSE ri IN      \* wrapping in release
              IF jl <= riv
              THEN LET r1 == IF left < p.j THEN QS(mode, p.a, n, left, p.j, d) ELSE Ok(p.a)
                   IN IF r1.err # "" \/ p.i >= right THEN r1 ELSE QS(mode, r1.a, n, p.i, right, d)
              ELSE LET r1 == IF p.i < right THEN QS(mode, p.a, n, p.i, right, d) ELSE Ok(p.a)
                   IN IF r1.err # "" \/ left >= p.j THEN r1 ELSE QS(mode, r1.a, n, left, p.j, d)

Sort(mode, a, n) == IF n < 2 THEN Ok(a) ELSE QS(mode, a, n, 0, n - 1, DepthThreshold)

---- \* what C06 / C19 / C05 need of it ----
Sorted(a, n) == \A i \in 0..(n - 2) : Key(a, i) <= Key(a, i + 1)
IsPerm(a, b, n) == {a[i] : i \in 0..(n - 1)} = {b[i] : i \in 0..(n - 1)}
Good(r, a0, n) == r.err = "" /\ Sorted(r.a, n) /\ IsPerm(r.a, a0, n)
=============================================================================
