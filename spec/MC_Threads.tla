----------------------------- MODULE MC_Threads -----------------------------
(***************************************************************************)
(* C20: a list of jobs (calls of Session's alphabet) is assigned to        *)
(* threads; every call has a Begin and an End so that overlap is explicit. *)
(* Shared maps are read-only values.  A gradual calculator handle is used  *)
(* by one thread at a time and may change hands between steps (hand-over). *)
(* No action of a thread reads anything of another thread: the key of a    *)
(* call - and hence its value - is the one of the sequential run.          *)
(* TLC enumerates assignments, interleavings and hand-over points; every   *)
(* complete schedule is printed for the replay on real threads.            *)
(***************************************************************************)
EXTENDS Session, Json
CONSTANTS NThreads, Jobs          \* Jobs: which job list (1: no shared handle, 2: hand-over of h1)
VARIABLES assign, nextIdx, running, sched, pos, keys
vars == <<assign, nextIdx, running, sched, pos, keys>>
Threads == 1..NThreads
C(op, m, cfg, h) == [op |-> op, m |-> m, cfg |-> cfg, h |-> h]
(* job lists: 1 plain calls on two maps; 2..5 hand-over of a gradual calculator over the osu / taiko / catch /   *)
(* mania map, with a calculation under OTHER settings on the same map in between (so that a receiving thread  *)
(* has state of its own); 6 plain calls that differ only in lazer mod settings; 7..10 TWO gradual calculators with different settings over one shared map (taiko / osu / catch / mania), stepped in lockstep and handed between threads (a worker steps whatever it is handed)                                *)
Handover(m) == <<C("gnext", m, "A", "h1"), C("calc", m, "D", "-"), C("gnext", m, "A", "h1"), C("gnext", m, "A", "h1")>>
JobList == CASE Jobs = 1 -> <<C("calc", "m1", "A", "-"), C("perf", "m1", "A", "-"), C("calc", "m2", "A", "-"), C("strains", "m1", "B", "-")>>
             [] Jobs = 2 -> Handover("m1")
             [] Jobs = 3 -> Handover("m2")
             [] Jobs = 4 -> Handover("m3")
             [] Jobs = 5 -> Handover("m4")
             [] Jobs \in 7..10 -> LET m == CASE Jobs = 7 -> "m2" [] Jobs = 8 -> "m1" [] Jobs = 9 -> "m3" [] OTHER -> "m4"
                                 IN <<C("gnext", m, "C", "h3"), C("gnext", m, "D", "h4"), C("gnext", m, "C", "h3"), C("gnext", m, "D", "h4")>>
             \* 11: calls that differ only in a lazer DifficultyAdjust override (osu! circle size; catch circle size)
             [] Jobs = 11 -> <<C("calc", "m1", "N", "-"), C("calc", "m1", "E", "-"), C("attrs", "m1", "N", "-"), C("attrs", "m1", "E", "-")>>
             [] Jobs = 12 -> <<C("calc", "m3", "N", "-"), C("calc", "m3", "F", "-"), C("calccatch", "m1", "F", "-"), C("calccatch", "m1", "N", "-")>>
             [] OTHER -> <<C("calc", "m2", "C", "-"), C("calc", "m2", "D", "-"), C("strains", "m2", "C", "-"), C("perf", "m2", "D", "-")>>
N == Len(JobList)
Handles == {"h1", "h2", "h3", "h4", "h5", "h6"}

Init == /\ assign \in [1..N -> Threads]
        /\ nextIdx = 1 /\ running = {} /\ sched = <<>>
        /\ pos = [h \in Handles |-> 0] /\ keys = [j \in 1..N |-> <<>>]

(* jobs start in list order (program order of the submitting code); the thread is given by assign *)
HandleFree(j) == JobList[j].op = "gnext" => \A r \in running : JobList[r].h # JobList[j].h
Begin == /\ nextIdx <= N
         /\ \A r \in running : assign[r] # assign[nextIdx]          \* a thread runs one call at a time
         /\ HandleFree(nextIdx)
         /\ running' = running \cup {nextIdx}
         /\ sched' = Append(sched, [e |-> "B", j |-> nextIdx, t |-> assign[nextIdx]])
         /\ keys' = [keys EXCEPT ![nextIdx] = KeyOf(JobList[nextIdx], pos)]
         /\ pos' = StepPos(JobList[nextIdx], pos)
         /\ nextIdx' = nextIdx + 1 /\ UNCHANGED assign
End == /\ \E j \in running :
            /\ running' = running \ {j}
            /\ sched' = Append(sched, [e |-> "E", j |-> j, t |-> assign[j]])
       /\ UNCHANGED <<assign, nextIdx, pos, keys>>
Next == Begin \/ End

(* the key of every job is the key it has in the sequential run of the job list *)
RECURSIVE SeqKeys(_, _)
SeqKeys(k, p) == IF k > N THEN <<>> ELSE <<KeyOf(JobList[k], p)>> \o SeqKeys(k + 1, StepPos(JobList[k], p))
NoInterference == \A j \in 1..N : keys[j] # <<>> => keys[j] = SeqKeys(1, [h \in Handles |-> 0])[j]
Done == nextIdx > N /\ running = {}
Printer == Done => PrintT(<<"REPLAY", ToJson([jobs |-> JobList, sched |-> sched])>>)
=============================================================================
