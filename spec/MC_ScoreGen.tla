---------------------------- MODULE MC_ScoreGen ----------------------------
(***************************************************************************)
(* Bounded instance of ScoreGen.  A behaviour is                           *)
(*   new --Generate--> gen1 --Generate--> gen2                             *)
(* for a case without accuracy (the builder is written back after every    *)
(* generation, as the code does), and a single state for a case with       *)
(* accuracy (its result comes from the real code only: trace validation).  *)
(* Invariants: the transcription meets every C12 requirement, never        *)
(* underflows, and generating twice gives the same state.                  *)
(* The Printer emits one scenario line per state for the replay harness.   *)
(***************************************************************************)
EXTENDS ScoreGen, Json

CONSTANTS Modes, MaxN, Rich, AccGrid,
          BigN,          \* shapes up to BigN objects are used for the accuracy-only family (C13)
          DenseGrid      \* accuracy targets for that family

VARIABLES c, phase, res, first

vars == <<c, phase, res, first>>

Shape(a, b, cc, d) == [a |-> a, b |-> b, c |-> cc, d |-> d]

Shapes(m) ==
  CASE m = "osu" ->
         {Shape(a, b, cc, a + b + cc) : <<a, b, cc>> \in
             {t \in (0..MaxN) \X (0..1) \X {0, 2} : t[2] <= t[1] /\ (t[2] = 0 => t[3] = 0)
                                                  /\ (~Rich => t[1] \in {0, 1, MaxN})}}
    [] m = "taiko" -> {Shape(a, 0, 0, 0) : a \in 0..(MaxN + 2)}
    [] m = "catch" -> {Shape(a, b, cc, 0) : <<a, b, cc>> \in
             {t \in (0..MaxN) \X (0..2) \X {0, 3} : ~Rich => t[1] \in {0, 1, MaxN}}}
    [] m = "mania" -> {Shape(a, b, 0, 0) : <<a, b>> \in
             {t \in (0..MaxN) \X (0..2) : t[2] <= t[1] /\ (~Rich => t[1] \in {0, 1, MaxN})}}

BigShapes(m) ==
  CASE m = "osu" ->
         {Shape(a, b, cc, a + b + cc) : <<a, b, cc>> \in
             {t \in ((MaxN + 1)..BigN) \X (0..3) \X (0..2) : t[2] <= t[1] /\ (t[2] = 0 => t[3] = 0)
                                                           /\ (~Rich => t[1] = BigN /\ t[2] \in {0, 2})}}
    [] m = "taiko" -> {Shape(a, 0, 0, 0) : a \in (MaxN + 3)..(BigN + 2)}
    [] m = "catch" -> {Shape(a, b, cc, 0) : <<a, b, cc>> \in
             {t \in ((MaxN + 1)..BigN) \X (0..2) \X {0, 3, 6} : ~Rich => t[1] = BigN /\ t[2] = 1}}
    [] m = "mania" -> {Shape(a, b, 0, 0) : <<a, b>> \in
             {t \in ((MaxN + 1)..BigN) \X (0..2) : ~Rich => t[1] = BigN}}
IsBig(m, sh) == sh \in BigShapes(m)

NOf(m, sh) == IF m = "catch" THEN sh.a + sh.b ELSE sh.a
Nat0(S) == {v \in S : v >= 0} \cup {NONE}

\* (from 8 objects on also 5 and n - 2: search bounds written in terms of the misses only bite with several misses AND several hits)
Vals(n) == Nat0((IF Rich THEN {0, 1, n - 1, n, n + 2} ELSE {0, n, n + 2}) \cup (IF n >= 8 THEN {5, n - 2} ELSE {}))
PassedVals(n) == Nat0(IF Rich THEN {0, 1, n - 1, n, n + 3} ELSE {n - 1, n + 3})
MaxComboOf(m, sh) == CASE m = "osu" -> sh.d [] m = "taiko" -> sh.a [] m = "catch" -> sh.a + sh.b [] OTHER -> 0
ComboVals(m, sh) == Nat0({0, MaxComboOf(m, sh) - 1, MaxComboOf(m, sh) + 2})
Origins(m) == CASE m = "osu" -> {"S", "L", "C"} [] m = "mania" -> {"S", "L", "C"} [] OTHER -> {"S"}

(* provided fields.  The space is the union of three aspects instead of one cross product:     *)
(*   core    main hit results x misses                 (combo and the extras not provided)      *)
(*   combo   combo x misses                            (main hit results not provided)          *)
(*   extras  osu slider-end / tick hits, catch tiny droplets x misses (main not provided)       *)
Provided(m, sh) ==
  LET n == NOf(m, sh)
      none == [f \in Fields |-> NONE]
      V == Vals(n)
      MV == IF Rich THEN V ELSE Nat0({1, n + 2})          \* mania has five main fields
      TV == Nat0({0, sh.c, sh.c + 1})
      X == {NONE, 0, sh.b + sh.c + 1}
      core ==
        CASE m = "osu" ->
               {[none EXCEPT !.n300 = q[1], !.n100 = q[2], !.n50 = q[3], !.miss = q[4]] : q \in V \X V \X V \X V}
          [] m = "taiko" ->
               {[none EXCEPT !.n300 = q[1], !.n100 = q[2], !.miss = q[3]] : q \in V \X V \X V}
          [] m = "catch" ->
               {[none EXCEPT !.n300 = q[1], !.n100 = q[2], !.miss = q[3]] : q \in V \X V \X V}
          [] m = "mania" ->
               {[none EXCEPT !.geki = q[1], !.n300 = q[2], !.katu = q[3], !.n100 = q[4], !.n50 = q[5], !.miss = q[6]] :
                   q \in MV \X MV \X MV \X MV \X MV \X {NONE, 1}}
      combo == IF m = "mania" THEN {}
               ELSE {[none EXCEPT !.combo = q[1], !.miss = q[2]] : q \in ComboVals(m, sh) \X V}
      extras ==
        CASE m = "osu" ->
               {[none EXCEPT !.ends = q[1], !.large = q[2], !.small = q[3], !.miss = q[4], !.n100 = q[5]] :
                   q \in X \X X \X X \X {NONE, 1} \X {NONE, 0}}
          [] m = "catch" ->
               {[none EXCEPT !.n50 = q[1], !.katu = q[2], !.miss = q[3], !.n300 = q[4]] :
                   q \in TV \X TV \X {NONE, 1} \X {NONE, 1}}
          [] OTHER -> {}
  IN core \cup combo \cup extras

(* with accuracy: every subset of provided main results (values 0 / 1), optional misses *)
ProvidedAcc(m, sh) ==
  LET none == [f \in Fields |-> NONE]
      B == IF Rich THEN {NONE, 0, 1, NOf(m, sh)} ELSE {NONE, 1}
      TV == {NONE, 1}
  IN CASE m = "osu" ->
            {[none EXCEPT !.n300 = q[1], !.n100 = q[2], !.n50 = q[3], !.miss = q[4]] : q \in B \X B \X B \X {NONE, 1}}
       [] m = "taiko" ->
            {[none EXCEPT !.n300 = q[1], !.n100 = q[2], !.miss = q[3]] : q \in B \X B \X {NONE, 1}}
       [] m = "catch" ->
            {[none EXCEPT !.n300 = q[1], !.n100 = q[2], !.miss = q[3], !.n50 = q[4], !.katu = q[5]] :
                q \in B \X B \X {NONE, 1} \X TV \X TV}
       [] m = "mania" ->
            {[none EXCEPT !.geki = q[1], !.n300 = q[2], !.katu = q[3], !.n100 = q[4], !.n50 = q[5], !.miss = q[6]] :
                q \in B \X B \X B \X B \X B \X {NONE, 1}}

(* accuracy only (C13): nothing provided but the misses, every miss count *)
ProvidedAccOnly(m, sh) ==
  {[[f \in Fields |-> NONE] EXCEPT !.miss = q] : q \in {NONE} \cup (0..NOf(m, sh))}

(* all cases of one (mode, shape, passed): TLC computes initial states on one thread, so the   *)
(* enumeration is split: root -> (mode, shape, passed) -> case, the second step runs in parallel *)
Case(m, sh, ps, p, pr, og, ac) == [mode |-> m, sh |-> sh, passed |-> ps, p |-> p, prio |-> pr, origin |-> og, acc |-> ac]

CasesOf(m, sh, ps) ==
  IF IsBig(m, sh)
  THEN {Case(m, sh, ps, q[1], q[2], q[3], q[4]) : q \in ProvidedAccOnly(m, sh) \X {"B", "W"} \X Origins(m) \X DenseGrid}
  ELSE {Case(m, sh, ps, q[1], q[2], q[3], NONE) : q \in Provided(m, sh) \X {"B", "W"} \X Origins(m)}
       \cup {Case(m, sh, ps, q[1], q[2], q[3], q[4]) : q \in ProvidedAcc(m, sh) \X {"B", "W"} \X Origins(m) \X AccGrid}
       \cup {Case(m, sh, ps, q[1], q[2], q[3], q[4]) : q \in ProvidedAccOnly(m, sh) \X {"B", "W"} \X Origins(m) \X DenseGrid}

NoneP == [f \in Fields |-> NONE]
Stub(m, sh, ps) == [mode |-> m, sh |-> sh, passed |-> ps, p |-> NoneP, prio |-> "B", origin |-> "S", acc |-> NONE]

(* the transcription covers: no accuracy; catch also with accuracy unless the tiny search runs *)
Modelled(cs) ==
  \/ ~Has(cs.acc)
  \/ /\ cs.mode = "catch"
     /\ \/ (Has(cs.p.n50) /\ ~Has(cs.p.katu)) \/ (~Has(cs.p.n50) /\ Has(cs.p.katu))
        \/ (Has(cs.p.n50) /\ Has(cs.p.katu) /\ cs.p.n50 + cs.p.katu = cs.sh.c)

Init == /\ \E m \in Modes : \E sh \in Shapes(m) \cup BigShapes(m) :
             \E ps \in (IF m = "catch" THEN {NONE}
                        ELSE IF IsBig(m, sh) THEN {NONE, NOf(m, sh) - 2}
                        ELSE PassedVals(NOf(m, sh))) : c = Stub(m, sh, ps)
        /\ phase = "shape"
        /\ res = ZeroRes
        /\ first = ZeroRes

Choose == /\ phase = "shape"
          /\ c' \in CasesOf(c.mode, c.sh, c.passed)
          /\ phase' = "new"
          /\ UNCHANGED <<res, first>>

Generate ==
  /\ phase \in {"new", "gen1"}
  /\ Modelled(c)
  /\ LET g == Gen(c) IN
       /\ res' = g.r
       /\ first' = IF phase = "new" THEN g.r ELSE first
       /\ c' = WriteBack(c, g.r)
       /\ phase' = IF ~g.ok THEN "underflow" ELSE IF phase = "new" THEN "gen1" ELSE "gen2"

Next == Choose \/ Generate
Spec == Init /\ [][Next]_vars

-----------------------------------------------------------------------------
NoUnderflow == phase # "underflow"
ReqInv == phase \in {"gen1", "gen2"} => Requirements(c, res)   \* NB: in gen1/gen2 `c` is the written-back builder
Idempotent == phase = "gen2" => res = first

(* Requirements must hold w.r.t. the ORIGINAL case; since c is overwritten on  *)
(* the step, the check on the original case is an action property evaluated    *)
(* on the transition new -> gen1:                                              *)
ReqStep == [][phase = "new" => Requirements(c, res')]_vars

Scenario == [c |-> c, phase |-> phase,
             modelled |-> Modelled(c),
             pred |-> IF phase = "new" /\ Modelled(c) THEN Gen(c) ELSE [ok |-> TRUE, r |-> ZeroRes],
             flags |-> IF phase = "new" /\ Modelled(c) THEN ReqFlags(c, Gen(c).r) ELSE ReqFlags(c, ZeroRes)]

Printer == phase = "new" => PrintT(<<"REPLAY", ToJson(Scenario)>>)

=============================================================================
