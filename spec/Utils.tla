-------------------------------- MODULE Utils --------------------------------
(***************************************************************************)
(* Two small crate-internal data structures that other properties lean on: *)
(*                                                                         *)
(* TandemSorter (src/util/sort/tandem.rs): computes the stable sorting     *)
(* permutation of one slice and applies it to several slices (hit objects, *)
(* then their hit sounds) with an in-place cycle walk that marks visited   *)
(* indices with the top bit; the marks are toggled back before the next    *)
(* application.  C06 / C19: both slices must receive the SAME stable       *)
(* permutation, however often it is applied.                               *)
(*                                                                         *)
(* LimitedQueue (src/util/limited_queue.rs): a ring buffer of N slots;     *)
(* as_slices() / index must expose exactly the last min(len, N) pushed     *)
(* elements in push order (mania conversion density).                      *)
(***************************************************************************)
EXTENDS Integers, Sequences, FiniteSets, TLC

---- \* TandemSorter ----
(* indices are 1-based here; a marked index is represented as its negation *)
Marked(x) == x < 0
Toggle(x) == -x

RECURSIVE StableIns(_, _, _)
StableIns(keys, sorted, i) ==       \* insert index i after every index whose key <= keys[i]
  IF sorted = <<>> THEN <<i>>
  ELSE IF keys[sorted[Len(sorted)]] <= keys[i] THEN Append(sorted, i)
  ELSE Append(StableIns(keys, SubSeq(sorted, 1, Len(sorted) - 1), i), sorted[Len(sorted)])
RECURSIVE StablePerm(_, _)
StablePerm(keys, k) == IF k = 0 THEN <<>> ELSE StableIns(keys, StablePerm(keys, k - 1), k)   \* indices.sort_by(cmp)

NewSorter(keys) == [indices |-> StablePerm(keys, Len(keys)), reset |-> FALSE]

Swap(s, a, b) == [s EXCEPT ![a] = s[b], ![b] = s[a]]

(* the inner `while j_idx != i` walk; st = [ind, sl, j, jidx] *)
RECURSIVE Walk(_, _)
Walk(st, i) ==
  IF st.jidx = i THEN st
  ELSE LET ind2 == [st.ind EXCEPT ![st.j] = Toggle(st.jidx)]
           sl2  == Swap(st.sl, st.j, st.jidx)
           j2   == st.jidx
       IN Walk([ind |-> ind2, sl |-> sl2, j |-> j2, jidx |-> ind2[j2]], i)

RECURSIVE Outer(_, _, _)
Outer(ind, sl, i) ==
  IF i > Len(ind) THEN [ind |-> ind, sl |-> sl]
  ELSE IF Marked(ind[i]) THEN Outer(ind, sl, i + 1)
  ELSE LET w == Walk([ind |-> ind, sl |-> sl, j |-> i, jidx |-> ind[i]], i)
           ind3 == [w.ind EXCEPT ![w.j] = Toggle(w.jidx)]
       IN Outer(ind3, w.sl, i + 1)

(* TandemSorter::sort: returns [sorter, slice] *)
SortWith(sorter, slice) ==
  LET ind0 == IF sorter.reset THEN [k \in 1..Len(sorter.indices) |-> Toggle(sorter.indices[k])] ELSE sorter.indices
      o == Outer(ind0, slice, 1)
  IN [sorter |-> [indices |-> o.ind, reset |-> TRUE], slice |-> o.sl]

(* what it must compute: the slice permuted by the stable permutation of the keys *)
Permuted(keys, slice) == [k \in 1..Len(keys) |-> slice[StablePerm(keys, Len(keys))[k]]]

---- \* LimitedQueue ----
NewQueue(N) == [q |-> [k \in 1..N |-> 0], end |-> N - 1, len |-> 0]         \* end is 0-based as in the code
QPush(s, N, x) == LET e == (s.end + 1) % N IN [q |-> [s.q EXCEPT ![e + 1] = x], end |-> e, len |-> IF s.len < N THEN s.len + 1 ELSE s.len]
QSlices(s, N) == IF s.len = N THEN SubSeq(s.q, s.end + 2, N) \o SubSeq(s.q, 1, s.end + 1) ELSE SubSeq(s.q, 1, s.len)
QIndex(s, N, i) == s.q[((i + (IF s.len = N THEN s.end + 1 ELSE 0)) % N) + 1]                                  \* i 0-based
LastN(h, N) == IF Len(h) <= N THEN h ELSE SubSeq(h, Len(h) - N + 1, Len(h))
=============================================================================
