--------------------------- MODULE MC_AttrBuilder ---------------------------
(* grid instance of AttrBuilder: round trip, monotonicity, 1/rate scaling and    *)
(* HR >= none >= EZ ordering as invariants; one scenario line per grid point     *)
EXTENDS AttrBuilder, Json
CONSTANT Dense
VARIABLES mode, conv, field, vi, wm, mods, ri, phase
vars == <<mode, conv, field, vi, wm, mods, ri, phase>>

Grid == IF Dense
        THEN [i \in 1..81 |-> Q(i * 5 - 205, 10)]                       \* -20.0 .. 20.0 step 0.5
        ELSE <<I(-20), Q(-7, 2), I(0), Q(5, 2), I(5), Q(13, 2), Q(19, 2), I(10), I(11), I(20)>>
Rates == <<I(1), Q(3, 4), Q(3, 2), Q(13, 10), Q(1, 100), I(100), Q(1, 2), I(2)>>
V == Grid[vi]
R == Rates[ri]

Init == /\ mode \in {"osu", "taiko", "catch", "mania"} /\ conv \in BOOLEAN /\ field \in {"ar", "od", "cs", "hp"}
        /\ (conv => mode # "osu")
        /\ vi = 1 /\ wm = FALSE /\ mods = "NM" /\ ri = 1 /\ phase = "root"
Next == /\ phase = "root" /\ phase' = "pt"
        /\ vi' \in 1..Len(Grid) /\ wm' \in BOOLEAN /\ mods' \in {"NM", "HR", "EZ"}
        /\ ri' \in (IF field \in {"ar", "od"} THEN 1..Len(Rates) ELSE {1})
        /\ UNCHANGED <<mode, conv, field>>

InRange(v) == QLe(I(0), v) /\ QLe(v, I(10))

RoundTrip == phase = "pt" /\ wm =>
  CASE field = "ar" -> QEq(BuildAr(V, TRUE, mods, R), V)
    [] field = "od" -> QEq(BuildOd(mode, conv, V, TRUE, mods, R), V)
    [] field = "cs" -> QEq(BuildCs(V, TRUE, mods), V)
    [] field = "hp" -> QEq(BuildHp(V, TRUE, mods), QMin(V, I(10)))

Monotone == phase = "pt" /\ vi < Len(Grid) =>
  LET W == Grid[vi + 1] IN
  CASE field = "ar" -> QLe(Preempt(W, wm, mods, R), Preempt(V, wm, mods, R))
    [] field = "od" -> LET a == OdWindows(mode, conv, V, wm, mods, R)  b == OdWindows(mode, conv, W, wm, mods, R)
                       IN QLe(b[1], a[1]) /\ (mode # "mania" => QLe(b[2], a[2])) /\ (mode \in {"osu", "catch"} => QLe(b[3], a[3]))
    [] OTHER -> TRUE

RateScale == phase = "pt" /\ ~wm =>
  CASE field = "ar" -> QEq(QMul(Preempt(V, FALSE, mods, R), R), Preempt(V, FALSE, mods, I(1)))
    [] field = "od" /\ mode # "mania" ->
         QEq(QMul(OdWindows(mode, conv, V, FALSE, mods, R)[1], R), OdWindows(mode, conv, V, FALSE, mods, I(1))[1])
    [] OTHER -> TRUE

HrEzOrder == phase = "pt" /\ ~wm /\ InRange(V) =>
  CASE field = "ar" -> /\ QLe(BuildAr(V, FALSE, "NM", R), BuildAr(V, FALSE, "HR", R))
                       /\ QLe(BuildAr(V, FALSE, "EZ", R), BuildAr(V, FALSE, "NM", R))
    [] field = "od" -> /\ QLe(OdWindows(mode, conv, V, FALSE, "HR", R)[1], OdWindows(mode, conv, V, FALSE, "NM", R)[1])
                       /\ QLe(OdWindows(mode, conv, V, FALSE, "NM", R)[1], OdWindows(mode, conv, V, FALSE, "EZ", R)[1])
    [] field = "cs" -> QLe(BuildCs(V, FALSE, "NM"), BuildCs(V, FALSE, "HR")) /\ QLe(BuildCs(V, FALSE, "EZ"), BuildCs(V, FALSE, "NM"))
    [] field = "hp" -> QLe(BuildHp(V, FALSE, "NM"), BuildHp(V, FALSE, "HR")) /\ QLe(BuildHp(V, FALSE, "EZ"), BuildHp(V, FALSE, "NM"))

Expected ==
  CASE field = "ar" -> [preempt |-> Preempt(V, wm, mods, R), build |-> BuildAr(V, wm, mods, R)]
    [] field = "od" -> LET w == OdWindows(mode, conv, V, wm, mods, R)
                       IN [great |-> w[1], ok |-> w[2], meh |-> w[3], boundary |-> w[4], build |-> BuildOd(mode, conv, V, wm, mods, R)]
    [] field = "cs" -> [build |-> BuildCs(V, wm, mods)]
    [] field = "hp" -> [build |-> BuildHp(V, wm, mods)]

Printer == phase = "pt" => PrintT(<<"REPLAY", ToJson([mode |-> mode, conv |-> conv, field |-> field, v |-> V, wm |-> wm,
                                                       mods |-> mods, rate |-> R, exp |-> Expected])>>)
=============================================================================
