--------------------------- MODULE TraceScoreGen ---------------------------
(***************************************************************************)
(* Trace validation for C12 / C13: every line is a case TLC enumerated     *)
(* (MC_ScoreGen) together with the state the REAL generate_state returned, *)
(* whether a second generation returned the same state (idem) and whether  *)
(* calculate() equalled calculate() with that state supplied (uses).       *)
(* TLC evaluates the requirement predicates and exact optimality of        *)
(* ScoreGen.tla on the real result.                                        *)
(***************************************************************************)
EXTENDS ScoreGen, Json, IOUtils, TLCExt

Rec == ndJsonDeserialize(IOEnv.TRACE)

VARIABLE l

Norm(x) == [f \in Fields |-> x[f]]
CaseOf(ev) == [mode |-> ev.c.mode, sh |-> ev.c.sh, passed |-> ev.c.passed, p |-> Norm(ev.c.p),
               prio |-> ev.c.prio, origin |-> ev.c.origin, acc |-> ev.c.acc]

Accept(ev) ==
  LET c == CaseOf(ev)  r == Norm(ev.r) IN
  /\ Requirements(c, r)          \* C12: misses, keep, sum, tiny, combo
  /\ Optimal(c, r)               \* C13
  /\ ev.idem                     \* C12: generating twice gives the same state
  /\ ev.uses                     \* C12: calculate() uses exactly that state

TraceInit == l = 1
TraceNext == l <= Len(Rec) /\ Accept(Rec[l]) /\ l' = l + 1
TraceSpec == TraceInit /\ [][TraceNext]_l

TraceAccepted ==
  LET d == TLCGet("stats").diameter IN
  IF d - 1 = Len(Rec) THEN TRUE
  ELSE LET ev == Rec[d]  c == CaseOf(ev)  r == Norm(ev.r) IN
       Print(<<"TRACE-REJECTED at line", d, "event", ev, "flags", ReqFlags(c, r),
               "optimal", Optimal(c, r)>>, FALSE)
=============================================================================
