---------------------------- MODULE OsuStacking ----------------------------
(***************************************************************************)
(* src/osu/convert.rs: `stacking` (format version >= 6) and `old_stacking` *)
(* (version < 6), the two passes that give every osu! object its           *)
(* stack_height before the difficulty objects are built.  The height of an *)
(* object depends on objects AFTER it (the new pass walks backwards from   *)
(* the last object), so the stars of a partial play (C02 / C03: one-shot   *)
(* `passed_objects(n)` and the gradual calculators) are the stars of the   *)
(* first n objects stacked as part of the WHOLE map.                       *)
(*                                                                         *)
(* Objects are functions on 0..n-1 (the code's indices) of records         *)
(*   k     "c" circle | "s" slider | "p" spinner                           *)
(*   t, e  start / end time (ms; circle: e = t)                            *)
(*   pos   position (points on a line; Close = nearer than STACK_DISTANCE) *)
(*   epos  position of the slider TAIL (= pos for an odd repeat count)     *)
(*   ppos  position of the end of the slider PATH                          *)
(* (epos = ppos = pos for circles and spinners).                           *)
(***************************************************************************)
EXTENDS Integers, Sequences, FiniteSets

StackDistance == 3
Abs(x) == IF x < 0 THEN -x ELSE x
Close(a, b) == Abs(a - b) < StackDistance
EndPos(h) == IF h.k = "s" THEN h.epos ELSE h.pos     \* OsuObject::end_pos

---- \* stacking(): the circle branch, state right before `n = n.checked_sub(1)` ----
RECURSIVE CLoop(_, _, _, _, _, _)
CLoop(o, h, i, n, oi, thr) ==
  IF n = 0 THEN h
  ELSE LET m == n - 1 IN
    IF o[m].k = "p" THEN CLoop(o, h, i, m, oi, thr)
    ELSE IF o[oi].t - o[m].e > thr THEN h
    ELSE IF o[m].k = "s" /\ Close(o[m].epos, o[oi].pos)
      THEN LET off == h[oi] - h[m] + 1
           IN [j \in DOMAIN h |-> IF j >= m + 1 /\ j <= i /\ Close(o[m].epos, o[j].pos) THEN h[j] - off ELSE h[j]]
    ELSE IF Close(o[m].pos, o[oi].pos)
      THEN CLoop(o, [h EXCEPT ![m] = h[oi] + 1], i, m, m, thr)
    ELSE CLoop(o, h, i, m, oi, thr)

---- \* stacking(): the slider branch ----
RECURSIVE SLoop(_, _, _, _, _)
SLoop(o, h, n, oi, thr) ==
  IF n = 0 THEN h
  ELSE LET m == n - 1 IN
    IF o[m].k = "p" THEN SLoop(o, h, m, oi, thr)
    ELSE IF o[oi].t - o[m].t > thr THEN h
    ELSE IF Close(EndPos(o[m]), o[oi].pos)
      THEN SLoop(o, [h EXCEPT ![m] = h[oi] + 1], m, m, thr)
    ELSE SLoop(o, h, m, oi, thr)

RECURSIVE NewOuter(_, _, _, _)
NewOuter(o, h, i, thr) ==            \* `for i in (1..=last).rev()`
  IF i < 1 THEN h
  ELSE IF h[i] # 0 \/ o[i].k = "p" THEN NewOuter(o, h, i - 1, thr)
  ELSE IF o[i].k = "c" THEN NewOuter(o, CLoop(o, h, i, i, i, thr), i - 1, thr)
  ELSE NewOuter(o, SLoop(o, h, i, i, thr), i - 1, thr)

Zero(n) == [j \in 0..(n - 1) |-> 0]
NewStacking(o, n, thr) == IF n = 0 THEN Zero(0) ELSE NewOuter(o, Zero(n), n - 1, thr)

---- \* old_stacking() ----
RECURSIVE OldInner(_, _, _, _, _, _, _, _)
OldInner(o, h, n, i, j, st, ss, thr) ==
  IF j >= n THEN h
  ELSE IF o[j].t - thr > st THEN h
  ELSE IF Close(o[j].pos, o[i].pos)
    THEN OldInner(o, [h EXCEPT ![i] = @ + 1], n, i, j + 1, o[j].t, ss, thr)
  ELSE IF Close(o[j].pos, o[i].ppos)
    THEN OldInner(o, [h EXCEPT ![j] = @ - (ss + 1)], n, i, j + 1, o[j].t, ss + 1, thr)
  ELSE OldInner(o, h, n, i, j + 1, st, ss, thr)

RECURSIVE OldOuter(_, _, _, _, _)
OldOuter(o, h, n, i, thr) ==
  IF i >= n THEN h
  ELSE IF h[i] # 0 /\ o[i].k # "s" THEN OldOuter(o, h, n, i + 1, thr)
  ELSE OldOuter(o, OldInner(o, h, n, i, i + 1, o[i].e, 0, thr), n, i + 1, thr)

OldStacking(o, n, thr) == OldOuter(o, Zero(n), n, 0, thr)

Stack(ver, o, n, thr) == IF ver >= 6 THEN NewStacking(o, n, thr) ELSE OldStacking(o, n, thr)

---- \* what the callers rely on ----
\* heights stay small: nothing is stacked more than n deep in either direction
Bounded(h, n) == \A j \in 0..(n - 1) : h[j] <= n /\ h[j] >= -(n * n)
\* Two conjectures about spinners that TLC refuted (kept as operators, checked by nothing):
\*  - 'spinners keep height 0': the `for j in n+1..=i` loop of the circle branch lowers every object near the slider's tail,
\*    spinners included (slider 0->100 with one repeat, spinner at 0, circle at 0, all at one time);
\*  - 'the new pass never raises a spinner': the offset of that loop can be negative (slider 100->0, circle at 100, spinner at 0,
\*    circle at 0: found only with 4 objects), so the loop can also raise it.
\* Harmless: a spinner's position is not read by any skill.
SpinnersFlat(o, h, n) == \A j \in 0..(n - 1) : o[j].k = "p" => h[j] = 0
SpinnersNotRaised(o, h, n) == \A j \in 0..(n - 1) : o[j].k = "p" => h[j] <= 0
\* the heights of a prefix stacked on its own; NOT what a partial play may use when it differs from the heights inside the whole map
PrefixDiffers(ver, o, n, thr) == \E m \in 1..(n - 1) : \E j \in 0..(m - 1) : Stack(ver, o, m, thr)[j] # Stack(ver, o, n, thr)[j]
=============================================================================
