------------------------------- MODULE Corners -------------------------------
(***************************************************************************)
(* Numeric-corner alphabet of decodable maps (C05, C09).  The decoder lets *)
(* through, per field, values up to its parse limits; this module names    *)
(* the classes at and beyond the interesting boundaries and enumerates     *)
(* small maps over them.  Concrete numbers are chosen by the harness from  *)
(* the class names.  The specification has NO Panic and NO Timeout action: *)
(* every public call on such a map returns - a recorded panic or a stalled *)
(* call is not a behaviour of the specification.                           *)
(*                                                                         *)
(* Domain "adversarial": times near 2^24 / 2^30 / 2^31, coordinates at the *)
(*   parser limit, sliders at the bounded-work limit (100 repeats,         *)
(*   20000 px), spinners up to 10 minutes, timing at the clamps.           *)
(* Domain "realistic": times within 3 h, coordinates near the playfield,   *)
(*   what the editor can produce (also run with overflow checks).          *)
(* Domain "degenerate" (C09): realistic numbers, degenerate shapes: empty, *)
(*   single object of each kind, all spinners, fully stacked, zero gaps,   *)
(*   huge gaps.                                                            *)
(***************************************************************************)
EXTENDS Integers, Sequences, FiniteSets, TLC

CONSTANTS Domain, MaxObjs, Rich

Kinds == {"C", "S", "P", "H"}
Times == CASE Domain = "adversarial" -> {"t0", "neg", "p24", "p30", "p31"}
           [] Domain = "runs" -> {"s1"}
           [] Domain = "realistic" -> {"t0", "s1", "m1", "h3"}
           [] OTHER -> {"t0", "s1"}
Deltas == CASE Domain = "adversarial" -> {"d0", "d1", "d500", "dbig"}
            [] Domain = "realistic" -> {"d0", "d1", "d500", "d3000"}
            [] OTHER -> {"d0", "d1", "d125", "d500", "d20000"}
Poss == CASE Domain = "adversarial" -> {"c", "o", "far", "negfar"}
          [] Domain = "realistic" -> {"c", "o", "edge"}
          [] OTHER -> {"c", "same"}
Sizes == IF Domain \in {"degenerate", "runs"} THEN {"mid"} ELSE {"min", "edge", "mid", "max"}

(* "stat": a stationary slider (zero length) with 20 spans - all of its nested objects share one timestamp and one position *)
FirstObjs == {[k |-> q[1], t |-> q[2], p |-> q[3], z |-> q[4]] : q \in {r \in Kinds \X Times \X Poss \X (Sizes \cup {"stat"}) : r[4] = "stat" => r[1] = "S"}}
NextObjs == {[k |-> q[1], t |-> q[2], p |-> q[3], z |-> q[4]] :
               q \in {r \in Kinds \X Deltas \X (IF Rich THEN Poss ELSE {"c"}) \X ((IF Rich THEN Sizes ELSE (({"edge", "max"} \cap Sizes) \cup {"mid"})) \cup {"stat"}) :
                         r[4] = "stat" => r[1] = "S"}}

Globals == {[bl |-> q[1], sv |-> q[2], tr |-> q[3], ver |-> q[4], diff |-> q[5]] :
              q \in (IF Domain \in {"degenerate", "runs"} THEN {"b500"} ELSE IF Domain = "realistic" THEN (IF Rich THEN {"b300", "b500", "b1000"} ELSE {"b500"})
                     ELSE {"b6", "b500", "b60000"})
                 \X (IF Domain \in {"degenerate", "runs"} THEN {"sv1"} ELSE IF Domain = "realistic" THEN {"sv1", "sv2"}
                     ELSE (IF Rich THEN {"sv1", "sv01", "sv10"} ELSE {"sv1", "sv10"}))
                 \X (IF Domain \in {"degenerate", "runs"} THEN {"tr1"} ELSE IF Domain = "realistic" THEN {"tr1", "tr4"}
                     ELSE (IF Rich THEN {"tr05", "tr1", "tr8"} ELSE {"tr1", "tr8"}))
                 \X (IF Rich THEN {"v5", "v14"} ELSE {"v14"})
                 \X (IF Domain = "adversarial" /\ ~Rich THEN {"d5"} ELSE {"d0", "d5", "d10"})}

(* Domain "maniaconv": timelines aimed at the decision thresholds of the osu! -> mania pattern       *)
(* generators: an optional dense prefix (raises the conversion difficulty), then objects given by    *)
(* kind, slider span count / span duration class, distance to the previous object's END and hit      *)
(* sound class; converted under every key mod by the harness.                                        *)
ManiaFirst == {[k |-> "S", t |-> q[1], p |-> q[2], z |-> q[3]] : q \in {"sp1", "sp2", "sp5", "sp8"} \X {"s80", "s300", "s500"} \X {"n0", "n12"}}
              \cup (IF Rich THEN {[k |-> "C", t |-> "sp1", p |-> "s80", z |-> z] : z \in {"n0", "n12"}} ELSE {})
ManiaNext == {[k |-> q[1], t |-> q[2], p |-> q[3], z |-> q[4]] :
                q \in (IF Rich THEN {"C", "S"} ELSE {"C"}) \X {"d60", "d115", "d130", "d200", "d600"} \X {"s300"} \X {"n0", "n12"}}
ManiaGlobals == {[bl |-> "b500", sv |-> "sv1", tr |-> "tr1", ver |-> "v14", diff |-> q[1] \o q[2]] : q \in {"d2", "d5", "d8"} \X {"sparse", "dense"}}

(* bounded slider work: by construction of the alphabet (<= 100 repeats, <= 20000 px, <= 10 min) *)
=============================================================================
