---------------------------- MODULE MC_TaikoColour ----------------------------
(* every hit-type sequence up to MaxLen; the structure is printed for the replay on the real preprocessor (hook event) *)
EXTENDS TaikoColour, Json
CONSTANTS MaxLen, Types
VARIABLES ts
vars == <<ts>>
Init == ts = <<>>
Next == Len(ts) < MaxLen /\ \E t \in Types : ts' = Append(ts, t)
WellFormed == Partition(ts) /\ NoEmptyGroups(ts)
Printer == PrintT(<<"REPLAY", ToJson([types |-> ts, rows |-> Assigned(ts)])>>)
=============================================================================
