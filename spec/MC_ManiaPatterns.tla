--------------------------- MODULE MC_ManiaPatterns ---------------------------
(***************************************************************************)
(* The converter loop of src/mania/convert/mod.rs over ManiaPatterns: the  *)
(* state is what one object leaves for the next (previous pattern, stair   *)
(* direction); every step picks an object kind, the branch inputs and the  *)
(* RNG outcomes freely.  TLC explores every reachable previous pattern per *)
(* key count and checks that no generator can panic or leave the stage.    *)
(***************************************************************************)
EXTENDS ManiaPatterns
CONSTANT MaxSpan
VARIABLES prev, stair, err, gen
vars == <<prev, stair, err, gen>>

Init == prev = Empty /\ stair = "STAIR" /\ err = "" /\ gen = "init"

Circle ==
  \E cls \in 1..9, finish \in BOOLEAN, clap \in BOOLEAN, cd \in 0..5, x0 \in XCols :
    LET x == [prev |-> prev, stair |-> stair, ct |-> HitFlags(cls, stair, finish, clap), finish |-> finish, clap |-> clap, cd |-> cd, x0 |-> x0, obs |-> <<>>]
    IN /\ LET b == HitBranch(x) IN                 \* inputs the selected branch does not read are fixed
            /\ b \notin {"keep_single", "mirror", "random"} => x0 = CHOOSE c \in XCols : \A c2 \in XCols : c <= c2
            /\ b \notin {"mirror", "random"} => cd = 0
            /\ (b = "mirror" /\ "FORCE_NOT_STACK" \notin x.ct) => x0 = CHOOSE c \in XCols : \A c2 \in XCols : c <= c2
       /\ \E r \in GenerateCore(x) :
         /\ prev' = r.p /\ err' = r.err /\ stair' = StairAfter(x, r.p)
         /\ gen' = <<"circle", cls, finish, clap, cd, x0>>

Slider ==
  \E low \in BOOLEAN, span \in 1..MaxSpan, seg \in 0..7, long \in BOOLEAN, cd \in 0..5, x0 \in XCols,
     dbl \in BOOLEAN, head \in BOOLEAN, exact \in BOOLEAN, zero \in BOOLEAN :
    /\ zero => seg = 0
    /\ long => seg = 7                       \* 4000 ms need long segments at the span counts explored here
    /\ LET y == [prev |-> prev, low |-> low, span |-> span, seg |-> seg, long |-> long, cd |-> cd, x0 |-> x0,
                 dbl |-> dbl, head |-> head, exact |-> exact, zero |-> zero, obs |-> <<>>]
       IN /\ LET b == PathBranch(y) IN              \* inputs the selected branch does not read are fixed
               /\ b # "nrandom" => ~low /\ ~dbl
               /\ b # "holdnormal" => ~head
               /\ b \in {"randomhold", "nrandom", "single"} => (exact /\ ~zero /\ x0 = CHOOSE c \in XCols : \A c2 \in XCols : c <= c2)
               /\ b \notin {"nrandom", "holdnormal"} => \A cd2 \in 0..5 : cd2 < cd => PathBranch([y EXCEPT !.cd = cd2]) # b
          /\ \E r \in PathGenerate(y) :
            /\ prev' = r.e /\ err' = r.err /\ UNCHANGED stair
            /\ gen' = <<"slider", low, span, seg, long, cd, x0, dbl, head, exact, zero>>

Spinner ==
  \E finish \in BOOLEAN, short \in BOOLEAN :
    \E r \in EndTimeGenerate([prev |-> prev, finish |-> finish, short |-> short]) :
      /\ err' = r.err /\ UNCHANGED <<prev, stair>>         \* the converter keeps the previous pattern over a spinner
      /\ gen' = <<"spinner", finish, short>>

Next == err = "" /\ (Circle \/ Slider \/ Spinner)

NoPanicInRange == err = ""
PrevInRange == prev.cols \subseteq 0..(K - 1) /\ (prev.len > 0 => prev.last \in prev.cols)
StateView == <<prev.cols, prev.last, IF prev.len > 2 THEN 2 ELSE prev.len, stair, err>>
=============================================================================
