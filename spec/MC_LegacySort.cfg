CONSTANTS
  MaxLen = 9
  NKeys = 4
  DepthThreshold = 32
  OverflowChecks = TRUE
INIT Init
NEXT Next
INVARIANT ReferenceGood
INVARIANT RustGood
CHECK_DEADLOCK FALSE
