------------------------------- MODULE Convert -------------------------------
(***************************************************************************)
(* Conversion of osu!standard maps (C19).                                  *)
(*  - the mania key-count rule as a decision table on integers             *)
(*  - well-formedness of a converted map, evaluated by TLC on maps         *)
(*    recorded from the real converters (TraceConvert)                     *)
(*  - taiko: the splice machine replaces a slider by a burst of hits and   *)
(*    splices the sounds in tandem; what must survive: every original      *)
(*    object, in order, with its own sound; holds become spinners          *)
(*  - catch: the objects are untouched                                     *)
(* Object ids are carried in the x coordinate of the source objects and    *)
(* their hit sound (generated maps); burst hits have x = 0.                *)
(***************************************************************************)
EXTENDS Integers, Sequences, FiniteSets, TLC

Min(a, b) == IF a < b THEN a ELSE b
Max(a, b) == IF a > b THEN a ELSE b

(* keyMod: 0 = no key mod, else the number of keys.  n = objects, s = sliders + spinners,   *)
(* cs / od = rounded circle size / overall difficulty.  percent = s / n compared exactly.   *)
TargetColumns(keyMod, n, s, cs, od) ==
  IF keyMod # 0 THEN keyMod
  ELSE IF n > 0 /\ 5 * s < n THEN 7                                     \* percent < 0.2
  ELSE IF n > 0 /\ (10 * s < 3 * n \/ cs >= 5) THEN 6 + (IF od > 5 THEN 1 ELSE 0)   \* < 0.3 or big circles
  ELSE IF n > 0 /\ 5 * s > 3 * n THEN 4 + (IF od > 4 THEN 1 ELSE 0)     \* percent > 0.6
  ELSE Max(4, Min(od + 1, 7))

KeyCountOk(keyMod, k) == IF keyMod # 0 THEN k = keyMod ELSE k \in 4..7

NonDecreasing(os) == \A i \in 1..(Len(os) - 1) : os[i].t <= os[i + 1].t
StrictlyIncreasing(ps) == \A i \in 1..(Len(ps) - 1) : ps[i] < ps[i + 1]

(* the sub-sequence of objects that carry an id *)
RECURSIVE Originals(_, _)
Originals(os, k) == IF k = 0 THEN <<>>
                    ELSE IF os[k].id > 0 THEN Append(Originals(os, k - 1), os[k]) ELSE Originals(os, k - 1)

(* stable sort by time rank (what the decoder / converter produce) *)
RECURSIVE InsertSorted(_, _)
InsertSorted(sorted, o) ==
  IF sorted = <<>> THEN <<o>>
  ELSE IF sorted[Len(sorted)].t <= o.t THEN Append(sorted, o)
  ELSE Append(InsertSorted(SubSeq(sorted, 1, Len(sorted) - 1), o), sorted[Len(sorted)])
RECURSIVE StableSort(_, _)
StableSort(os, k) == IF k = 0 THEN <<>> ELSE InsertSorted(StableSort(os, k - 1), os[k])

TaikoKind(k) == IF k = "H" THEN "P" ELSE k

(* ev.src / ev.out: [objs: seq of [id, t, kind, snd], ...] *)
WellFormedConvert(ev) ==
  LET src == ev.src  out == ev.out IN
  /\ out.conv                                                  \* marked as a convert
  /\ out.mode = ev.target
  /\ NonDecreasing(out.objs)                                   \* time order
  /\ ~out.negdur                                               \* non-negative durations
  /\ out.finite
  /\ StrictlyIncreasing(out.timing) /\ StrictlyIncreasing(out.difficulty) /\ StrictlyIncreasing(out.effect)
  /\ (ev.target = "taiko" =>
        /\ Len(out.sounds) = Len(out.objs)                     \* one hit sound per object
        /\ (src.paired =>
             LET kept == Originals(out.objs, Len(out.objs))
                 \* sliders turned into bursts disappear; everything else survives in (stable) time order
                 expect == StableSort(src.objs, Len(src.objs))
                 RECURSIVE Match(_, _)
                 Match(i, j) ==          \* kept[1..i] is a sub-sequence of expect[1..j] that only skips sliders
                   IF i = 0 THEN \A q \in 1..j : expect[q].kind = "S"
                   ELSE IF j = 0 THEN FALSE
                   ELSE IF kept[i].id = expect[j].id
                        THEN kept[i].kind = TaikoKind(expect[j].kind) /\ kept[i].snd = expect[j].snd /\ Match(i - 1, j - 1)
                        ELSE expect[j].kind = "S" /\ Match(i, j - 1)
             IN /\ Match(Len(kept), Len(expect))
                /\ \A i \in 1..Len(out.objs) : out.objs[i].id = 0 => out.objs[i].kind = "C"))
  /\ (ev.target = "catch" =>
        /\ Len(out.objs) = Len(src.objs)
        /\ \A i \in 1..Len(out.objs) : out.objs[i] = src.objs[i])             \* untouched
  /\ (ev.target = "mania" =>
        /\ KeyCountOk(ev.keymod, out.keys)
        /\ out.keys = TargetColumns(ev.keymod, Len(src.objs), src.nslsp, src.cs, src.od)
        /\ \A i \in 1..Len(out.objs) : out.objs[i].x1000 >= 0 /\ out.objs[i].x1000 < 512000
                                       /\ (out.objs[i].x1000 * out.keys) \div 512000 < out.keys)
=============================================================================
