---------------------------- MODULE TraceDecoder ----------------------------
(***************************************************************************)
(* Trace validation for C06: every line is the outcome of decoding one     *)
(* byte string with the real decoder (fixture files, mutated fixtures:     *)
(* shuffled / duplicated / truncated / corrupted lines, extreme numeric    *)
(* tokens, UTF-16; random line sequences with object ids; noise).          *)
(* Times are logged as order-preserving ranks (total order of the f64      *)
(* values), other numbers rounded; `finite` says whether every numeric     *)
(* field of the map was finite.  TLC evaluates Decoder!WellFormed on it.   *)
(***************************************************************************)
EXTENDS Decoder, Json, IOUtils, TLCExt

Rec == ndJsonDeserialize(IOEnv.TRACE)
VARIABLE l

(* object ids are only embedded in generated files (paired) *)
WellFormedT(m) ==
  /\ NonDecreasing(m.objs)
  /\ Len(m.sounds) = Len(m.objs)
  /\ ((m.paired /\ m.mode # 3) => \A i \in 1..Len(m.objs) : m.sounds[i] = m.objs[i].id)
  /\ StrictlyIncreasing(m.timing) /\ StrictlyIncreasing(m.difficulty) /\ StrictlyIncreasing(m.effect)
  /\ m.hp \in 0..100 /\ m.od \in 0..100 /\ m.ar \in 0..100
  /\ (IF m.mode = 3 THEN m.cs \in 10..180 ELSE m.cs \in 0..100)
  /\ m.sm \in 4..36 /\ m.tr \in 5..80
  /\ \A i \in 1..Len(m.timing) : m.timing[i].bl \in 6..60000
  /\ \A i \in 1..Len(m.difficulty) : m.difficulty[i].sv \in 10..1000
  /\ \A i \in 1..Len(m.effect) : m.effect[i].scroll \in 1..1000
  /\ ~m.negdur

Accept(ev) ==
  /\ ~ev.panic                                   \* decoding never panics
  /\ (ev.ok => /\ ev.map.finite                  \* all numeric fields finite
               /\ WellFormedT(ev.map)
               /\ ev.same)                       \* bytes and str entry points agree

TraceInit == l = 1
TraceNext == l <= Len(Rec) /\ Accept(Rec[l]) /\ l' = l + 1
TraceSpec == TraceInit /\ [][TraceNext]_l

TraceAccepted ==
  LET d == TLCGet("stats").diameter IN
  IF d - 1 = Len(Rec) THEN TRUE
  ELSE Print(<<"TRACE-REJECTED at line", d, "event", Rec[d].src>>, FALSE)
=============================================================================
