------------------------------ MODULE Lifecycle ------------------------------
(***************************************************************************)
(* Lifetimes of gradual calculators (C11).  The osu and taiko gradual      *)
(* calculators are self-referential: they own a heap allocation (the       *)
(* referent: osu objects / difficulty objects) and hold references into    *)
(* it.  The struct itself may be moved around freely by safe code.         *)
(* Model: a handle has a location (where the struct lives) and a referent  *)
(* (where the owned allocation lives).  Moves change the location only;    *)
(* the invariant says that what the stored references point to is always   *)
(* the live referent.  Two instances, so that swaps and interleavings are  *)
(* covered.                                                                *)
(***************************************************************************)
EXTENDS Integers, Sequences, FiniteSets, TLC

Handles == {"a", "b"}

NewHandle(h) == [loc |-> "stack", moves |-> 0, idx |-> 0, referent |-> h, refs |-> h, live |-> TRUE]

Step(s, h) == [s EXCEPT ![h].idx = @ + 1]
Move(s, h, to) == [s EXCEPT ![h].loc = to, ![h].moves = @ + 1]            \* referent and refs untouched
PushVec(s, h) ==                                                           \* growing the vector moves everything already in it
  [x \in Handles |-> IF x = h THEN [s[x] EXCEPT !.loc = "vec", !.moves = @ + 1]
                     ELSE IF s[x].loc = "vec" THEN [s[x] EXCEPT !.moves = @ + 1] ELSE s[x]]
Swap(s) == [s EXCEPT !["a"] = [s["b"] EXCEPT !.moves = @ + 1], !["b"] = [s["a"] EXCEPT !.moves = @ + 1]]
Drop(s, h) == [s EXCEPT ![h].live = FALSE, ![h].loc = "dropped"]

ReferentStableOf(s) == \A h \in Handles : s[h].live => s[h].refs = s[h].referent
=============================================================================
