--------------------------- MODULE MC_ControlPoints ---------------------------
(* every strictly ordered time list up to MaxLen over Times, every query time: the code's binary search + adjustment is the *)
(* declarative lookup; each (list, query) is printed and replayed on the real functions                                  *)
EXTENDS ControlPoints, Json, TLC, SequencesExt
CONSTANTS MaxLen, Times
Queries == {t - 15 : t \in Times} \cup {t - 5 : t \in Times} \cup Times \cup {t + 5 : t \in Times}      \* before, between, at and after the points
VARIABLES ts
Init == ts = <<>>
Next == Len(ts) < MaxLen /\ \E t \in Times : (IF ts = <<>> THEN TRUE ELSE t > ts[Len(ts)]) /\ ts' = Append(ts, t)
Agree == \A q \in Queries : CodeMatchesSpec(ts, q)
QSeq == SetToSortSeq(Queries, LAMBDA a, b : a < b)
Printer == PrintT(<<"REPLAY", ToJson([ts |-> ts, q |-> [i \in 1..Len(QSeq) |-> <<QSeq[i], TimingAt(ts, QSeq[i]), DifficultyAt(ts, QSeq[i])>>]])>>)
=============================================================================
