-------------------------- MODULE TraceTaikoSplice --------------------------
(* Every line is one real osu! -> taiko conversion: the decoded source list (ids in x, sounds, node sounds), the     *)
(* bursts the converter's hook reported (slider index in the list as mutated so far, hit times) and the converted    *)
(* list.  The splice machine of TaikoSplice, run on the source with those bursts, must produce exactly that list and *)
(* visit the sliders at exactly those indices.                                                                       *)
EXTENDS TaikoSplice, Json, IOUtils, TLCExt
Rec == ndJsonDeserialize(IOEnv.TRACE)
VARIABLE l
Accept(ev) ==
  LET r == Convert(ev.src, ev.sounds)
  IN /\ ~ev.panic
     /\ r.aligned /\ Len(ev.out) = Len(ev.out_sounds)              \* one hit sound per object
     /\ r.log = ev.log                                             \* the index arithmetic of the splice
     /\ \A b \in 1..Len(ev.ts_pos) : ev.ts_pos[b]                  \* only a slider with a positive tick spacing becomes hits (a
                                                                   \* zero-length slider stays a drum roll: it never counts as a hit)
     /\ Len(r.out) = Len(ev.out)
     /\ \A i \in 1..Len(ev.out) : r.out[i] = [id |-> ev.out[i].id, t |-> ev.out[i].t, kind |-> ev.out[i].kind, snd |-> ev.out_sounds[i]]
     /\ NonDecreasing(r.out)
     /\ r.out = Expected(ev.src, ev.sounds)
TraceInit == l = 1
TraceNext == l <= Len(Rec) /\ Accept(Rec[l]) /\ l' = l + 1
TraceSpec == TraceInit /\ [][TraceNext]_l
TraceAccepted ==
  LET d == TLCGet("stats").diameter IN
  IF d - 1 = Len(Rec) THEN TRUE
  ELSE Print(<<"TRACE-REJECTED at line", d, "event", Rec[d].label>>, FALSE)
=============================================================================
