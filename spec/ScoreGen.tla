------------------------------ MODULE ScoreGen ------------------------------
(***************************************************************************)
(* Score-state generation of the four performance builders                 *)
(* (`generate_state`), C12 and C13.                                        *)
(*                                                                         *)
(* A case is what a caller supplies:                                       *)
(*   mode, sh (attribute shape), passed (passed_objects or NONE),          *)
(*   p (provided fields, NONE = not provided), prio ("B" best / "W" worst  *)
(*   case), origin ("S" stable, "L" lazer, "C" lazer + classic mod),       *)
(*   acc (NONE or k, the target accuracy is k / ACC_T)                     *)
(* A result is a record over the generic field names of                    *)
(* rosu_pp::any::ScoreState:                                               *)
(*   geki n300 katu n100 n50 miss combo ends large small                   *)
(*   (catch: n300 = fruits, n100 = droplets, n50 = tiny droplets,          *)
(*    katu = tiny droplet misses; mania: geki = n320, katu = n200)         *)
(* Shapes:  osu   a = n_objects, b = n_sliders, c = n_large_ticks,         *)
(*                d = max_combo                                            *)
(*          taiko a = max_combo                                            *)
(*          catch a = n_fruits, b = n_droplets, c = n_tiny_droplets        *)
(*          mania a = n_objects, b = n_hold_notes                          *)
(*                                                                         *)
(* Part 1: declarative requirements (one per sentence of C12) and exact    *)
(*         optimality (C13) - evaluated by TLC on the transcription AND on *)
(*         every result recorded from the real code (trace validation).    *)
(* Part 2: transcription of the integer (no-accuracy) branches of the four *)
(*         functions, u32 semantics made explicit (Min, SatSub, partial    *)
(*         minus = Underflow).                                             *)
(***************************************************************************)
EXTENDS Integers, Sequences, FiniteSets, TLC

CONSTANT ACC_T            \* accuracy grid: targets are k / ACC_T

NONE == -1
UNLIMITED == 1000000
Has(v) == v # NONE
Or0(v) == IF v = NONE THEN 0 ELSE v
Min(a, b) == IF a < b THEN a ELSE b
Max(a, b) == IF a > b THEN a ELSE b
SatSub(a, b) == IF a > b THEN a - b ELSE 0
Abs(x) == IF x < 0 THEN -x ELSE x

Fields == {"geki", "n300", "katu", "n100", "n50", "miss", "combo", "ends", "large", "small"}
ZeroRes == [f \in Fields |-> 0]

(* hit results that partition the objects, best to worst *)
Main(mode) == CASE mode = "osu"   -> <<"n300", "n100", "n50">>
                [] mode = "taiko" -> <<"n300", "n100">>
                [] mode = "mania" -> <<"geki", "n300", "katu", "n100", "n50">>
                [] mode = "catch" -> <<"n300", "n100">>
MainSet(mode) == {Main(mode)[i] : i \in 1..Len(Main(mode))}

RECURSIVE SumSeq(_, _, _)
SumSeq(r, fs, k) == IF k = 0 THEN 0 ELSE SumSeq(r, fs, k - 1) + r[fs[k]]
MainSum(mode, r) == SumSeq(r, Main(mode), Len(Main(mode)))

Passed(c) == IF c.passed = NONE THEN UNLIMITED ELSE c.passed
Classic(c) == c.origin # "L"                      \* mania: !lazer || CL

(* objects the misses are clamped to / the hit results must add up to *)
MissCap(c) == CASE c.mode = "catch" -> c.sh.a + c.sh.b
                [] OTHER -> Min(Passed(c), c.sh.a)
NResults(c) == CASE c.mode = "mania" -> MissCap(c) + (IF Classic(c) THEN 0 ELSE c.sh.b)
                 [] OTHER -> MissCap(c)
MaxCombo(c) == CASE c.mode = "osu" -> c.sh.d
                 [] c.mode = "taiko" -> c.sh.a
                 [] c.mode = "catch" -> c.sh.a + c.sh.b
                 [] OTHER -> 0

-----------------------------------------------------------------------------
(* Part 1a: C12 requirement predicates on (case, result)                   *)

MissesOk(c, r) == r.miss <= MissCap(c) /\ r.miss >= 0

Rem(c, r) == NResults(c) - r.miss                  \* what remains after the misses

RECURSIVE ProvSum(_, _, _, _)
ProvSum(c, r, fs, k) ==
  IF k = 0 THEN 0
  ELSE ProvSum(c, r, fs, k - 1) + (IF Has(c.p[fs[k]]) THEN Min(c.p[fs[k]], Rem(c, r)) ELSE 0)

(* the provided (clamped) hit results do not already exceed the objects *)
Fits(c, r) == ProvSum(c, r, Main(c.mode), Len(Main(c.mode))) + r.miss <= NResults(c)

SomeFree(c) == \E f \in MainSet(c.mode) : ~Has(c.p[f])

(* catch: a provided amount of fruits / droplets also has to exist in the map *)
KindCap(c, f) == IF c.mode = "catch" THEN (IF f = "n300" THEN c.sh.a ELSE c.sh.b) ELSE UNLIMITED

KeepOk(c, r) ==
  Fits(c, r) =>
    \A f \in MainSet(c.mode) :
       (Has(c.p[f]) /\ c.p[f] <= Rem(c, r) /\ c.p[f] <= KindCap(c, f)) =>
          /\ r[f] >= c.p[f]                                        \* never reduced
          /\ ((c.mode # "catch" /\ SomeFree(c)) => r[f] = c.p[f])  \* the remainder goes to the free ones

SumOk(c, r) == Fits(c, r) => MainSum(c.mode, r) + r.miss = NResults(c)

TinyOk(c, r) == (c.mode = "catch" /\ Or0(c.p.n50) + Or0(c.p.katu) <= c.sh.c) => r.n50 + r.katu = c.sh.c

ComboOk(c, r) == c.mode # "mania" => r.combo <= SatSub(MaxCombo(c), r.miss)

NonNeg(r) == \A f \in Fields : r[f] >= 0

Requirements(c, r) == /\ NonNeg(r) /\ MissesOk(c, r) /\ KeepOk(c, r) /\ SumOk(c, r)
                      /\ TinyOk(c, r) /\ ComboOk(c, r)

ReqFlags(c, r) == [nonneg |-> NonNeg(r), misses |-> MissesOk(c, r), keep |-> KeepOk(c, r),
                   sum |-> SumOk(c, r), tiny |-> TinyOk(c, r), combo |-> ComboOk(c, r)]

-----------------------------------------------------------------------------
(* Part 1b: C13 exact accuracy and optimality                              *)
(* accuracy of a result x = Num / Den, in integer units                    *)

AccNum(c, x) ==
  CASE c.mode = "osu" ->
         30 * x.n300 + 10 * x.n100 + 5 * x.n50
         + (CASE c.origin = "L" -> 15 * Min(x.ends, c.sh.b) + 3 * Min(x.large, c.sh.c)
              [] c.origin = "C" -> 3 * Min(x.large, c.sh.b + c.sh.c) + Min(x.small, c.sh.b)
              [] OTHER -> 0)
    [] c.mode = "taiko" -> 2 * x.n300 + x.n100
    [] c.mode = "mania" -> (IF Classic(c) THEN 60 ELSE 61) * x.geki + 60 * x.n300 + 40 * x.katu + 20 * x.n100 + 10 * x.n50
    [] c.mode = "catch" -> x.n300 + x.n100 + x.n50

AccDen(c, x) ==
  CASE c.mode = "osu" ->
         30 * (x.n300 + x.n100 + x.n50 + x.miss)
         + (CASE c.origin = "L" -> 15 * c.sh.b + 3 * c.sh.c
              [] c.origin = "C" -> 3 * (c.sh.b + c.sh.c) + c.sh.b
              [] OTHER -> 0)
    [] c.mode = "taiko" -> 2 * (x.n300 + x.n100 + x.miss)
    [] c.mode = "mania" -> (IF Classic(c) THEN 60 ELSE 61) * (x.geki + x.n300 + x.katu + x.n100 + x.n50 + x.miss)
    [] c.mode = "catch" -> x.n300 + x.n100 + x.n50 + x.katu + x.miss

(* |Num/Den - k/T| as <<n, d>>, meaning n / (d * ACC_T) (Den = 0: accuracy 0); the common factor ACC_T is left out of *)
(* the denominators so that the cross-multiplication of FracLe stays inside TLC's 32-bit integers                     *)
DistFrac(c, x) ==
  LET d == AccDen(c, x) IN
  IF d = 0 THEN <<c.acc, 1>> ELSE <<Abs(AccNum(c, x) * ACC_T - c.acc * d), d>>
FracLe(p, q) == p[1] * q[2] <= q[1] * p[2]

(* every other distribution of the hit results over the same objects *)
Dists(c, r) ==
  LET n == Rem(c, r) IN
  CASE c.mode = "osu" ->
         {[r EXCEPT !.n300 = a, !.n100 = b, !.n50 = n - a - b] : <<a, b>> \in {ab \in (0..n) \X (0..n) : ab[1] + ab[2] <= n}}
    [] c.mode = "taiko" -> {[r EXCEPT !.n300 = a, !.n100 = n - a] : a \in 0..n}
    [] c.mode = "mania" ->
         {[r EXCEPT !.geki = q[1], !.n300 = q[2], !.katu = q[3], !.n100 = q[4], !.n50 = n - q[1] - q[2] - q[3] - q[4]] :
             q \in {q \in (0..n) \X (0..n) \X (0..n) \X (0..n) : q[1] + q[2] + q[3] + q[4] <= n}}
    [] c.mode = "catch" -> {[r EXCEPT !.n50 = t, !.katu = c.sh.c - t] : t \in 0..c.sh.c}

(* C13 applies: accuracy given, no individual hit result given *)
AccOnly(c) == /\ Has(c.acc)
              /\ \A f \in MainSet(c.mode) : ~Has(c.p[f])
              /\ (c.mode = "catch" => ~Has(c.p.n50) /\ ~Has(c.p.katu))

(* "achievable": the result is itself one of the distributions of the remaining objects *)
Achievable(c, r) == IF c.mode = "catch" THEN r.n50 + r.katu = c.sh.c ELSE MainSum(c.mode, r) = Rem(c, r)
Optimal(c, r) ==
  AccOnly(c) =>
     /\ r.miss = Min(Or0(c.p.miss), MissCap(c))
     /\ (Rem(c, r) >= 0 => /\ Achievable(c, r)
                           /\ \A d \in Dists(c, r) : FracLe(DistFrac(c, r), DistFrac(c, d)))

-----------------------------------------------------------------------------
(* Part 2: transcription of the integer branches (acc = NONE; catch: all   *)
(* but the tiny-droplet search).  Result [ok, r]; ok = FALSE: u32 underflow *)

Clamp(c, f, cap) == IF Has(c.p[f]) THEN Min(c.p[f], cap) ELSE 0

(* remainder assignment by priority over the ordered main fields:          *)
(* the first field not provided (from the best / the worst end) is SET to  *)
(* the remainder; if all are provided the best / worst one gets it added.  *)
RECURSIVE FirstFree(_, _, _, _)
FirstFree(c, fs, i, step) ==                       \* index of first unprovided field, 0 if none
  IF i < 1 \/ i > Len(fs) THEN 0
  ELSE IF ~Has(c.p[fs[i]]) THEN i ELSE FirstFree(c, fs, i + step, step)

Fill(c, r0, remaining) ==
  LET fs == Main(c.mode)
      i  == IF c.prio = "B" THEN FirstFree(c, fs, 1, 1) ELSE FirstFree(c, fs, Len(fs), -1)
      j  == IF c.prio = "B" THEN 1 ELSE Len(fs)
  IN IF i # 0 THEN [r0 EXCEPT ![fs[i]] = remaining] ELSE [r0 EXCEPT ![fs[j]] = @ + remaining]

ComboOf(c, misses) ==
  LET mp == SatSub(MaxCombo(c), misses) IN IF Has(c.p.combo) THEN Min(c.p.combo, mp) ELSE mp

GenStd(c) ==                                        \* osu, taiko, mania without accuracy
  LET n      == NResults(c)
      misses == Min(Or0(c.p.miss), MissCap(c))
      nrem   == n - misses
      fs     == Main(c.mode)
      r0     == [f \in Fields |-> IF f \in MainSet(c.mode) THEN Clamp(c, f, nrem) ELSE 0]
      remaining == SatSub(n, MainSum(c.mode, r0) + misses)
      r1     == [Fill(c, r0, remaining) EXCEPT !.miss = misses]
      r2     == IF c.mode = "mania" THEN r1 ELSE [r1 EXCEPT !.combo = ComboOf(c, misses)]
      r3     == IF c.mode # "osu" \/ c.origin = "S" THEN r2
                ELSE IF c.origin = "L"
                     THEN [r2 EXCEPT !.ends  = IF Has(c.p.ends) THEN Min(c.p.ends, c.sh.b) ELSE c.sh.b,
                                     !.large = IF Has(c.p.large) THEN Min(c.p.large, c.sh.c) ELSE c.sh.c]
                     ELSE [r2 EXCEPT !.small = IF Has(c.p.small) THEN Min(c.p.small, c.sh.b) ELSE c.sh.b,
                                     !.large = IF Has(c.p.large) THEN Min(c.p.large, c.sh.b + c.sh.c) ELSE c.sh.b + c.sh.c]
  IN [ok |-> TRUE, r |-> r3]

GenCatch(c) ==                                      \* fruits / droplets / misses / combo; tiny without accuracy
  LET F == c.sh.a  D == c.sh.b  T == c.sh.c
      misses == Min(Or0(c.p.miss), F + D)
      combo  == IF Has(c.p.combo) THEN Min(c.p.combo, F + D - misses) ELSE F + D - misses
      fd == CASE Has(c.p.n300) /\ Has(c.p.n100) ->
                   LET nrem == SatSub(F + D, c.p.n300 + c.p.n100 + misses)
                       newd == Min(nrem, SatSub(D, c.p.n100))
                       d1   == c.p.n100 + newd
                       f1   == c.p.n300 + (nrem - newd)
                       f2   == Min(f1, SatSub(F + D, d1 + misses))
                       d2   == Min(d1, F + D - f2 - misses)
                   IN <<f2, d2, F + D - f2 - misses >= 0>>
              [] Has(c.p.n300) /\ ~Has(c.p.n100) ->
                   LET d1 == SatSub(D, SatSub(misses, SatSub(F, c.p.n300)))
                   IN <<F + D - misses - d1, d1, F + D - misses - d1 >= 0>>
              [] ~Has(c.p.n300) /\ Has(c.p.n100) ->
                   LET f1 == SatSub(F, SatSub(misses, SatSub(D, c.p.n100)))
                   IN <<f1, F + D - misses - f1, F + D - misses - f1 >= 0>>
              [] OTHER ->
                   LET d1 == SatSub(D, misses)
                       inner == misses - SatSub(D, d1)
                   IN <<F - inner, d1, inner >= 0 /\ F - inner >= 0>>
      tiny == CASE Has(c.p.n50) /\ Has(c.p.katu) ->
                     <<c.p.n50 + SatSub(T, c.p.n50 + c.p.katu), c.p.katu>>
                [] Has(c.p.n50) /\ ~Has(c.p.katu) -> <<Min(T, c.p.n50), SatSub(T, c.p.n50)>>
                [] ~Has(c.p.n50) /\ Has(c.p.katu) -> <<SatSub(T, c.p.katu), Min(T, c.p.katu)>>
                [] OTHER -> <<T, 0>>
  IN [ok |-> fd[3],
      r  |-> [ZeroRes EXCEPT !.n300 = fd[1], !.n100 = fd[2], !.miss = misses, !.combo = combo,
                             !.n50 = tiny[1], !.katu = tiny[2]]]

Gen(c) == IF c.mode = "catch" THEN GenCatch(c) ELSE GenStd(c)

(* generate_state writes the generated state back into the builder *)
WriteBack(c, r) ==
  [c EXCEPT !.p = [f \in Fields |->
      CASE c.mode = "osu"   -> IF f \in {"n300", "n100", "n50", "miss", "combo", "ends", "large", "small"} THEN r[f] ELSE c.p[f]
        [] c.mode = "taiko" -> IF f \in {"n300", "n100", "miss", "combo"} THEN r[f] ELSE c.p[f]
        [] c.mode = "catch" -> IF f \in {"n300", "n100", "n50", "katu", "miss", "combo"} THEN r[f] ELSE c.p[f]
        [] c.mode = "mania" -> IF f \in {"geki", "n300", "katu", "n100", "n50", "miss"} THEN r[f] ELSE c.p[f]]]

=============================================================================
