----------------------------- MODULE CsharpSort -----------------------------
(***************************************************************************)
(* src/util/sort/csharp.rs: the port of .NET's introspective sort that     *)
(* orders the nested objects of an osu! slider (src/osu/object.rs).  C05:  *)
(* the unguarded scans of pick_pivot_and_partition rely on median-of-three *)
(* sentinels and must not leave the slice for ANY key sequence (ties       *)
(* included); C14 / C02 lean on the result being a sorted permutation.     *)
(* Transcribed as written: 0-based indices, usize arithmetic made explicit *)
(* (an index below 0 or past the end is an error outcome, not a wrap).     *)
(* Arrays: functions on 0..n-1 of [k |-> key, id |-> original position].   *)
(***************************************************************************)
EXTENDS Integers, Sequences, FiniteSets, TLC

Key(a, i) == a[i].k
Swap(a, i, j) == [a EXCEPT ![i] = a[j], ![j] = a[i]]
SwapIfGreater(a, x, y) == IF x # y /\ Key(a, x) > Key(a, y) THEN Swap(a, x, y) ELSE a
Ok(a) == [a |-> a, err |-> ""]
Err(a, e) == [a |-> a, err |-> e]

(* insertion_sort(keys, lo, hi): element i + 1 moves left past every greater element of keys[lo..=i] *)
RECURSIVE Shift(_, _, _, _)
Shift(a, lo, j, t) == IF j < lo \/ ~(t.k < Key(a, j)) THEN j ELSE Shift(a, lo, j - 1, t)     \* first index whose key is <= t, scanning down
RECURSIVE InsLoop(_, _, _, _)
InsLoop(a, lo, hi, i) ==
  IF i >= hi THEN a
  ELSE LET t == a[i + 1]
           stop == Shift(a, lo, i, t)                       \* t goes to stop + 1
           moved == [x \in DOMAIN a |-> IF x = stop + 1 THEN t ELSE IF x > stop + 1 /\ x <= i + 1 THEN a[x - 1] ELSE a[x]]
       IN InsLoop(moved, lo, hi, i + 1)
InsertionSort(a, lo, hi) == InsLoop(a, lo, hi, lo)

(* heap sort (src/util/sort/mod.rs), 1-based heap positions over keys[lo..] *)
RECURSIVE DownHeap(_, _, _, _)
DownHeap(a, i, n, lo) ==
  IF i > n \div 2 THEN a
  ELSE LET c0 == 2 * i
           c  == IF c0 < n /\ Key(a, lo + c0 - 1) < Key(a, lo + c0) THEN c0 + 1 ELSE c0
       IN IF Key(a, lo + i - 1) >= Key(a, lo + c - 1) THEN a
          ELSE DownHeap(Swap(a, lo + i - 1, lo + c - 1), c, n, lo)
RECURSIVE Heapify(_, _, _, _)
Heapify(a, i, n, lo) == IF i < 1 THEN a ELSE Heapify(DownHeap(a, i, n, lo), i - 1, n, lo)
RECURSIVE Extract(_, _, _)
Extract(a, i, lo) == IF i < 2 THEN a ELSE Extract(DownHeap(Swap(a, lo, lo + i - 1), 1, i - 1, lo), i - 1, lo)
HeapSort(a, lo, hi) == LET n == hi - lo + 1 IN Extract(Heapify(a, n \div 2, n, lo), n, lo)

(* pick_pivot_and_partition: the scans have no bounds check *)
RECURSIVE ScanUp(_, _, _, _)       \* `left += 1` then compare; returns n when it ran off the slice
ScanUp(a, n, left, pv) == LET l == left + 1 IN IF l >= n THEN n ELSE IF Key(a, l) < pv THEN ScanUp(a, n, l, pv) ELSE l
RECURSIVE ScanDown(_, _, _)        \* `right -= 1` then compare; returns -1 on `0 - 1`
ScanDown(a, right, pv) == LET r == right - 1 IN IF r < 0 THEN -1 ELSE IF pv < Key(a, r) THEN ScanDown(a, r, pv) ELSE r
RECURSIVE PartLoop(_, _, _, _, _)
PartLoop(a, n, left, right, pidx) ==
  IF ~(left < right) THEN [a |-> a, left |-> left, err |-> ""]
  ELSE LET l2 == ScanUp(a, n, left, Key(a, pidx)) IN
       IF l2 = n THEN [a |-> a, left |-> l2, err |-> "index past the end in the upward scan"]
       ELSE LET r2 == ScanDown(a, right, Key(a, pidx)) IN
            IF r2 < 0 THEN [a |-> a, left |-> l2, err |-> "index below zero in the downward scan"]
            ELSE IF l2 >= r2 THEN [a |-> a, left |-> l2, err |-> ""]
            ELSE PartLoop(Swap(a, l2, r2), n, l2, r2, pidx)
Partition(a, n, lo, hi) ==
  LET mid == lo + (hi - lo) \div 2
      a1 == SwapIfGreater(SwapIfGreater(SwapIfGreater(a, lo, mid), lo, hi), mid, hi)
      a2 == Swap(a1, mid, hi - 1)
      p == PartLoop(a2, n, lo, hi - 1, hi - 1)
  IN IF p.err # "" THEN [a |-> p.a, p |-> 0, err |-> p.err]
     ELSE [a |-> Swap(p.a, p.left, hi - 1), p |-> p.left, err |-> ""]

RECURSIVE IntroSort(_, _, _, _, _, _)
IntroSort(a, n, lo, hi, depth, threshold) ==
  IF ~(hi > lo) THEN Ok(a)
  ELSE LET size == hi - lo + 1 IN
    IF size <= threshold THEN
      Ok(CASE size = 1 -> a
           [] size = 2 -> SwapIfGreater(a, lo, hi)
           [] size = 3 -> SwapIfGreater(SwapIfGreater(SwapIfGreater(a, lo, hi - 1), lo, hi), hi - 1, hi)
           [] OTHER -> InsertionSort(a, lo, hi))
    ELSE IF depth = 0 THEN Ok(HeapSort(a, lo, hi))
    ELSE LET q == Partition(a, n, lo, hi) IN
         IF q.err # "" THEN Err(q.a, q.err)
         ELSE LET r == IntroSort(q.a, n, q.p + 1, hi, depth - 1, threshold) IN
              IF r.err # "" THEN r
              ELSE IF q.p = 0 THEN Err(r.a, "p - 1 below zero")               \* `hi = p - 1` on usize
              ELSE IntroSort(r.a, n, lo, q.p - 1, depth - 1, threshold)

RECURSIVE Log2(_)
Log2(n) == IF n <= 1 THEN 0 ELSE 1 + Log2(n \div 2)
Sort(a, n, threshold) == IF n < 2 THEN Ok(a) ELSE IntroSort(a, n, 0, n - 1, 2 * Log2(n), threshold)

Sorted(a, n) == \A i \in 0..(n - 2) : Key(a, i) <= Key(a, i + 1)
IsPerm(a, b, n) == {a[i] : i \in 0..(n - 1)} = {b[i] : i \in 0..(n - 1)}
Good(r, a0, n) == r.err = "" /\ Sorted(r.a, n) /\ IsPerm(r.a, a0, n)
=============================================================================
